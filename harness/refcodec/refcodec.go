// Package refcodec is an MQTT 3.1.1 encoder and strict decoder written from the
// OASIS specification. It shares no code with github.com/mdzio/go-mqtt/message
// and is the oracle for the codec properties and the parser behind every wire
// observation of the harness.
package refcodec

import (
	"errors"
	"fmt"
	"unicode/utf8"
)

// Packet types.
const (
	CONNECT     = 1
	CONNACK     = 2
	PUBLISH     = 3
	PUBACK      = 4
	PUBREC      = 5
	PUBREL      = 6
	PUBCOMP     = 7
	SUBSCRIBE   = 8
	SUBACK      = 9
	UNSUBSCRIBE = 10
	UNSUBACK    = 11
	PINGREQ     = 12
	PINGRESP    = 13
	DISCONNECT  = 14
)

var typeNames = [...]string{"RESERVED", "CONNECT", "CONNACK", "PUBLISH", "PUBACK", "PUBREC", "PUBREL", "PUBCOMP", "SUBSCRIBE", "SUBACK", "UNSUBSCRIBE", "UNSUBACK", "PINGREQ", "PINGRESP", "DISCONNECT", "RESERVED2"}

// TypeName returns the name of a packet type.
func TypeName(t byte) string {
	if int(t) < len(typeNames) {
		return typeNames[t]
	}
	return fmt.Sprintf("TYPE%d", t)
}

// Packet is the field record of any MQTT 3.1.1 control packet.
type Packet struct {
	Type byte

	// CONNECT
	ProtoName    string
	Level        byte
	CleanSession bool
	KeepAlive    uint16
	ClientID     []byte
	HasWill      bool
	WillQoS      byte
	WillRetain   bool
	WillTopic    []byte
	WillMsg      []byte
	HasUser      bool
	User         []byte
	HasPass      bool
	Pass         []byte

	// CONNACK
	SessionPresent bool
	ReturnCode     byte

	// PUBLISH
	Dup     bool
	QoS     byte
	Retain  bool
	Topic   []byte
	Payload []byte

	// Packet identifier (PUBLISH QoS>0, PUBACK.., SUBSCRIBE.., UNSUBSCRIBE..)
	ID uint16

	// SUBSCRIBE / UNSUBSCRIBE
	Filters [][]byte
	QoSs    []byte // SUBSCRIBE requested QoS

	// SUBACK
	Codes []byte
}

func (p *Packet) String() string {
	switch p.Type {
	case PUBLISH:
		pl := p.Payload
		if len(pl) > 16 {
			pl = pl[:16]
		}
		return fmt.Sprintf("PUBLISH{topic=%q qos=%d dup=%v retain=%v id=%d len=%d payload=%x..}", p.Topic, p.QoS, p.Dup, p.Retain, p.ID, len(p.Payload), pl)
	case CONNACK:
		return fmt.Sprintf("CONNACK{sp=%v rc=%d}", p.SessionPresent, p.ReturnCode)
	case SUBACK:
		return fmt.Sprintf("SUBACK{id=%d codes=%v}", p.ID, p.Codes)
	case CONNECT:
		return fmt.Sprintf("CONNECT{cid=%q clean=%v ka=%d will=%v}", p.ClientID, p.CleanSession, p.KeepAlive, p.HasWill)
	case SUBSCRIBE, UNSUBSCRIBE:
		return fmt.Sprintf("%s{id=%d filters=%q qos=%v}", TypeName(p.Type), p.ID, p.Filters, p.QoSs)
	case PUBACK, PUBREC, PUBREL, PUBCOMP, UNSUBACK:
		return fmt.Sprintf("%s{id=%d}", TypeName(p.Type), p.ID)
	}
	return TypeName(p.Type)
}

// MaxRemLen is the largest remaining length MQTT can express.
const MaxRemLen = 268435455

// AppendVarint appends the MQTT variable-length encoding of n.
func AppendVarint(b []byte, n int) []byte {
	for {
		d := byte(n % 128)
		n /= 128
		if n > 0 {
			d |= 0x80
		}
		b = append(b, d)
		if n == 0 {
			return b
		}
	}
}

func appendLP(b []byte, s []byte) []byte {
	b = append(b, byte(len(s)>>8), byte(len(s)))
	return append(b, s...)
}

// FixedFlags returns the mandatory fixed-header flag nibble of a non-PUBLISH type.
func FixedFlags(t byte) byte {
	switch t {
	case PUBREL, SUBSCRIBE, UNSUBSCRIBE:
		return 2
	}
	return 0
}

// Encode returns the MQTT 3.1.1 wire encoding of p. It does not validate the
// record (so deliberately invalid packets can be produced for attack inputs).
func Encode(p *Packet) []byte {
	var body []byte
	flags := FixedFlags(p.Type)
	switch p.Type {
	case CONNECT:
		body = appendLP(body, []byte(p.ProtoName))
		body = append(body, p.Level)
		var cf byte
		if p.CleanSession {
			cf |= 2
		}
		if p.HasWill {
			cf |= 4
			cf |= (p.WillQoS & 3) << 3
			if p.WillRetain {
				cf |= 0x20
			}
		}
		if p.HasPass {
			cf |= 0x40
		}
		if p.HasUser {
			cf |= 0x80
		}
		body = append(body, cf)
		body = append(body, byte(p.KeepAlive>>8), byte(p.KeepAlive))
		body = appendLP(body, p.ClientID)
		if p.HasWill {
			body = appendLP(body, p.WillTopic)
			body = appendLP(body, p.WillMsg)
		}
		if p.HasUser {
			body = appendLP(body, p.User)
		}
		if p.HasPass {
			body = appendLP(body, p.Pass)
		}
	case CONNACK:
		var f byte
		if p.SessionPresent {
			f = 1
		}
		body = append(body, f, p.ReturnCode)
	case PUBLISH:
		flags = (p.QoS & 3) << 1
		if p.Dup {
			flags |= 8
		}
		if p.Retain {
			flags |= 1
		}
		body = appendLP(body, p.Topic)
		if p.QoS > 0 {
			body = append(body, byte(p.ID>>8), byte(p.ID))
		}
		body = append(body, p.Payload...)
	case PUBACK, PUBREC, PUBREL, PUBCOMP, UNSUBACK:
		body = append(body, byte(p.ID>>8), byte(p.ID))
	case SUBSCRIBE:
		body = append(body, byte(p.ID>>8), byte(p.ID))
		for i, f := range p.Filters {
			body = appendLP(body, f)
			body = append(body, p.QoSs[i])
		}
	case SUBACK:
		body = append(body, byte(p.ID>>8), byte(p.ID))
		body = append(body, p.Codes...)
	case UNSUBSCRIBE:
		body = append(body, byte(p.ID>>8), byte(p.ID))
		for _, f := range p.Filters {
			body = appendLP(body, f)
		}
	case PINGREQ, PINGRESP, DISCONNECT:
	}
	out := make([]byte, 0, len(body)+5)
	out = append(out, p.Type<<4|flags)
	out = AppendVarint(out, len(body))
	return append(out, body...)
}

// ErrIncomplete is returned by Decode when the input holds only a prefix of a
// packet.
var ErrIncomplete = errors.New("refcodec: incomplete packet")

// Malformed is the error type of a packet that violates MQTT 3.1.1.
type Malformed struct{ Why string }

func (m *Malformed) Error() string { return "refcodec: malformed packet: " + m.Why }

func bad(f string, a ...interface{}) error { return &Malformed{fmt.Sprintf(f, a...)} }

// FrameLen parses a fixed header: it returns the header length and the
// remaining length, ErrIncomplete if more bytes are needed, or a Malformed error
// (fifth length byte).
func FrameLen(b []byte) (hdr, remlen int, err error) {
	if len(b) < 2 {
		return 0, 0, ErrIncomplete
	}
	mult := 1
	for i := 1; ; i++ {
		if i > 4 {
			return 0, 0, bad("remaining length longer than 4 bytes")
		}
		if i >= len(b) {
			return 0, 0, ErrIncomplete
		}
		remlen += int(b[i]&0x7f) * mult
		mult *= 128
		if b[i]&0x80 == 0 {
			return i + 1, remlen, nil
		}
	}
}

type rd struct {
	b   []byte
	off int
}

func (r *rd) left() int { return len(r.b) - r.off }
func (r *rd) u8() (byte, error) {
	if r.left() < 1 {
		return 0, bad("truncated at byte %d", r.off)
	}
	v := r.b[r.off]
	r.off++
	return v, nil
}
func (r *rd) u16() (uint16, error) {
	if r.left() < 2 {
		return 0, bad("truncated at byte %d", r.off)
	}
	v := uint16(r.b[r.off])<<8 | uint16(r.b[r.off+1])
	r.off += 2
	return v, nil
}
func (r *rd) lp() ([]byte, error) {
	n, err := r.u16()
	if err != nil {
		return nil, err
	}
	if r.left() < int(n) {
		return nil, bad("length-prefixed field of %d bytes exceeds packet", n)
	}
	v := r.b[r.off : r.off+int(n)]
	r.off += int(n)
	return v, nil
}

// Options relax or tighten the decoder.
type Options struct {
	// CheckUTF8 makes ill-formed UTF-8 or U+0000 in string fields an error
	// (MQTT-1.5.3-1/2). The library does not check this, so the default is off.
	CheckUTF8 bool
	// AllowV31 accepts protocol name "MQIsdp" level 3 in CONNECT.
	AllowV31 bool
}

// Decode strictly parses exactly one packet from the start of b. It returns
// the packet, the number of bytes it occupies, and ErrIncomplete or a
// *Malformed error.
func Decode(b []byte) (*Packet, int, error) { return DecodeOpt(b, Options{AllowV31: true}) }

// DecodeOpt is Decode with options.
func DecodeOpt(b []byte, o Options) (*Packet, int, error) {
	hdr, remlen, err := FrameLen(b)
	if err != nil {
		return nil, 0, err
	}
	// minimal encoding of the remaining length
	if hdr > 2 && b[hdr-1] == 0 {
		return nil, 0, bad("non-minimal remaining length encoding")
	}
	total := hdr + remlen
	if len(b) < total {
		return nil, 0, ErrIncomplete
	}
	t := b[0] >> 4
	flags := b[0] & 0x0f
	p := &Packet{Type: t}
	r := &rd{b: b[hdr:total]}
	str := func(s []byte, what string) error {
		if o.CheckUTF8 {
			if !utf8.Valid(s) {
				return bad("%s is not valid UTF-8", what)
			}
			for _, c := range s {
				if c == 0 {
					return bad("%s contains U+0000", what)
				}
			}
		}
		return nil
	}
	if t == 0 || t == 15 {
		return nil, 0, bad("reserved packet type %d", t)
	}
	if t != PUBLISH && flags != FixedFlags(t) {
		return nil, 0, bad("%s with fixed header flags %d", TypeName(t), flags)
	}
	switch t {
	case CONNECT:
		name, err := r.lp()
		if err != nil {
			return nil, 0, err
		}
		p.ProtoName = string(name)
		if p.Level, err = r.u8(); err != nil {
			return nil, 0, err
		}
		if !(p.ProtoName == "MQTT" && p.Level == 4) && !(o.AllowV31 && p.ProtoName == "MQIsdp" && p.Level == 3) {
			// Still parse the rest if possible so callers can tell "unsupported
			// level" from garbage; report as a dedicated error.
			return p, total, &Malformed{"unsupported protocol name/level"}
		}
		cf, err := r.u8()
		if err != nil {
			return nil, 0, err
		}
		if cf&1 != 0 {
			return nil, 0, bad("CONNECT reserved flag set")
		}
		p.CleanSession = cf&2 != 0
		p.HasWill = cf&4 != 0
		p.WillQoS = (cf >> 3) & 3
		p.WillRetain = cf&0x20 != 0
		p.HasPass = cf&0x40 != 0
		p.HasUser = cf&0x80 != 0
		if p.WillQoS == 3 {
			return nil, 0, bad("will QoS 3")
		}
		if !p.HasWill && (p.WillQoS != 0 || p.WillRetain) {
			return nil, 0, bad("will QoS/retain without will flag")
		}
		if p.HasPass && !p.HasUser && p.Level == 4 {
			return nil, 0, bad("password flag without user name flag")
		}
		if p.KeepAlive, err = r.u16(); err != nil {
			return nil, 0, err
		}
		if p.ClientID, err = r.lp(); err != nil {
			return nil, 0, err
		}
		if err := str(p.ClientID, "client id"); err != nil {
			return nil, 0, err
		}
		if p.HasWill {
			if p.WillTopic, err = r.lp(); err != nil {
				return nil, 0, err
			}
			if err := str(p.WillTopic, "will topic"); err != nil {
				return nil, 0, err
			}
			if p.WillMsg, err = r.lp(); err != nil {
				return nil, 0, err
			}
		}
		if p.HasUser {
			if p.User, err = r.lp(); err != nil {
				return nil, 0, err
			}
			if err := str(p.User, "user name"); err != nil {
				return nil, 0, err
			}
		}
		if p.HasPass {
			if p.Pass, err = r.lp(); err != nil {
				return nil, 0, err
			}
		}
	case CONNACK:
		f, err := r.u8()
		if err != nil {
			return nil, 0, err
		}
		if f&0xfe != 0 {
			return nil, 0, bad("CONNACK reserved flags set")
		}
		p.SessionPresent = f&1 != 0
		if p.ReturnCode, err = r.u8(); err != nil {
			return nil, 0, err
		}
		if p.ReturnCode > 5 {
			return nil, 0, bad("CONNACK return code %d", p.ReturnCode)
		}
		if p.ReturnCode != 0 && p.SessionPresent {
			return nil, 0, bad("CONNACK session present with non-zero return code")
		}
	case PUBLISH:
		p.Dup = flags&8 != 0
		p.QoS = (flags >> 1) & 3
		p.Retain = flags&1 != 0
		if p.QoS == 3 {
			return nil, 0, bad("PUBLISH QoS 3")
		}
		if p.QoS == 0 && p.Dup {
			return nil, 0, bad("PUBLISH QoS 0 with DUP")
		}
		var err error
		if p.Topic, err = r.lp(); err != nil {
			return nil, 0, err
		}
		if len(p.Topic) == 0 {
			return nil, 0, bad("PUBLISH empty topic")
		}
		for _, c := range p.Topic {
			if c == '+' || c == '#' {
				return nil, 0, bad("PUBLISH topic with wildcard")
			}
		}
		if err := str(p.Topic, "topic"); err != nil {
			return nil, 0, err
		}
		if p.QoS > 0 {
			if p.ID, err = r.u16(); err != nil {
				return nil, 0, err
			}
			if p.ID == 0 {
				return nil, 0, bad("PUBLISH packet identifier 0")
			}
		}
		p.Payload = r.b[r.off:]
		r.off = len(r.b)
	case PUBACK, PUBREC, PUBREL, PUBCOMP, UNSUBACK:
		var err error
		if p.ID, err = r.u16(); err != nil {
			return nil, 0, err
		}
	case SUBSCRIBE:
		var err error
		if p.ID, err = r.u16(); err != nil {
			return nil, 0, err
		}
		if p.ID == 0 {
			return nil, 0, bad("SUBSCRIBE packet identifier 0")
		}
		for r.left() > 0 {
			f, err := r.lp()
			if err != nil {
				return nil, 0, err
			}
			q, err := r.u8()
			if err != nil {
				return nil, 0, err
			}
			if q > 2 {
				return nil, 0, bad("SUBSCRIBE requested QoS %d", q)
			}
			if len(f) == 0 {
				return nil, 0, bad("SUBSCRIBE empty filter")
			}
			p.Filters = append(p.Filters, f)
			p.QoSs = append(p.QoSs, q)
		}
		if len(p.Filters) == 0 {
			return nil, 0, bad("SUBSCRIBE without filters")
		}
	case SUBACK:
		var err error
		if p.ID, err = r.u16(); err != nil {
			return nil, 0, err
		}
		p.Codes = r.b[r.off:]
		r.off = len(r.b)
		if len(p.Codes) == 0 {
			return nil, 0, bad("SUBACK without return codes")
		}
		for _, c := range p.Codes {
			if c > 2 && c != 0x80 {
				return nil, 0, bad("SUBACK return code %#x", c)
			}
		}
	case UNSUBSCRIBE:
		var err error
		if p.ID, err = r.u16(); err != nil {
			return nil, 0, err
		}
		if p.ID == 0 {
			return nil, 0, bad("UNSUBSCRIBE packet identifier 0")
		}
		for r.left() > 0 {
			f, err := r.lp()
			if err != nil {
				return nil, 0, err
			}
			if len(f) == 0 {
				return nil, 0, bad("UNSUBSCRIBE empty filter")
			}
			p.Filters = append(p.Filters, f)
		}
		if len(p.Filters) == 0 {
			return nil, 0, bad("UNSUBSCRIBE without filters")
		}
	case PINGREQ, PINGRESP, DISCONNECT:
	}
	if r.left() != 0 {
		return nil, 0, bad("%s: %d surplus bytes inside remaining length", TypeName(t), r.left())
	}
	return p, total, nil
}

// Clone returns a deep copy (so a packet can outlive the buffer it was parsed from).
func (p *Packet) Clone() *Packet {
	q := *p
	cp := func(b []byte) []byte {
		if b == nil {
			return nil
		}
		return append([]byte{}, b...)
	}
	q.ClientID, q.WillTopic, q.WillMsg, q.User, q.Pass = cp(p.ClientID), cp(p.WillTopic), cp(p.WillMsg), cp(p.User), cp(p.Pass)
	q.Topic, q.Payload, q.QoSs, q.Codes = cp(p.Topic), cp(p.Payload), cp(p.QoSs), cp(p.Codes)
	if p.Filters != nil {
		q.Filters = make([][]byte, len(p.Filters))
		for i, f := range p.Filters {
			q.Filters[i] = cp(f)
		}
	}
	return &q
}
