// Package spec holds the small executable specifications the monitors compare
// the implementation against: MQTT 3.1.1 section 4.7 topic matching, and the
// self-identifying payload format used to make histories unambiguous.
package spec

import (
	"encoding/binary"
	"hash/crc32"
	"strings"
)

// Levels splits a topic name or filter into its levels (section 4.7.1.1: the
// separator splits; adjacent separators denote a zero-length level).
func Levels(s string) []string { return strings.Split(s, "/") }

// ValidFilter reports whether f is a valid topic filter (4.7.1, 4.7.3): at
// least one character, '#' only as the whole last level, '+' only as a whole
// level.
func ValidFilter(f string) bool {
	if len(f) == 0 || len(f) > 65535 {
		return false
	}
	ls := Levels(f)
	for i, l := range ls {
		if strings.ContainsAny(l, "#+") && len(l) != 1 {
			return false
		}
		if l == "#" && i != len(ls)-1 {
			return false
		}
	}
	return !strings.ContainsRune(f, 0)
}

// ValidName reports whether t is a valid topic name: non-empty, no wildcards.
func ValidName(t string) bool {
	return len(t) > 0 && len(t) <= 65535 && !strings.ContainsAny(t, "#+") && !strings.ContainsRune(t, 0)
}

// Match reports whether topic name t matches filter f per section 4.7
// (including 4.7.2: a filter starting with a wildcard does not match a name
// starting with '$').
func Match(f, t string) bool {
	if len(t) > 0 && t[0] == '$' && len(f) > 0 && (f[0] == '+' || f[0] == '#') {
		return false
	}
	fl, tl := Levels(f), Levels(t)
	for i, l := range fl {
		if l == "#" {
			// matches the parent level and any number of child levels
			return true // i <= len(tl) is guaranteed: i-1 levels matched so far
		}
		if i >= len(tl) {
			return false
		}
		if l != "+" && l != tl[i] {
			return false
		}
	}
	return len(fl) == len(tl)
}

// MatchHashParent is Match, written so that "a/#" matching "a" is explicit.
// (Kept for documentation: in Match, reaching '#' at index i requires the i
// previous levels to have matched, hence len(tl) >= i, which includes the parent
// case len(tl) == i.)

// ---------------------------------------------------------------------------
// Self-identifying payloads.

const payMagic = 0x56 // 'V'

// PayloadMin is the smallest payload MakePayload can build.
const PayloadMin = 1 + 8 + 4 + 4

// MakePayload builds a payload of exactly n bytes (n >= PayloadMin) that
// carries a unique id and a sequence number, a PRNG stream keyed by the id and
// a trailing CRC32 over everything before it.
func MakePayload(uid uint64, seq uint32, n int) []byte {
	if n < PayloadMin {
		n = PayloadMin
	}
	b := make([]byte, n)
	b[0] = payMagic
	binary.BigEndian.PutUint64(b[1:], uid)
	binary.BigEndian.PutUint32(b[9:], seq)
	x := uid*0x9E3779B97F4A7C15 + 0x1234567
	for i := 13; i < n-4; i++ {
		x ^= x << 13
		x ^= x >> 7
		x ^= x << 17
		b[i] = byte(x)
	}
	binary.BigEndian.PutUint32(b[n-4:], crc32.ChecksumIEEE(b[:n-4]))
	return b
}

// ParsePayload checks a payload produced by MakePayload: ok is false if the
// magic, CRC or the PRNG stream do not fit together (a torn or stitched
// payload).
func ParsePayload(b []byte) (uid uint64, seq uint32, ok bool) {
	if len(b) < PayloadMin || b[0] != payMagic {
		return 0, 0, false
	}
	n := len(b)
	if binary.BigEndian.Uint32(b[n-4:]) != crc32.ChecksumIEEE(b[:n-4]) {
		return 0, 0, false
	}
	uid = binary.BigEndian.Uint64(b[1:])
	seq = binary.BigEndian.Uint32(b[9:])
	return uid, seq, true
}

// Rand is a small deterministic PRNG (splitmix64) so that case lists are a
// pure function of the seed.
type Rand struct{ s uint64 }

// NewRand seeds a generator.
func NewRand(seed uint64) *Rand { return &Rand{s: seed*0x9E3779B97F4A7C15 + 0xD1B54A32D192ED03} }

// Uint64 returns the next value.
func (r *Rand) Uint64() uint64 {
	r.s += 0x9E3779B97F4A7C15
	z := r.s
	z = (z ^ (z >> 30)) * 0xBF58476D1CE4E5B9
	z = (z ^ (z >> 27)) * 0x94D049BB133111EB
	return z ^ (z >> 31)
}

// Intn returns a value in [0,n).
func (r *Rand) Intn(n int) int {
	if n <= 0 {
		return 0
	}
	return int(r.Uint64() % uint64(n))
}

// Bool returns a coin flip.
func (r *Rand) Bool() bool { return r.Uint64()&1 == 1 }

// Pick returns one of the strings.
func (r *Rand) Pick(s []string) string { return s[r.Intn(len(s))] }

// Bytes returns n pseudo-random bytes.
func (r *Rand) Bytes(n int) []byte {
	b := make([]byte, n)
	for i := range b {
		b[i] = byte(r.Uint64())
	}
	return b
}

// Mix derives a sub-seed.
func Mix(a, b uint64) uint64 {
	z := a ^ (b+0x9E3779B97F4A7C15)*0xBF58476D1CE4E5B9
	z = (z ^ (z >> 29)) * 0x94D049BB133111EB
	return z ^ (z >> 32)
}
