// vcheck is the driver: it builds the monitored workloads (package vrun) from
// /repo's current working tree with the verif hooks enabled, fans batches out
// to child processes, collects their JSON-lines reports, classifies violations
// against /verif/known_findings.json, writes /verif/evidence/<id>.json and
// replay files, prints VIOLATION / KNOWN-FINDING lines and sets the exit code.
//
//	vcheck run <property> [--tier quick|thorough]
//	vcheck replay <path>
//	vcheck build
package main

import (
	"bufio"
	"encoding/json"
	"fmt"
	"os"
	"os/exec"
	"path/filepath"
	"regexp"
	"sort"
	"strconv"
	"strings"
	"sync"
	"time"
)

const goTool = "go1.26.8"

// verifDir is the root of the verification tree: $VERIF_DIR, else the parent of
// the directory holding this executable (bin/vcheck), else /verif. A background
// run from a snapshot of /verif therefore works on the snapshot.
var verifDir, harnessDir = func() (string, string) {
	d := os.Getenv("VERIF_DIR")
	if d == "" {
		if exe, err := os.Executable(); err == nil {
			if p := filepath.Dir(filepath.Dir(exe)); fileExists(filepath.Join(p, "harness", "go.mod")) {
				d = p
			}
		}
	}
	if d == "" {
		d = "/verif"
	}
	return d, filepath.Join(d, "harness")
}()

func fileExists(p string) bool {
	_, err := os.Stat(p)
	return err == nil
}

type rec struct {
	K      string                 `json:"k"`
	Case   string                 `json:"case,omitempty"`
	Seed   uint64                 `json:"seed,omitempty"`
	Sig    string                 `json:"sig,omitempty"`
	Desc   string                 `json:"desc,omitempty"`
	Detail interface{}            `json:"detail,omitempty"`
	Stats  map[string]int64       `json:"stats,omitempty"`
	Keys   []string               `json:"keys,omitempty"`
	Params map[string]interface{} `json:"params,omitempty"`
}

type finding struct {
	ID       string `json:"id"`
	Property string `json:"property"`
	Status   string `json:"status"` // open | fixed
	Sig      string `json:"sig,omitempty"`
	SigRe    string `json:"sig_regex,omitempty"`
	What     string `json:"what"`
	Commit   string `json:"commit,omitempty"`
	Example  string `json:"example,omitempty"`
	re       *regexp.Regexp
}

type findingsFile struct {
	Findings []*finding `json:"findings"`
}

func loadFindings() []*finding {
	b, err := os.ReadFile(filepath.Join(verifDir, "known_findings.json"))
	if err != nil {
		return nil
	}
	var ff findingsFile
	if err := json.Unmarshal(b, &ff); err != nil {
		fatal("known_findings.json: %v", err)
	}
	for _, f := range ff.Findings {
		if f.SigRe != "" {
			f.re = regexp.MustCompile("^(?:" + f.SigRe + ")$")
		}
	}
	return ff.Findings
}

func fatal(f string, a ...interface{}) {
	fmt.Fprintf(os.Stderr, "vcheck: "+f+"\n", a...)
	os.Exit(2)
}

func goEnv() []string {
	env := os.Environ()
	set := func(k, v string) {
		for i, e := range env {
			if strings.HasPrefix(e, k+"=") {
				env[i] = k + "=" + v
				return
			}
		}
		env = append(env, k+"="+v)
	}
	set("GOFLAGS", "-mod=mod")
	set("GOPROXY", "off")
	set("GOSUMDB", "off")
	set("GOTOOLCHAIN", "local")
	set("CGO_ENABLED", "1")
	return env
}

// build compiles the vrun test binary from the current /repo tree.
func build(outPath string, race bool) error {
	args := []string{"test", "-c", "-tags", "verif", "-vet=off", "-o", outPath}
	if race {
		args = append(args, "-race")
	}
	// VERIF_REPO: build against another copy of the repository (background sweeps on a
	// snapshot while /repo itself is being worked on). The registered commands never set
	// it: they build from /repo's working tree through the replace directive in go.mod.
	if alt := os.Getenv("VERIF_REPO"); alt != "" && alt != "/repo" {
		mod, err := os.ReadFile(filepath.Join(harnessDir, "go.mod"))
		if err != nil {
			return err
		}
		altMod := filepath.Join(filepath.Dir(outPath), "go.mod")
		if err := os.WriteFile(altMod, []byte(strings.Replace(string(mod), "=> /repo", "=> "+alt, 1)), 0o644); err != nil {
			return err
		}
		if sum, err := os.ReadFile(filepath.Join(harnessDir, "go.sum")); err == nil {
			os.WriteFile(filepath.Join(filepath.Dir(outPath), "go.sum"), sum, 0o644)
		}
		args = append(args, "-modfile="+altMod)
	}
	args = append(args, "./vrun")
	cmd := exec.Command(goTool, args...)
	cmd.Dir = harnessDir
	cmd.Env = goEnv()
	b, err := cmd.CombinedOutput()
	if err != nil {
		return fmt.Errorf("build failed (race=%v): %v\n%s", race, err, b)
	}
	return nil
}

type job struct {
	spec    batchSpec
	index   int
	outFile string
	logFile string
	exit    int
	timed   bool
	dur     time.Duration
}

type result struct {
	prop       string
	tier       string
	seed       uint64
	stats      map[string]int64
	classes    map[string]struct{}
	samples    []interface{}
	viols      []vrec
	inconcl    []string
	jobs       []*job
	crashNotes []string
}

type vrec struct {
	rec
	job *job
}

func runJobs(workDir string, binPlain, binRace string, specs []batchSpec, tier string, seed uint64, onlyCase string) []*job {
	var jobs []*job
	for _, s := range specs {
		n := s.N
		if n <= 0 {
			n = 1
		}
		for i := 0; i < n; i++ {
			j := &job{spec: s, index: i}
			base := fmt.Sprintf("%s-%d", strings.TrimPrefix(s.Test, "Test"), i)
			if s.Race {
				base += "-race"
			}
			if s.Tag != "" {
				base += "-" + s.Tag
			}
			j.outFile = filepath.Join(workDir, base+".jsonl")
			j.logFile = filepath.Join(workDir, base+".log")
			jobs = append(jobs, j)
		}
	}
	par := 16
	if v := os.Getenv("VERIF_PAR"); v != "" {
		if n, err := strconv.Atoi(v); err == nil && n > 0 {
			par = n
		}
	}
	sem := make(chan struct{}, par)
	var wg sync.WaitGroup
	for _, j := range jobs {
		wg.Add(1)
		go func(j *job) {
			defer wg.Done()
			w := j.spec.Weight
			if w <= 0 {
				w = 1
			}
			if w > par {
				w = par
			}
			for k := 0; k < w; k++ {
				sem <- struct{}{}
			}
			defer func() {
				for k := 0; k < w; k++ {
					<-sem
				}
			}()
			bin := binPlain
			if j.spec.Race {
				bin = binRace
			}
			to := j.spec.Timeout
			if to == 0 {
				to = 10 * time.Minute
			}
			// VERIF_MAX_CHILD_SECONDS caps every child's watchdog (used when the seeded-change matrix is
			// re-run: a change that makes children hang should cost minutes, not the full watchdog). The
			// registered commands never set it.
			if v := os.Getenv("VERIF_MAX_CHILD_SECONDS"); v != "" {
				if n, err := strconv.Atoi(v); err == nil && n > 0 && time.Duration(n)*time.Second < to {
					to = time.Duration(n) * time.Second
				}
			}
			args := []string{"-s", "QUIT", "-k", "20", fmt.Sprintf("%d", int(to.Seconds())), bin,
				"-test.run", "^" + j.spec.Test + "$", "-test.timeout", "0", "-test.count", "1"}
			cmd := exec.Command("timeout", args...)
			cmd.Dir = workDir
			n := j.spec.N
			if n <= 0 {
				n = 1
			}
			env := append(os.Environ(),
				"VERIF_OUT="+j.outFile,
				"VERIF_TIER="+tier,
				"VERIF_SEED="+strconv.FormatUint(seed, 10),
				"VERIF_BATCH="+strconv.Itoa(j.index),
				"VERIF_NBATCH="+strconv.Itoa(n),
				"VERIF_WORK="+workDir,
			)
			if onlyCase != "" {
				env = append(env, "VERIF_CASE="+onlyCase)
			}
			if j.spec.Race {
				env = append(env, "GORACE=halt_on_error=0 log_path="+strings.TrimSuffix(j.logFile, ".log")+".race")
			}
			for k, v := range j.spec.Env {
				env = append(env, k+"="+v)
			}
			cmd.Env = env
			lf, err := os.Create(j.logFile)
			if err != nil {
				fatal("%v", err)
			}
			cmd.Stdout, cmd.Stderr = lf, lf
			t0 := time.Now()
			err = cmd.Run()
			j.dur = time.Since(t0)
			lf.Close()
			if err != nil {
				if ee, ok := err.(*exec.ExitError); ok {
					j.exit = ee.ExitCode()
				} else {
					j.exit = -1
				}
			}
			if j.exit == 124 || j.exit == 137 {
				j.timed = true
			}
		}(j)
	}
	wg.Wait()
	return jobs
}

func readRecs(path string) ([]rec, error) {
	f, err := os.Open(path)
	if err != nil {
		return nil, err
	}
	defer f.Close()
	var rs []rec
	sc := bufio.NewScanner(f)
	sc.Buffer(make([]byte, 1<<20), 256<<20)
	for sc.Scan() {
		var r rec
		if err := json.Unmarshal(sc.Bytes(), &r); err != nil {
			continue // a torn last line of a crashed child
		}
		rs = append(rs, r)
	}
	return rs, nil
}

var libFrame = regexp.MustCompile(`github\.com/mdzio/go-mqtt/([A-Za-z0-9_./()*]+)`)

// crashSignature extracts a signature from the log of a child that died.
func crashSignature(log string) (sig, head string) {
	lines := strings.Split(log, "\n")
	for i, l := range lines {
		if strings.HasPrefix(l, "panic: ") || strings.HasPrefix(l, "fatal error: ") {
			head = l
			class := "other"
			switch {
			case strings.Contains(l, "index out of range"):
				class = "index"
			case strings.Contains(l, "slice bounds out of range"):
				class = "slice"
			case strings.Contains(l, "nil pointer"):
				class = "nil"
			case strings.Contains(l, "all goroutines are asleep"):
				class = "deadlock"
			case strings.Contains(l, "out of memory") || strings.Contains(l, "cannot allocate"):
				class = "oom"
			case strings.Contains(l, "makeslice"):
				class = "makeslice"
			}
			site := "unknown"
			for _, m := range lines[i+1:] {
				if mm := libFrame.FindStringSubmatch(m); mm != nil && !strings.HasPrefix(strings.TrimSpace(m), "/") {
					site = strings.TrimSuffix(mm[1], "(")
					if k := strings.Index(site, "("); k > 0 && !strings.Contains(site[:k], ".") {
						site = site[:k]
					}
					break
				}
			}
			return "crash:" + site + ":" + class, head
		}
	}
	return "crash:unknown", ""
}

func collect(prop, tier string, seed uint64, jobs []*job) *result {
	res := &result{prop: prop, tier: tier, seed: seed, stats: map[string]int64{}, classes: map[string]struct{}{}, jobs: jobs}
	for _, j := range jobs {
		rs, _ := readRecs(j.outFile)
		done := false
		last := ""
		var lastParams map[string]interface{}
		var lastSeed uint64
		for _, r := range rs {
			switch r.K {
			case "begin":
				last, lastParams, lastSeed = r.Case, r.Params, r.Seed
			case "viol":
				res.viols = append(res.viols, vrec{r, j})
			case "inc":
				res.inconcl = append(res.inconcl, r.Case+": "+r.Desc)
			case "sample":
				if len(res.samples) < 12 {
					res.samples = append(res.samples, map[string]interface{}{"kind": r.Sig, "case": r.Case, "value": r.Detail})
				}
			case "stat":
				for k, v := range r.Stats {
					if strings.HasPrefix(k, "max:") {
						if v > res.stats[k] {
							res.stats[k] = v
						}
					} else {
						res.stats[k] += v
					}
				}
			case "classes":
				for _, k := range r.Keys {
					res.classes[k] = struct{}{}
				}
			case "done":
				done = true
			}
		}
		res.stats["children"]++
		if j.spec.Race {
			// race reports are parsed by the caller (C18); count files here
			ms, _ := filepath.Glob(strings.TrimSuffix(j.logFile, ".log") + ".race.*")
			res.stats["race_logs"] += int64(len(ms))
		}
		if !done {
			logb, _ := os.ReadFile(j.logFile)
			log := string(logb)
			if j.timed {
				res.inconcl = append(res.inconcl, fmt.Sprintf("child %s timed out after %s in case %q (goroutine dump in %s)", filepath.Base(j.outFile), j.dur.Round(time.Second), last, j.logFile))
				res.stats["children_timed_out"]++
				continue
			}
			sig, head := crashSignature(log)
			tail := log
			if len(tail) > 6000 {
				tail = tail[:6000]
			}
			res.viols = append(res.viols, vrec{rec{K: "viol", Case: last, Seed: lastSeed, Sig: sig, Desc: "child process died: " + head,
				Detail: map[string]interface{}{"exit": j.exit, "log_head": tail, "params": lastParams}}, j})
			res.stats["children_crashed"]++
		}
	}
	return res
}

func writeJSON(path string, v interface{}) error {
	b, err := json.MarshalIndent(v, "", " ")
	if err != nil {
		return err
	}
	os.MkdirAll(filepath.Dir(path), 0o755)
	return os.WriteFile(path, append(b, '\n'), 0o644)
}

var unsafeName = regexp.MustCompile(`[^A-Za-z0-9_.-]+`)

func main() {
	if len(os.Args) < 2 {
		fatal("usage: vcheck run <property> [--tier quick|thorough] | replay <path> | build")
	}
	switch os.Args[1] {
	case "build":
		os.MkdirAll(filepath.Join(verifDir, ".work", "warm"), 0o755)
		for _, race := range []bool{false, true} {
			if err := build(filepath.Join(verifDir, ".work", "warm", fmt.Sprintf("vrun-%v", race)), race); err != nil {
				fatal("%v", err)
			}
		}
		os.RemoveAll(filepath.Join(verifDir, ".work", "warm"))
		fmt.Println("vcheck: builds warm")
	case "run":
		if len(os.Args) < 3 {
			fatal("usage: vcheck run <property>")
		}
		prop := os.Args[2]
		tier := os.Getenv("VERIF_TIER")
		for i := 3; i < len(os.Args); i++ {
			if os.Args[i] == "--tier" && i+1 < len(os.Args) {
				tier = os.Args[i+1]
				i++
			}
		}
		if tier == "" {
			tier = "quick"
		}
		os.Exit(runCheck(prop, tier))
	case "replay":
		if len(os.Args) < 3 {
			fatal("usage: vcheck replay <path>")
		}
		os.Exit(replay(os.Args[2]))
	default:
		fatal("unknown command %q", os.Args[1])
	}
}

func seedFromEnv() uint64 {
	if v := os.Getenv("VERIF_SEED"); v != "" {
		if n, err := strconv.ParseUint(v, 10, 64); err == nil {
			return n
		}
		if n, err := strconv.ParseInt(v, 10, 64); err == nil {
			return uint64(n)
		}
	}
	return 1
}

func runCheck(prop, tier string) int {
	pl, ok := plans[prop]
	if !ok {
		fatal("no plan for property %q", prop)
	}
	t0 := time.Now()
	seed := seedFromEnv()
	workDir := filepath.Join(verifDir, ".work", fmt.Sprintf("%s-%s-%d", prop, tier, os.Getpid()))
	os.RemoveAll(workDir)
	if err := os.MkdirAll(workDir, 0o755); err != nil {
		fatal("%v", err)
	}
	specs := pl.Quick
	if tier == "thorough" && pl.Thorough != nil {
		specs = pl.Thorough
	}
	needRace, needPlain := false, false
	for _, s := range specs {
		if s.Race {
			needRace = true
		} else {
			needPlain = true
		}
	}
	binPlain, binRace := filepath.Join(workDir, "vrun"), filepath.Join(workDir, "vrun-race")
	var berr [2]error
	var wg sync.WaitGroup
	if needPlain {
		wg.Add(1)
		go func() { defer wg.Done(); berr[0] = build(binPlain, false) }()
	}
	if needRace {
		wg.Add(1)
		go func() { defer wg.Done(); berr[1] = build(binRace, true) }()
	}
	wg.Wait()
	for _, e := range berr {
		if e != nil {
			// A tree that does not build cannot be judged: not a violation.
			fmt.Printf("INCONCLUSIVE property=%s reason=%q\n", prop, e.Error())
			return 2
		}
	}
	jobs := runJobs(workDir, binPlain, binRace, specs, tier, seed, "")
	res := collect(prop, tier, seed, jobs)
	if pl.Post != nil {
		pl.Post(res, workDir)
	}
	code := report(pl, res, workDir, time.Since(t0))
	os.Remove(binPlain)
	os.Remove(binRace)
	if code == 0 && os.Getenv("VERIF_KEEP") == "" {
		os.RemoveAll(workDir) // kept only when a violation was reported (logs, goroutine dumps, race reports)
	}
	return code
}

func report(pl *plan, res *result, workDir string, wall time.Duration) int {
	findings := loadFindings()
	type group struct {
		sig   string
		first vrec
		count int64
	}
	groups := map[string]*group{}
	var order []string
	for _, v := range res.viols {
		g := groups[v.Sig]
		if g == nil {
			g = &group{sig: v.Sig, first: v}
			groups[v.Sig] = g
			order = append(order, v.Sig)
		}
	}
	for _, sig := range order {
		groups[sig].count = res.stats["viol:"+sig]
		if groups[sig].count == 0 {
			groups[sig].count = 1
		}
	}
	sort.Strings(order)
	known := map[string]*finding{}
	var unknown []*group
	for _, sig := range order {
		g := groups[sig]
		var hit *finding
		for _, f := range findings {
			if f.Status != "open" || f.Property != res.prop {
				continue
			}
			if (f.Sig != "" && f.Sig == sig) || (f.re != nil && f.re.MatchString(sig)) {
				hit = f
				break
			}
		}
		if hit != nil {
			known[hit.ID] = hit
		} else {
			unknown = append(unknown, g)
		}
	}
	ids := make([]string, 0, len(known))
	for id := range known {
		ids = append(ids, id)
	}
	sort.Strings(ids)
	for _, id := range ids {
		fmt.Printf("KNOWN-FINDING: property=%s %s [%s]\n", res.prop, known[id].What, id)
	}
	// evidence
	var evals int64
	for _, k := range pl.EvalStats {
		evals += res.stats[k]
	}
	if len(pl.EvalStats) == 0 {
		evals = res.stats["cases"]
	}
	cov := map[string]interface{}{
		"evaluations":         evals,
		"distinct_nontrivial": len(res.classes),
		"rule":                pl.Rule,
		"samples":             res.samples,
		"counters":            publicStats(res.stats),
		"child_processes":     res.stats["children"],
		"known_findings_seen": ids,
	}
	if pl.Exhaustive != nil {
		cov["exhaustive"] = pl.Exhaustive(res)
	}
	if len(res.inconcl) > 0 {
		n := res.inconcl
		if len(n) > 10 {
			n = n[:10]
		}
		cov["inconclusive_cases"] = n
	}
	classSample := make([]string, 0, 12)
	for k := range res.classes {
		classSample = append(classSample, k)
	}
	sort.Strings(classSample)
	if len(classSample) > 12 {
		step := len(classSample) / 12
		var s []string
		for i := 0; i < len(classSample) && len(s) < 12; i += step {
			s = append(s, classSample[i])
		}
		classSample = s
	}
	cov["class_key_examples"] = classSample
	ev := map[string]interface{}{
		"property_id": res.prop,
		"tier":        res.tier,
		"seed":        int64(res.seed),
		"level":       pl.Level,
		"coverage":    cov,
		"assumptions": pl.Assumptions,
		"wall_s":      wall.Seconds(),
		"violations":  len(unknown),
	}
	if err := writeJSON(filepath.Join(verifDir, "evidence", res.prop+".json"), ev); err != nil {
		fatal("%v", err)
	}
	fmt.Printf("vcheck: property=%s tier=%s seed=%d evaluations=%d distinct=%d children=%d wall=%.1fs\n", res.prop, res.tier, res.seed, evals, len(res.classes), res.stats["children"], wall.Seconds())
	if len(unknown) > 0 {
		os.MkdirAll(filepath.Join(verifDir, "replays"), 0o755)
		for i, g := range unknown {
			if i >= 10 {
				fmt.Printf("vcheck: %d further distinct violation signatures not listed\n", len(unknown)-i)
				break
			}
			name := unsafeName.ReplaceAllString(fmt.Sprintf("%s-%s-%s", res.prop, g.first.Case, g.sig), "_")
			if len(name) > 150 {
				name = name[:150]
			}
			path := filepath.Join(verifDir, "replays", name+".json")
			rp := map[string]interface{}{
				"property": res.prop, "tier": res.tier, "seed": res.seed, "test": g.first.job.spec.Test, "race": g.first.job.spec.Race,
				"env": g.first.job.spec.Env, "batch": g.first.job.index, "nbatch": g.first.job.spec.N, "case": g.first.Case, "case_seed": g.first.Seed,
				"sig": g.sig, "desc": g.first.Desc, "detail": g.first.Detail, "occurrences": g.count,
			}
			writeJSON(path, rp)
			fmt.Printf("vcheck: %s: %s (x%d)\n", g.sig, g.first.Desc, g.count)
			fmt.Printf("VIOLATION property=%s replay=%s\n", res.prop, path)
		}
		return 1
	}
	// inconclusive?
	var why []string
	if res.stats["children_timed_out"] > 0 {
		why = append(why, fmt.Sprintf("%d child processes hit the watchdog", res.stats["children_timed_out"]))
	}
	if len(res.inconcl) > int(pl.MaxInconclusive) {
		why = append(why, fmt.Sprintf("%d inconclusive cases (first: %s)", len(res.inconcl), res.inconcl[0]))
	}
	floors := pl.Floors
	if res.tier == "thorough" && pl.FloorsThorough != nil {
		floors = pl.FloorsThorough
	}
	fk := make([]string, 0, len(floors))
	for k := range floors {
		fk = append(fk, k)
	}
	sort.Strings(fk)
	for _, k := range fk {
		got := res.stats[k]
		if k == "classes" {
			got = int64(len(res.classes))
		}
		if got < floors[k] {
			why = append(why, fmt.Sprintf("coverage floor %s: %d < %d", k, got, floors[k]))
		}
	}
	if len(why) > 0 {
		fmt.Printf("INCONCLUSIVE property=%s reason=%q\n", res.prop, strings.Join(why, "; "))
		return 2
	}
	return 0
}

func publicStats(s map[string]int64) map[string]int64 {
	o := map[string]int64{}
	for k, v := range s {
		o[k] = v
	}
	return o
}

func replay(path string) int {
	b, err := os.ReadFile(path)
	if err != nil {
		fatal("%v", err)
	}
	var rp struct {
		Property string            `json:"property"`
		Tier     string            `json:"tier"`
		Seed     uint64            `json:"seed"`
		Test     string            `json:"test"`
		Race     bool              `json:"race"`
		Env      map[string]string `json:"env"`
		Batch    int               `json:"batch"`
		NBatch   int               `json:"nbatch"`
		Case     string            `json:"case"`
		Sig      string            `json:"sig"`
	}
	if err := json.Unmarshal(b, &rp); err != nil {
		fatal("%v", err)
	}
	workDir := filepath.Join(verifDir, ".work", fmt.Sprintf("replay-%d", os.Getpid()))
	os.MkdirAll(workDir, 0o755)
	defer os.RemoveAll(workDir)
	bin := filepath.Join(workDir, "vrun")
	if err := build(bin, rp.Race); err != nil {
		fmt.Printf("INCONCLUSIVE property=%s reason=%q\n", rp.Property, err.Error())
		return 2
	}
	spec := batchSpec{Test: rp.Test, Race: rp.Race, Env: rp.Env, N: 1}
	// run only the batch that owns the case
	os.Setenv("VERIF_SEED", strconv.FormatUint(rp.Seed, 10))
	jobs := runJobs(workDir, bin, bin, []batchSpec{spec}, rp.Tier, rp.Seed, rp.Case)
	res := collect(rp.Property, rp.Tier, rp.Seed, jobs)
	if pl, ok := plans[rp.Property]; ok && pl.Post != nil {
		pl.Post(res, workDir)
	}
	for _, v := range res.viols {
		if v.Sig == rp.Sig {
			fmt.Printf("vcheck: reproduced %s: %s\n", v.Sig, v.Desc)
			fmt.Printf("VIOLATION property=%s replay=%s\n", rp.Property, path)
			return 1
		}
	}
	for _, v := range res.viols {
		fmt.Printf("vcheck: different violation while replaying: %s: %s\n", v.Sig, v.Desc)
	}
	fmt.Printf("vcheck: %s not reproduced (case %s)\n", rp.Sig, rp.Case)
	return 0
}
