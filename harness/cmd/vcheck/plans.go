package main

import "time"

// batchSpec is one family of child processes.
type batchSpec struct {
	Test    string            // Test function in package vrun
	Race    bool              // use the -race build
	N       int               // number of batches (child processes)
	Env     map[string]string // extra environment
	Timeout time.Duration     // watchdog per child (generous; expiry = inconclusive)
	Weight  int               // CPU slots one child occupies (default 1)
	Tag     string            // distinguishes two specs of the same test
}

type plan struct {
	Level           string // evidence level
	Rule            string
	Quick           []batchSpec
	Thorough        []batchSpec
	EvalStats       []string         // counters summed into "evaluations"
	Floors          map[string]int64 // minimal coverage (quick); below = inconclusive
	FloorsThorough  map[string]int64
	MaxInconclusive int64
	Assumptions     []string
	Exhaustive      func(*result) bool
	Post            func(*result, string)
}

const m = time.Minute

var plans = map[string]*plan{
	"C03": {
		Level: "exploration",
		Rule: "field records of all 14 packet types are built through the public setters and compared byte for byte with an independent reference encoder, decoded back and re-encoded; " +
			"boundary cross product (string/payload lengths 0/1/127/128/16383/16384/65535, remaining length at every varint edge, 1..1000 filters, all flag combinations, ids 1/255/256/65535) plus seeded random records; " +
			"every accepted byte string (valid, valid+trailing bytes, bit-flipped) must re-encode verbatim, also after being decoded into a message object that already held another packet of its type, and a Clone() changed through its setters must leave the original alone; Encode always writes into a destination pre-filled with 0xa5; CONNECTs are built with the raw flag setters and through the value setters alone in two orders; >400000 consecutive automatic packet ids (a full 16-bit wrap per kind), and 2/4/8/16 goroutines drawing automatic ids at once through 160 wraps each (1280 wraps per quick run) (every packet Len() bytes, id non-zero, strict decode). " +
			"A case is non-trivial and distinct by its class key: packet type x flag combination x length class of every variable field x varint size (build/...), or type x input kind x exact/trailing (accepted/...).",
		Quick:          []batchSpec{{Test: "TestC03", N: 6, Timeout: 10 * m}, {Test: "TestC03CounterConc", N: 8, Timeout: 10 * m}},
		Thorough:       []batchSpec{{Test: "TestC03", N: 16, Timeout: 40 * m}, {Test: "TestC03CounterConc", N: 8, Timeout: 40 * m}},
		EvalStats:      []string{"c03.build", "c03.accept.tried", "c03.counter.encodes"},
		Floors:         map[string]int64{"c03.build": 15000, "c03.accept.accepted": 20000, "c03.counter.encodes": 400000, "c03.counterconc.wraps": 1200, "c03.reuse.checked": 15000, "c03.modify.checked": 8000, "c03.clone.checked": 3000, "c03.build.connect_setter_orders": 500, "classes": 300},
		FloorsThorough: map[string]int64{"c03.build": 900000, "c03.accept.accepted": 1000000, "c03.counter.encodes": 400000, "classes": 1000},
		Assumptions: []string{"the reference codec (harness/refcodec, written from the OASIS text) is correct",
			"'built through the message API' means the value setters (SetTopic, SetPayload, SetUsername, AddTopic, ...); the raw flag setters SetUsernameFlag/SetPasswordFlag/SetWillFlag are only used together with their value"},
	},
	"C04": {
		Level: "exploration",
		Rule: "every decoder is run under recover on inputs held in a slice with cap==len: every prefix, every single-bit flip (packets <= 64 bytes), every byte of the first 48 set to +-1/+2/0/0x7f/0x80/0xff, " +
			"fixed-header flag nibbles 0..15, remaining-length rewrites (off by +-1..3, zero, 5-byte, unterminated, 10-byte, non-minimal), trailing bytes, of valid packets of all 14 types (boundary corpus + random), " +
			"the same bytes through decoders of other types, and random strings of length 0..64 through all 14 decoders. Oracle: no panic, 0<=n<=len, fields inside the consumed bytes (address ranges), strict-valid packets accepted with the reference decoder's field values. " +
			"distinct = decoder type x mutation kind x accepted/rejected.",
		Quick:          []batchSpec{{Test: "TestC04", N: 8, Timeout: 10 * m}},
		Thorough:       []batchSpec{{Test: "TestC04", N: 16, Timeout: 60 * m}},
		EvalStats:      []string{"c04.decodes"},
		Floors:         map[string]int64{"c04.decodes": 1000000, "c04.accepted": 100000, "c04.rejected": 100000, "c04.strict_valid": 100000, "classes": 250},
		FloorsThorough: map[string]int64{"c04.decodes": 30000000, "classes": 300},
		Assumptions:    []string{"the reference decoder's notion of well-formed is MQTT 3.1.1 (plus MQIsdp/3 CONNECT); a CONNECT refused through a ConnackCode error value (identifier policy, protocol level) counts as parsed, not as rejected"},
	},
	"C06": {
		Level: "exploration",
		Rule: "exhaustive part: every filter of 1..4 levels over {a,b,empty,+,#} (779) is subscribed on a fresh topics.NewMemProvider() and queried with every name of 1..4 (thorough: 1..5) levels over {a,b,empty} x publish QoS 0..2; acceptance must equal filter validity, the answer must equal the MQTT 4.7 matcher with QoS min(pub,sub); Retain/Retained checked with the same relation (all plain names stored at once, and each name alone). " +
			"history part: random histories (20..200 ops) of Subscribe/re-Subscribe/Unsubscribe(held or not)/invalid filter/Retain/clear over 4 subscribers (pointers, string, int64), 30 filters, 28 names; the full observable state (84 Subscribers queries + 30 Retained queries) is compared with a map model after every operation. " +
			"concurrent histories: 2..8 goroutines, each with its own subscriber, run 400..1200 Subscribe/Unsubscribe calls over 10 overlapping filters while 1..3 readers query Subscribers; three untouched subscribers must appear in every lookup exactly as subscribed, every call must return what the goroutine's own model says, and at quiescence every query must equal the union of the models. " +
			"distinct = (filter shape, name shape, verdict) for the exhaustive part, (length, #subs, #retained) buckets for histories.",
		Quick:          []batchSpec{{Test: "TestC06", N: 16, Timeout: 15 * m}, {Test: "TestC06Conc", N: 4, Timeout: 15 * m}},
		Thorough:       []batchSpec{{Test: "TestC06", N: 32, Timeout: 60 * m}, {Test: "TestC06Conc", N: 8, Timeout: 60 * m}},
		EvalStats:      []string{"c06.ex.pairs", "c06.ex.retained_pairs", "c06.hist.ops"},
		Floors:         map[string]int64{"c06.ex.filters": 779, "c06.ex.pairs": 270000, "c06.ex.retained_pairs": 60000, "c06.hist.histories": 1500, "c06.hist.sub_queries": 5000000, "c06.conc.cases": 60, "c06.conc.lookups_during_changes": 5000, "classes": 300},
		FloorsThorough: map[string]int64{"c06.ex.filters": 779, "c06.ex.pairs": 800000, "c06.hist.histories": 40000, "classes": 300},
		Exhaustive:     func(r *result) bool { return false },
		Assumptions:    []string{"spec.Match (MQTT 3.1.1 section 4.7, 20 lines) is the specification; MaxQosAllowed is left at its default 2", "exhaustive only for the stated small scope; the history part is sampling"},
	},
	"C13": {
		Level: "exploration",
		Rule: "public API Wait/Ack/Acked of the five queues of sessions.Session (fed the ack kinds the service routes to each) against a FIFO list model. Exhaustive: every operation sequence of register(id)/ack(kind,id)/ack(unknown id)/collect up to depth 6 over ids {1,2} and depth 5 over {1,2,3} (thorough 7 and 6), each followed by a collect, on a fresh queue; the request object is mutated after Wait; returned entries are compared for order, state, byte-identical request/ack copies and completion token. " +
			"Random: 10000-op histories with hundreds in flight (growth beyond 16, wrapped ring, id reuse). PINGREQ path with 1..3 outstanding pings. Concurrent: register/ack/collect goroutines, history checked with porcupine. Growth under an acknowledgement in progress: queue full at capacity 16/32/64 with the ring head at 8..13 positions, one in-flight request (5 positions) is acknowledged with a message whose Encode dwells while another goroutine registers one more request (the queue grows and moves every entry); afterwards all requests are acknowledged and must come back in registration order, each with its own acknowledgement bytes and token. distinct = op-shape of every 97th exhaustive sequence, in-flight buckets, overlap buckets.",
		Quick:          []batchSpec{{Test: "TestC13", N: 10, Timeout: 15 * m}, {Test: "TestC13Conc", N: 4, Timeout: 10 * m}, {Test: "TestC13Grow", N: 4, Timeout: 10 * m}},
		Thorough:       []batchSpec{{Test: "TestC13", N: 16, Timeout: 60 * m}, {Test: "TestC13Conc", N: 8, Timeout: 30 * m}, {Test: "TestC13Grow", N: 4, Timeout: 10 * m}, {Test: "TestC13Conc", N: 4, Race: true, Timeout: 30 * m}},
		EvalStats:      []string{"c13.exh.sequences", "c13.rand.ops", "c13.conc.ops", "c13.ping.cases"},
		Floors:         map[string]int64{"c13.exh.scopes_complete": 10, "c13.exh.sequences": 700000, "c13.rand.ops": 300000, "c13.rand.grew_past_256": 5, "c13.conc.histories": 250, "c13.conc.overlapping_calls": 1, "c13.grow.cells": 780, "classes": 100},
		FloorsThorough: map[string]int64{"c13.exh.scopes_complete": 10, "c13.exh.sequences": 5000000, "c13.rand.ops": 10000000, "c13.conc.histories": 5000, "classes": 100},
		Exhaustive:     func(r *result) bool { return false },
		Assumptions:    []string{"'terminal' is PUBACK / PUBCOMP / PUBREL / SUBACK / UNSUBACK per queue as routed by service/process.go; an entry is releasable when its most recent acknowledgement is terminal", "Acked() is called from one goroutine at a time in these monitors, as one connection's service does"},
	},
	"C14": {
		Level: "exploration",
		Rule: "byte at absolute position i of the stream is f(seed,i); the consumer verifies every byte it obtains at its own committed position, so loss, duplication, reordering, corruption or an overwrite of peeked-but-uncommitted bytes is a mismatch at a known offset. " +
			"Sequential enumeration: ring sizes 16K/32K x 9 start offsets (around the wrap point and the 8 KiB block edge) x 8 chunk sizes (1,2,3,8191,8192,8193,size-1,size) x producer op (Write, WriteWait+WriteCommit, ReadFrom) x consumer op (Read, ReadPeek+ReadCommit, ReadWait+ReadCommit, WriteTo), three rounds each. " +
			"Close cells: 2 sizes x 9 (offset, fill) states x producer op parked for space (1, 300, 8192 bytes more than free) x Close x consumer {Read, ReadPeek, ReadWait, slice peeked before the close and held}: what is drained afterwards must verify at its position, never exceed what was committed, Len() <= size, the held slice unchanged. " +
			"Concurrent: one producer and one consumer goroutine, seeded op mixes, five chunk distributions, 3 ring sizes, GOMAXPROCS 2/4/16, with and without yields, also under the race detector; peeked slices re-verified after a yield before commit. distinct = cell coordinates / run configuration.",
		Quick:          []batchSpec{{Test: "TestC14Seq", N: 4, Timeout: 10 * m}, {Test: "TestC14Close", N: 4, Timeout: 10 * m}, {Test: "TestC14Conc", N: 8, Timeout: 10 * m}, {Test: "TestC14Conc", N: 6, Race: true, Timeout: 15 * m}},
		Thorough:       []batchSpec{{Test: "TestC14Seq", N: 4, Timeout: 10 * m}, {Test: "TestC14Close", N: 4, Timeout: 10 * m}, {Test: "TestC14Conc", N: 16, Timeout: 40 * m}, {Test: "TestC14Conc", N: 16, Race: true, Timeout: 60 * m}},
		EvalStats:      []string{"c14.seq.cells", "c14.conc.runs"},
		Floors:         map[string]int64{"c14.seq.cells": 1400, "c14.close.cells": 400, "c14.conc.runs": 80, "c14.conc.bytes": 200 << 20, "c14.conc.wraps": 5000, "c14.conc.producer_blocks": 1000, "c14.conc.consumer_blocks": 100, "c14.conc.peeks": 100000, "classes": 300},
		FloorsThorough: map[string]int64{"c14.seq.cells": 1400, "c14.close.cells": 400, "c14.conc.runs": 700, "c14.conc.bytes": 4 << 30, "classes": 300},
		Assumptions:    []string{"one producer goroutine and one consumer goroutine (the ring is SPSC by design)", "chunk sizes respect 'whose sum fits the buffer': a consumer never waits for more than size minus the producer's largest chunk"},
	},
	"C15": {
		Level: "fault_enumeration",
		Rule: "matrix: buffer state {empty, partial, full, wrapped-partial, wrapped-full, nearly-full} x operation {Read, ReadPeek, ReadWait, WriteTo, Write, WriteWait, WriteCommit, ReadFrom} x event {peer commits exactly enough, one byte short then the rest, Close once, Close twice, Close from two goroutines, Close also from the blocked side} x timing {after the call is parked in Cond.Wait; during a 5 ms yield between the call's last check and its Wait (lock held, delay only); the call held before taking the lock until the event has completed entirely}. " +
			"Mutual-wait cells: ring of 16/32 KiB exactly full at 5 offsets, the consumer commits 1..8191 bytes and waits (ReadWait) for a unit of size-8191..size bytes whose rest the socket pump (ReadFrom) still has to read: with room free and data pending ReadWait must return (300 cells). A call that could only wait and was ended by Close must have returned io.EOF. Then Close and a later-calls probe of every exported method, one at a time. Verdict by goroutine state: a call is stuck when all scenario goroutines are parked on sync primitives with identical stacks in two snapshots and the driver has no action left. distinct = applicable cells.",
		Quick:          []batchSpec{{Test: "TestC15", N: 16, Timeout: 15 * m}, {Test: "TestC15Mutual", N: 4, Timeout: 15 * m}},
		Thorough:       []batchSpec{{Test: "TestC15", N: 32, Timeout: 60 * m}, {Test: "TestC15Mutual", N: 4, Timeout: 15 * m}},
		EvalStats:      []string{"c15.cells"},
		Floors:         map[string]int64{"c15.cells": 550, "c15.cells_blocking": 450, "c15.mutual_cells": 300, "classes": 550},
		FloorsThorough: map[string]int64{"c15.cells": 3300, "classes": 550},
		Exhaustive:     func(r *result) bool { return r.stats["c15.cells"] >= 583 && r.stats["c15.mutual_cells"] >= 300 },
		Assumptions:    []string{"'blocks forever' is decided on goroutine state in a closed scenario (DESIGN 2.8), not on a deadline; watchdog expiry is inconclusive", "yield points inside critical sections only delay"},
	},
	"C01": {
		Level: "exploration",
		Rule: "sequential histories (15..40 steps) of connect / SUBSCRIBE (1..3 filters) / UNSUBSCRIBE / PUBLISH (client QoS 0..2, Server.Publish) / DISCONNECT / abrupt close over 3..6 raw clients and 2 in-process subscribers against a real broker over net.Pipe inside a testing/synctest bubble; synctest.Wait() after every step is true quiescence, so the set of packets each client holds is final. A 15-line model (client -> filter -> granted QoS, MQTT 4.7 matcher) predicts for every publish, per subscriber, between 1 and k copies (k matching subscriptions) with QoS multiset min(pub, granted), none for everybody else; topic, CRC-carrying payload and unique id are checked. " +
			"Filters/names over {a, b, a 50-char literal, a UTF-8 literal, empty level (marked subset), +, #} with 1..4 levels; payload sizes 17..4000, 8 KiB block edge and BufferSize-8192 limit for BufferSize 16K/64K/default. Concurrent (real time): publishers stream numbered QoS 1 messages while subscribers subscribe/unsubscribe; every operation is logged at the client boundary with call/return stamps from one counter and the history of each (subscriber, topic) pair is checked with porcupine against the one-bit model 'subscribed' (a publish accepted after the SUBACK must be delivered, one accepted after the UNSUBACK must not); and under the C17 stress workload every stable subscriber must receive every acknowledged publish exactly once. Backpressure (synctest): a subscriber stops reading while the publisher pipelines more than three ring sizes of messages (its processor parks on the subscriber's full ring, its own inbound ring fills and laps), then resumes: every subscriber must hold every message once, in order, CRC-intact. distinct = (filter shape, topic shape, verdict, pub QoS, granted QoS) + run configurations.",
		Quick:          []batchSpec{{Test: "TestC01Seq", N: 8, Timeout: 15 * m}, {Test: "TestC01Conc", N: 4, Timeout: 15 * m}, {Test: "TestC01Stress", N: 4, Timeout: 15 * m}, {Test: "TestC01Backpressure", N: 4, Timeout: 15 * m}},
		Thorough:       []batchSpec{{Test: "TestC01Seq", N: 16, Timeout: 60 * m}, {Test: "TestC01Conc", N: 16, Timeout: 60 * m}, {Test: "TestC01Conc", N: 4, Race: true, Timeout: 60 * m}, {Test: "TestC01Stress", N: 8, Timeout: 60 * m}, {Test: "TestC01Backpressure", N: 8, Timeout: 60 * m}},
		EvalStats:      []string{"c01.seq.publishes", "c01.conc.ops", "c01s.published"},
		Floors:         map[string]int64{"c01.seq.histories": 1300, "c01.seq.publishes": 12000, "c01.seq.wildcard_must": 3000, "c01.seq.wildcard_mustnot": 20000, "c01.conc.histories": 190, "c01.conc.ops": 15000, "c01s.runs": 22, "c01s.exactly_once_streams": 2000, "c01.bp.runs": 110, "classes": 400},
		FloorsThorough: map[string]int64{"c01.seq.histories": 30000, "c01.seq.publishes": 300000, "classes": 600},
		Assumptions:    []string{"synctest.Wait() returns only when every goroutine of broker and harness is durably blocked, i.e. at quiescence", "raw clients acknowledge promptly; takeover of a live client id is not exercised"},
	},
	"C07": {
		Level: "exploration",
		Rule: "a raw client sends generated SUBSCRIBE packets (1..40 filters: valid / invalid ('#' not last, wildcard inside a level, empty) / '$'-prefixed / repeated, requested QoS 0..2 and 3/0x7f/0x80 built with the reference encoder) and UNSUBSCRIBE packets (1..40 filters held / not held / repeated) with topics.MaxQosAllowed in {0,1,2}; at quiescence (synctest) either the connection is closed or exactly one SUBACK/UNSUBACK with the request's id arrived, one code per filter in order: min(requested, max) for an accepted filter, 0x80 for a rejected one. " +
			"Afterwards a second client publishes probes (names derived from every listed filter incl. the parent level of '#') and the deliveries must equal the model of granted filters. Concurrent variant: the porcupine-checked subscribe/unsubscribe/publish histories of C01 (a publish whose call follows the SUBACK's return must be delivered, one whose call follows the UNSUBACK's return must not). Simultaneous requests: 4..13 connections SUBSCRIBE at the same moment to filters on one tree node (same filter, '+' and '#' siblings), 20..39 rounds per case; every SUBACK must arrive, a QoS 1 publication accepted afterwards must reach each of them exactly once before its next PINGRESP; then all UNSUBSCRIBE at the same moment and the next publication must reach none. Resume (real time): a session of 2000..40000 filters is resumed and an UNSUBSCRIBE for 50..199 stored filters plus a SUBSCRIBE raising 20..79 others to QoS 1 are written right behind the CONNECT; after both acknowledgements publications must reach none of the former and all of the latter at QoS 1. distinct = (filter kind, requested QoS, server max, request size bucket).",
		Quick:          []batchSpec{{Test: "TestC07", N: 8, Timeout: 15 * m}, {Test: "TestC01Conc", N: 2, Timeout: 15 * m}, {Test: "TestC07Conc", N: 4, Timeout: 15 * m}, {Test: "TestC07Resume", N: 4, Timeout: 15 * m}},
		Thorough:       []batchSpec{{Test: "TestC07", N: 16, Timeout: 60 * m}, {Test: "TestC01Conc", N: 8, Timeout: 60 * m}, {Test: "TestC07Conc", N: 8, Timeout: 60 * m}, {Test: "TestC07Resume", N: 12, Timeout: 60 * m}},
		EvalStats:      []string{"c07.subscribes", "c07.unsubscribes"},
		Floors:         map[string]int64{"c07.scenarios": 2000, "c07.subscribes": 5000, "c07.unsubscribes": 5000, "c07.probes": 100000, "c07.conc_cases": 14, "c07.conc_rounds": 300, "c07.resume_cases": 10, "classes": 150},
		FloorsThorough: map[string]int64{"c07.scenarios": 70000, "classes": 150},
		Assumptions:    []string{"quiescence by synctest.Wait()", "a '$'-prefixed filter may be granted or refused (0x80)"},
	},
	"C08": {
		Level: "exploration",
		Rule: "sequential histories (20..50 steps, synctest) over 10 topics: retained / plain / empty-payload (clearing) publishes at QoS 0..2 by 3..5 raw clients and Server.Publish, new subscriptions (16 literal and wildcard filters, 1..3 per request, granted 0..2) by raw clients and Server.Subscribe, unsubscribes, and filler traffic of more than two ring sizes. Model: topic -> (uid, QoS) last-writer-wins, cleared by an empty retained payload. " +
			"At every new subscription the PUBLISH packets after the SUBACK must be exactly one per (filter, matching stored topic), retain=1, QoS min(stored, granted), CRC-correct payload of the model's current uid; live forwards are checked with the C01 oracle and must carry retain=0. Concurrent (real time): one writer per topic publishes retained versions 1,2,3.. of different lengths while 2..4 subscribers subscribe/unsubscribe; every retained delivery must pass its CRC, versions must not go backwards per subscriber, and the per-topic history (write = retained publish, read = new subscription) must be linearizable w.r.t. a register model (porcupine). Seam (real time): one writer (network connection or Server.Publish) publishes retained versions 1..150-400 while 2..5 subscribers subscribe, stay up to 1.5 ms and unsubscribe; within one subscription no live forward may repeat, and having been handed retained version k every version from k+1 to the newest one received must have arrived as a live forward (no update lost between the retained copy and the forwards). distinct = (filter shape, granted QoS, number of stored topics) + run configurations.",
		Quick:          []batchSpec{{Test: "TestC08", N: 8, Timeout: 15 * m}, {Test: "TestC08Conc", N: 4, Timeout: 15 * m}, {Test: "TestC08Seam", N: 4, Timeout: 15 * m}},
		Thorough:       []batchSpec{{Test: "TestC08", N: 16, Timeout: 60 * m}, {Test: "TestC08Conc", N: 16, Timeout: 60 * m}, {Test: "TestC08Seam", N: 8, Timeout: 60 * m}, {Test: "TestC08Conc", N: 4, Race: true, Timeout: 60 * m}},
		EvalStats:      []string{"c08.subscriptions", "c08.retained_publishes", "c08.conc.ops"},
		Floors:         map[string]int64{"c08.histories": 1100, "c08.subscriptions": 10000, "c08.retained_deliveries": 15000, "c08.clears": 3000, "c08.filler_rounds": 3000, "c08.conc.histories": 110, "c08.conc.retained_deliveries": 20000, "c08.seam.cases": 44, "c08.seam.retained_then_forwards": 3000, "classes": 150},
		FloorsThorough: map[string]int64{"c08.histories": 35000, "classes": 200},
		Assumptions:    []string{"quiescence by synctest.Wait()", "a retained publish has certainly taken effect when the publisher's next packet is acknowledged (PUBACK is written before the store is updated)"},
	},
	"C09": {
		Level:          "fault_enumeration",
		Rule:           "session histories of 1..4 connections of one client id (CleanSession toggled, will present/absent, will QoS 0..2, retain, 3 topics, payload 17/200/3000 bytes or empty, fresh unique id each time) crossed with endings {DISCONNECT, abrupt close, keep-alive expiry in virtual time, reserved packet type, SUBSCRIBE with bad flags, injected read error (chaos conn at byte offsets 0..5 after CONNECT), packet larger than the ring}; a witness subscribed to will/# at QoS 2 must receive the will of the CONNECT of the connection that ended exactly once for every non-DISCONNECT ending (topic, QoS, payload, retain=0 on the live forward) and nothing after DISCONNECT; retained wills are checked with fresh subscribers. Also: endings where the transport hands out the final bytes together with io.EOF; every third history under an authenticator with refused CONNECTs that name the victim's client id and carry another will; overlapping connections (the client reconnects with the same id before the broker noticed the older connection is gone: when the older one ends its own will is due, the newer one's only at its own end; 4 endings x 4 endings x CleanSession x will presence). distinct = (ending, clean, will present, QoS, retain, empty payload, resumed).",
		Quick:          []batchSpec{{Test: "TestC09", N: 8, Timeout: 15 * m}, {Test: "TestC09Overlap", N: 4, Timeout: 15 * m}},
		Thorough:       []batchSpec{{Test: "TestC09", N: 16, Timeout: 60 * m}, {Test: "TestC09Overlap", N: 8, Timeout: 60 * m}},
		EvalStats:      []string{"c09.connections"},
		Floors:         map[string]int64{"c09.histories": 1800, "c09.connections": 4000, "c09.overlap_cases": 380, "c09.refused_connects_with_victim_id": 100, "classes": 250},
		FloorsThorough: map[string]int64{"c09.histories": 55000, "classes": 300},
		Assumptions:    []string{"quiescence by synctest.Wait(); keep-alive expiry happens in virtual time", "server-initiated Close is executed at the end of every history but not asserted (the statement does not cover it)"},
	},
	"C10": {
		Level:          "exploration",
		Rule:           "sequential histories (12..36 steps, synctest) over client ids {s, s1, t} (one a prefix of another) of CONNECT(CleanSession 0/1) / SUBSCRIBE / UNSUBSCRIBE / DISCONNECT / abrupt close, at most one live connection per id. Model: id -> subscriptions kept by CleanSession=0 connections. CONNACK SessionPresent must equal the model; after the new connection answered one PINGREQ, 7 probe publishes from another client must reach exactly the model's filters at the stored granted QoS (C01 oracle) on every live connection, after every connect and every end. TestC10Overlap: two connections with one client id for a while (older/newer CleanSession 0/1 x state kept before or not x endings): SessionPresent and the active subscriptions of both, of the survivor and of a later CleanSession=0 connection against a model in which CleanSession=1 discards kept state at once and keeps none. Histories also contain resume attempts over a transport whose CONNACK write fails. TestC10Big (real time): sessions of 1000..40000 filters are resumed and 64 publications are written the instant the PINGRESP to the resumed connection's first request has been read; each must arrive exactly once at min(1, granted QoS). distinct = (clean, state kept, number of restored subscriptions).",
		Quick:          []batchSpec{{Test: "TestC10", N: 8, Timeout: 15 * m}, {Test: "TestC10Big", N: 4, Timeout: 15 * m}, {Test: "TestC10Overlap", N: 4, Timeout: 15 * m}},
		Thorough:       []batchSpec{{Test: "TestC10", N: 16, Timeout: 60 * m}, {Test: "TestC10Big", N: 12, Timeout: 60 * m}, {Test: "TestC10Overlap", N: 8, Timeout: 60 * m}},
		EvalStats:      []string{"c10.connects"},
		Floors:         map[string]int64{"c10.histories": 1500, "c10.connects": 8000, "c10.probes": 100000, "c10.big_sessions": 10, "c10.overlap_cases": 150, "c10.failed_resume_attempts": 100, "classes": 8},
		FloorsThorough: map[string]int64{"c10.histories": 45000, "classes": 8},
		Assumptions:    []string{"quiescence by synctest.Wait()", "a second connection with a live client id is generated only in TestC10Overlap (the broker does not disconnect the older connection; the model does not demand it)"},
	},
	"C11": {
		Level: "exploration",
		Rule: "first packets: every non-CONNECT packet type, reserved types, garbage; CONNECT product of protocol name/level (8 variants) x client id (ok, empty, 33 and 200 chars, non-printable) x CleanSession x credentials (5 variants) x will, plus malformed CONNECTs (reserved flag, will-flag inconsistencies, password without user, bodies cut at 12 offsets, wrong remaining lengths, 5-byte length); each followed by SUBSCRIBE '#', a retained and a plain PUBLISH; under authenticators mockSuccess, mockFailure and a harness authenticator keyed on user name. " +
			"Oracle at quiescence (synctest): CONNACK 0 iff acceptable; otherwise closed, preceded at most by one CONNACK whose code is among the applicable refusal reasons {1,2,4}; a witness on '#', a fresh subscriber (retained store) and a follow-up CleanSession=0 CONNECT (sessions) must show no effect. No CONNECT / partial CONNECT + silence is closed at the connect timeout in virtual time. distinct = (authenticator, first-packet kind, answer).",
		Quick:       []batchSpec{{Test: "TestC11", N: 8, Timeout: 15 * m}},
		Thorough:    []batchSpec{{Test: "TestC11", N: 16, Timeout: 30 * m}},
		EvalStats:   []string{"c11.first_packets", "c11.silence_cases"},
		Floors:      map[string]int64{"c11.first_packets": 1500, "c11.silence_cases": 4, "classes": 100},
		Assumptions: []string{"client identifiers longer than 23 bytes or non-printable may be accepted or refused with code 2 (server policy)", "a malformed first packet may be closed without CONNACK"},
	},
	"C19": {
		Level:       "exploration",
		Rule:        "K in {1,2,3,5,10,60} s x pattern {silent from CONNACK; 8 intervals of traffic then silent; PINGREQ every 0.25K/0.5K/0.9K/0.99K for 50 intervals; PUBLISH-only at those intervals; a packet trickled one byte per 0.9K (recorded, not asserted)} in a synctest bubble over net.Pipe, so time is virtual and exact. Every PINGREQ must be answered, an active client must never be dropped, a silent one must be dropped later than K and no later than 2K after its last byte, and a witness must then receive its will exactly once. Plus the patterns silent-mid-packet, silent-after-header-byte, large-then-ping (a 3 KB packet and one almost as large as the 16 KiB ring in one write, then pings every 0.25 K / 0.9 K, then silence), silent-receiving (the silent client holds a subscription and another client publishes to it every 0.25 K / 0.5 K / 0.9 K: what the broker writes to a client is not activity of that client) and uneven pacing (a gap of 0.05..0.5 K followed by one of 0.8..0.99 K, 50 intervals). Window cells (real time, K = 1 s): a goroutine of the silent connection (processor or sender at its check-to-Wait step, or a publisher waiting for space in its outgoing ring) is held by the yield hook, under the mutex it holds anyway, until the keep-alive expiry is closing that very ring; the teardown must still finish (stop event, else goroutine-state verdict) and the will must arrive. distinct = (K, pattern, interval).",
		Quick:       []batchSpec{{Test: "TestC19", N: 4, Timeout: 10 * m}, {Test: "TestC19Window", N: 3, Timeout: 10 * m}},
		Thorough:    []batchSpec{{Test: "TestC19", N: 4, Timeout: 10 * m}, {Test: "TestC19Window", N: 6, Timeout: 20 * m}},
		EvalStats:   []string{"c19.runs"},
		Floors:      map[string]int64{"c19.runs": 156, "c19.pings_answered": 1000, "c19.window_cells": 5, "c19.fed_while_silent": 30, "classes": 156},
		Exhaustive:  func(r *result) bool { return false },
		Assumptions: []string{"virtual time (testing/synctest) changes when timers fire, not what the code does when they fire"},
	},
	"C02": {
		Level:          "exploration",
		Rule:           "broker role: scripts over packet ids mixing QoS1 PUBLISH, QoS2 PUBLISH, DUP QoS2 PUBLISH carrying different bytes, PUBREL, repeated PUBREL and filler of more than two ring sizes; exhaustive up to length 5 over a 6-token alphabet with 2 ids (thorough 7), sampled longer scripts over 3..4 ids, every third with one or two CleanSession=0 reconnects of the sender, every tenth a burst (17..48 QoS2 exchanges open at once after 0..5 completed ones, retransmissions in between, released oldest first with repeated PUBRELs, identifiers then reused); client role: the same scripts sent by a scripted TCP peer to a library Client, OnPublish invocations = hand-overs; pipelined bursts (broker role): 2..10 exchanges opened, then one burst of more than three ring sizes (QoS 1 publishes of 40..8100 bytes, the PUBRELs, repeated PUBRELs, DUP retransmissions) written while the subscriber is not reading, so that a hand-over parks and the sender's inbound ring runs full, then the subscriber resumes: exactly one acknowledgement per packet in packet order, hand-overs in packet order, CRC intact; after every packet, at synctest quiescence, the publisher's wire must show exactly the one matching ack and the QoS2 subscriber's wire exactly the due hand-overs: none before PUBREL, one at PUBREL (when first PUBRELs come in exchange order as MQTT-4.6.0 demands of a sender; otherwise no later than the PUBREL of all older exchanges), never again, always the first PUBLISH's content. distinct = script shapes.",
		Quick:          []batchSpec{{Test: "TestC02Broker", N: 8, Timeout: 15 * m}, {Test: "TestC02Client", N: 4, Timeout: 15 * m}, {Test: "TestC02Pipelined", N: 4, Timeout: 15 * m}},
		Thorough:       []batchSpec{{Test: "TestC02Broker", N: 16, Timeout: 60 * m}, {Test: "TestC02Client", N: 8, Timeout: 60 * m}, {Test: "TestC02Pipelined", N: 8, Timeout: 60 * m}},
		EvalStats:      []string{"c02.scripts"},
		Floors:         map[string]int64{"c02.scripts": 8000, "c02.steps": 50000, "c02.client_scripts": 380, "c02.burst_scripts": 250, "c02.client_burst_scripts": 35, "c02.pipelined_bursts": 110, "c02.pipelined_stalled": 100, "classes": 3500},
		FloorsThorough: map[string]int64{"c02.scripts": 300000, "classes": 100000},
		Assumptions:    []string{"quiescence by synctest.Wait()", "client role: library Client subscribed to c02/# against a scripted TCP peer, hand-over = OnPublishFunc invocations, quiescence = PINGREQ/PINGRESP barrier"},
	},
	"C12": {
		Level: "exploration",
		Rule: "client API vs scripted TCP peer on 127.0.0.1: batches of 4..15 Publish(QoS 0/1/2)/Subscribe/Unsubscribe/Ping calls with completion callbacks stamped from one global counter; the peer stamps every ack before writing it and acknowledges in orders {FIFO, reversed, random, delayed, PUBCOMP long after PUBREC, random with duplicated acks and acks for unused ids}; a peer PINGREQ->PINGRESP round trip is the barrier. Oracle: every callback fires exactly once, not before its terminal ack was sent, and has fired at the barrier once its ack and those of all earlier requests of the same kind were sent; QoS 0 completes before Publish returns; #PUBREL(id) = #PUBREC(id); in-flight identifiers non-zero and distinct. " +
			"In every third script the yield hook parks the sending call between write and registration, the peer's ack is sent and the processor's proc.handled event awaited before the call is released (the 'ack processed before registered' schedule, forced). Broker-to-subscriber (synctest): 2..4 publishers reuse identifiers 1,2 at QoS 1/2 towards a subscriber that withholds acks; unacknowledged inbound PUBLISH identifiers must be non-zero and pairwise distinct, PUBREC answered by PUBREL with the same id. Bursts: after 1..11 completed requests of one kind, 17..46 requests of that kind are outstanding at once (the ack queue grows while wrapped) and are acknowledged in order with a barrier after each. Concurrent issuers: 2..4 library Clients in one process, each used by 4..8 goroutines issuing 150..400 id-less mixed requests each from a common start signal while the peers withhold all acknowledgements; the identifiers in flight per connection (600..3200) must be non-zero and pairwise distinct, then everything is acknowledged in a seeded order and every completion must have fired exactly once, not before its acknowledgement. Wrap-around: while one request of client A is unacknowledged another Client of the process issues id-less requests (about 65534) until the numbering it draws from stands just before A's identifier; A's next request must carry a different identifier and both must complete. Acknowledge-then-close: the peer writes the acknowledgements of 3..32 outstanding requests in one write and closes at once while the first completion dwells; at the client's teardown-finished event every completion must have fired once. distinct = (ack order, forced, request kinds, batch size) and b2s configurations.",
		Quick:          []batchSpec{{Test: "TestC12Client", N: 8, Timeout: 15 * m}, {Test: "TestC12Broker", N: 4, Timeout: 10 * m}, {Test: "TestC12Burst", N: 4, Timeout: 10 * m}, {Test: "TestC12Concurrent", N: 4, Timeout: 15 * m}, {Test: "TestC12Wrap", N: 4, Timeout: 15 * m}, {Test: "TestC12AckThenClose", N: 2, Timeout: 10 * m}},
		Thorough:       []batchSpec{{Test: "TestC12Client", N: 16, Timeout: 60 * m}, {Test: "TestC12Broker", N: 8, Timeout: 30 * m}, {Test: "TestC12Burst", N: 8, Timeout: 30 * m}, {Test: "TestC12Concurrent", N: 8, Timeout: 60 * m}, {Test: "TestC12Wrap", N: 8, Timeout: 60 * m}, {Test: "TestC12AckThenClose", N: 4, Timeout: 30 * m}, {Test: "TestC12Client", N: 8, Race: true, Timeout: 60 * m}},
		EvalStats:      []string{"c12.scripts", "c12.b2s_scenarios"},
		Floors:         map[string]int64{"c12.scripts": 340, "c12.forced_interleavings": 60, "c12.requests": 2500, "c12.b2s_scenarios": 190, "c12.b2s_inflight_checked": 300, "c12.bursts": 44, "c12.conc_cases": 20, "c12.wrap_cases": 4, "c12.ack_then_close_cases": 55, "classes": 60},
		FloorsThorough: map[string]int64{"c12.scripts": 7000, "c12.forced_interleavings": 2000, "classes": 100},
		Assumptions:    []string{"the client's processor handles inbound packets sequentially, so a PINGREQ/PINGRESP round trip is a barrier", "the forced interleaving parks a goroutine that holds no library lock (legal schedule)"},
	},
	"C20": {
		Level: "exploration",
		Rule: "Client.Connect against a scripted TCP peer answering 27 CONNACK variants (codes 0..5 x SessionPresent, codes 6/255, reserved bits, wrong fixed-header flags, remaining length 0/1/3, cut packets, other packet types, garbage incl. an unterminated length, close without answer, silence until the 1 s connect timeout): result must be nil iff code 0, the ConnackCode for 1..5, an error otherwise; no panic; socket closed; no goroutine with a library frame left. " +
			"Dispatch: sessions of 10..35 steps of Subscribe (1..3 filters, own callback per request, some filters refused with 0x80), Unsubscribe, inbound PUBLISH at QoS 0..2 on 10 topics incl. never-subscribed ones, QoS 2 with DUP repeats and repeated PUBREL; after a PINGREQ/PINGRESP barrier each request's callback must have been invoked exactly once per delivered message matching one of its active filters and never otherwise; Disconnect leaves no library goroutine. Burst-then-close: after a completed Subscribe the server writes 5..64 matching PUBLISH packets in one write and closes at once while the first callback dwells 0..39 ms; at the client's teardown-finished event the callback must have run once per message, in order. QoS 2 bursts: after 0..39 QoS 2 deliveries completed one by one the server has 17..76 open at once and releases them in order; one callback per message, in order, every PUBREL answered. distinct = connect answers + (topic shape, QoS, number of requests).",
		Quick:          []batchSpec{{Test: "TestC20", N: 8, Timeout: 15 * m}, {Test: "TestC20BurstClose", N: 2, Timeout: 10 * m}, {Test: "TestC20Qos2Burst", N: 2, Timeout: 10 * m}},
		Thorough:       []batchSpec{{Test: "TestC20", N: 16, Timeout: 60 * m}, {Test: "TestC20BurstClose", N: 4, Timeout: 30 * m}, {Test: "TestC20Qos2Burst", N: 4, Timeout: 30 * m}},
		EvalStats:      []string{"c20.connect_cases", "c20.inbound"},
		Floors:         map[string]int64{"c20.connect_cases": 27, "c20.sessions": 230, "c20.inbound": 2000, "c20.callbacks_checked": 1000, "c20.burst_close_cases": 38, "c20.qos2_bursts": 55, "classes": 70},
		FloorsThorough: map[string]int64{"c20.connect_cases": 27, "c20.sessions": 5500, "classes": 75},
		Assumptions:    []string{"PINGREQ/PINGRESP barrier as in C12", "filters with empty levels are not generated here (known finding F-C06-1 covers the matcher)"},
	},
	"C16": {
		Level: "fault_enumeration",
		Rule: "teardown matrix in a synctest bubble (net.Pipe, 16 KiB rings): cause {DISCONNECT, abrupt close, keep-alive expiry in virtual time, protocol error, Server.Close} x buffer condition {idle; own outbound ring full because the subscriber stopped reading and the publisher's processor is parked in its WriteWait; publisher's inbound ring full as well; cross-blocked pair publishing to each other, both not reading; the connection's own inbound ring holding an incomplete message almost as large as the ring behind a small one (less than one read block free)} x order in which the two connections end x will present/absent x CleanSession 0/1 (200 cells), plus 32 pipelined cells: the publisher's processor is parked on a delivery to a subscriber that stopped reading (decided on the processor's handled-packet events), the packet right behind the blocked PUBLISH is a DISCONNECT or a malformed packet, traffic of four packet sizes behind it keeps the publisher's inbound ring full and its receiver parked for space, then the subscriber reads again and the publisher's teardown must finish at the next quiescence. " +
			"Oracle once every connection that had stopped reading has been ended: exactly one teardown-finished event per connection, wills seen by a witness exactly once unless the end was a DISCONNECT, a probe publish to the dead client's filter is acknowledged and reaches nobody, a clean session is gone, Server.Close returns, and a goroutine snapshot shows no frame of the library. A parked Server.Close or leftover goroutine is reported with its stack; a mutex deadlock (not durably blocked, so synctest.Wait cannot return) is caught by the process-wide deadlock watchdog. Window cells (real time): the yield hook delays a goroutine of the victim connection between its done-check and its Cond.Wait on the inbound ring (processor), the outbound ring (sender) or the outbound ring seen from a publisher blocked for space, and the connection is ended (abrupt / DISCONNECT / Server.Close / keep-alive expiry) inside that window; teardown must still finish (stop.done event), decided by goroutine state otherwise. Close race (real time): 4..12 goroutines keep connecting (all dials issued before Close is called) while Server.Close runs at a seeded instant; after Close returned and with the clients idle, every connection that was answered with CONNACK 0 must have been ended by the broker and no library goroutine may remain (goroutine snapshots). Teardown under delivery (shared with C05, real time): 2..6 publishers held up on a subscriber that stopped reading; every other round a second subscriber behind it in the fan-out leaves in good order first (its teardown has finished when the deliveries reach it), then the stalled one is cut; all publishers must keep answering, and at the end every publisher's teardown finishes, Server.Close returns and no library goroutine remains. distinct = cells.",
		Quick:          []batchSpec{{Test: "TestC16", N: 8, Timeout: 15 * m}, {Test: "TestC16Window", N: 3, Timeout: 15 * m}, {Test: "TestC16CloseRace", N: 4, Timeout: 15 * m}, {Test: "TestC05Teardown", N: 4, Timeout: 15 * m}},
		Thorough:       []batchSpec{{Test: "TestC16", N: 16, Timeout: 30 * m}, {Test: "TestC16Window", N: 6, Timeout: 30 * m}, {Test: "TestC16CloseRace", N: 8, Timeout: 60 * m}, {Test: "TestC05Teardown", N: 8, Timeout: 60 * m}},
		EvalStats:      []string{"c16.cells"},
		Floors:         map[string]int64{"c16.cells": 232, "c16.pipelined_cells": 32, "c16.window_cells": 30, "c16.closerace_cases": 190, "c16.closerace_accepted": 200, "c05.teardown_second_subscriber_gone_first": 40, "classes": 235},
		FloorsThorough: map[string]int64{"c16.cells": 928, "c16.pipelined_cells": 128, "c16.window_cells": 200, "classes": 235},
		Exhaustive:     func(r *result) bool { return r.stats["c16.cells"] >= 232 },
		Assumptions:    []string{"'bounded time' is decided at synctest quiescence (every goroutine durably blocked) plus goroutine-state inspection, not by a deadline", "read/write errors as a cause are exercised in C09 (chaos conn) and C05"},
	},
	"C17": {
		Level: "exploration",
		Rule: "concurrent real-time workload on a real broker over net.Pipe with 16 KiB rings and broker-side read fragmentation: 2..12 raw publishers (own + shared topics, QoS 0/1/2, payloads 17/100/4096/8152 bytes so packets straddle the ring end) to 2..6 stable subscribers (fast, slow, bursty readers; granted QoS 0/1/2), concurrent Server.Publish/Subscribe/Unsubscribe goroutines, retained updates, and churning subscribers being torn down while deliveries are addressed to them; GOMAXPROCS 2/4/16; also under the race detector. " +
			"Oracle: every byte every subscriber receives is consumed by the strict reference parser with no framing error, every PUBLISH payload passes its CRC, and per (subscriber, publisher, topic, published QoS) the embedded sequence numbers are strictly increasing. Client role: a library Client queues 1..3 PUBLISH packets of 9 KiB..200 KiB and calls Disconnect at once; the raw bytes a TCP peer receives must be a prefix of those whole packets, with the DISCONNECT on a packet boundary. QoS 2 bursts (synctest): after 0..39 exchanges completed one by one a publisher has 17..76 QoS 2 publishes open at once and releases them in order; a QoS 2 and a QoS 0 subscriber must receive all messages in publishing order. distinct = run configurations.",
		Quick:          []batchSpec{{Test: "TestC17", N: 10, Timeout: 15 * m}, {Test: "TestC17", N: 6, Race: true, Timeout: 20 * m}, {Test: "TestC17Client", N: 2, Timeout: 15 * m}, {Test: "TestC01Backpressure", N: 2, Timeout: 15 * m}, {Test: "TestC17Qos2Burst", N: 4, Timeout: 15 * m}},
		Thorough:       []batchSpec{{Test: "TestC17", N: 16, Timeout: 60 * m}, {Test: "TestC17", N: 16, Race: true, Timeout: 60 * m}, {Test: "TestC17Client", N: 8, Timeout: 30 * m}, {Test: "TestC01Backpressure", N: 8, Timeout: 30 * m}, {Test: "TestC17Qos2Burst", N: 8, Timeout: 30 * m}},
		EvalStats:      []string{"c17.runs"},
		Floors:         map[string]int64{"c17.runs": 50, "c17.published": 20000, "c17.received": 100000, "c17.order_keys": 5000, "c17.churned_connections": 2000, "c17.client_runs": 55, "c17.qos2_bursts": 190, "classes": 40},
		FloorsThorough: map[string]int64{"c17.runs": 700, "c17.published": 1000000, "classes": 200},
		Post:           func(r *result, wd string) { parseRaceLogs(r, wd) },
		Assumptions:    []string{"quiescence by protocol barriers (publisher acks, then PINGREQ/PINGRESP on every subscriber): exact because fan-out is synchronous and rings are FIFO", "race reports in this check's -race runs are reported under their C18 signature"},
	},
	"C18": {
		Level: "exploration",
		Rule: "the Go race detector (-race, GORACE halt_on_error=0 with a log file per child, reports counted in the logs) observes the concurrent broker workloads W1 connect/subscribe/publish/disconnect churn, W2 fan-out to clients being torn down, W3 retained updates concurrent with new subscriptions on the same topics, W4 in-process Server.Publish/Subscribe/Unsubscribe alongside, W5 Server.Close during traffic, W6 the ring-buffer and ack-queue concurrent workloads, W7 (reported separately) a client id reconnecting while its previous connection is still being torn down; seeds x GOMAXPROCS 2/4/16 with seeded Gosched/sleep yields at the library's yield points; logging off. " +
			"A report with a library frame in either access is a violation, de-duplicated by the pair of innermost library functions. Overlap counters measured in the same processes (deliveries entering writeMessage during/after the target's teardown, Retain calls during subscribe processing and vice versa) show the workloads really overlapped. distinct = (workload, GOMAXPROCS, fragmentation).",
		Quick: []batchSpec{{Test: "TestC18", N: 10, Race: true, Timeout: 20 * m}, {Test: "TestC18", N: 2, Race: true, Timeout: 20 * m, Env: map[string]string{"VERIF_WORKLOAD": "w7"}, Tag: "w7"},
			{Test: "TestC14Conc", N: 4, Race: true, Timeout: 15 * m}, {Test: "TestC13Conc", N: 2, Race: true, Timeout: 15 * m}, {Test: "TestC01Backpressure", N: 2, Race: true, Timeout: 15 * m}},
		Thorough: []batchSpec{{Test: "TestC18", N: 16, Race: true, Timeout: 90 * m}, {Test: "TestC18", N: 4, Race: true, Timeout: 60 * m, Env: map[string]string{"VERIF_WORKLOAD": "w7"}, Tag: "w7"},
			{Test: "TestC14Conc", N: 8, Race: true, Timeout: 60 * m}, {Test: "TestC13Conc", N: 4, Race: true, Timeout: 30 * m}, {Test: "TestC12Client", N: 4, Race: true, Timeout: 30 * m}, {Test: "TestC01Backpressure", N: 4, Race: true, Timeout: 30 * m}},
		EvalStats:      []string{"c18.runs", "c14.conc.runs", "c13.conc.histories"},
		Floors:         map[string]int64{"c18.runs": 40, "c18.published": 10000, "c18.overlap.writes_during_target_teardown": 20, "c18.churned_connections": 1000, "classes": 15},
		FloorsThorough: map[string]int64{"c18.runs": 400, "classes": 20},
		Post:           func(r *result, wd string) { parseRaceLogs(r, wd) },
		Assumptions:    []string{"only executed schedules are observed; the detector's bounded shadow history can miss races whose accesses are far apart", "hooks add no synchronisation in the -race build (plain norace counters, clock-derived delays, no event sink)"},
	},
	"C05": {
		Level: "fault_enumeration",
		Rule: "the broker runs as separate OS processes (real ListenAndServe on 127.0.0.1, 16 KiB rings, connect timeout 1 s); a witness publisher/subscriber pair with numbered CRC payloads and an idle observer stay connected while attacker connections run: pre-CONNECT (every prefix of a valid CONNECT then close, every byte of it set to 0xff/0x00/+1, every wrong first packet type, unterminated / maximal / larger-than-ring remaining lengths, random bytes, silence until the connect timeout), post-CONNECT (the C04 mutation corpus of all 14 packet types, PUBLISH packets from 8 KiB-16 to 1 MiB, packets a client must not send), disconnects (close at sampled byte offsets of SUBSCRIBE and QoS 2 PUBLISH, close of a subscriber of the witness topic at seeded delays while 40 witness messages are flowing to it, half-close, a subscriber that stops reading then closes, a subscriber with a 4 KiB receive buffer that stops reading while a bystander floods it until the bystander's own PINGREQs go unanswered and is then cut - the bystander must come back). " +
			"After every attack: the broker process is alive (exit status and stderr captured), witness and observer connections are open, and the witness subscriber received exactly the next witness messages in order and nothing else. Teardown under delivery (in-process broker, net.Pipe, 16 KiB rings): 2..6 publishers flood a subscriber that has stopped reading until their own PINGREQs go unanswered, the subscriber is cut at a seeded delay, 6..11 rounds per case; every publisher must stay connected and answer, and a marker each publishes afterwards must reach a witness exactly once (every other round a second subscriber behind the stalled one has left in good order before the cut). Also: publishes and wills on topic names with a '$'-leading level by a client that holds a subscription and then leaves. distinct = (attack class, variant).",
		Quick:          []batchSpec{{Test: "TestC05", N: 8, Timeout: 20 * m, Weight: 2}, {Test: "TestC05Teardown", N: 4, Timeout: 15 * m}},
		Thorough:       []batchSpec{{Test: "TestC05", N: 16, Timeout: 90 * m}, {Test: "TestC05Teardown", N: 8, Timeout: 60 * m}},
		EvalStats:      []string{"c05.attacks"},
		Floors:         map[string]int64{"c05.attacks": 1200, "c05.broker_processes": 8, "c05.witness_messages": 8000, "c05.stalled_reached": 1, "c05.teardown_rounds": 150, "c05.teardown_stalled_rounds": 20, "classes": 25},
		FloorsThorough: map[string]int64{"c05.attacks": 30000, "classes": 25},
		Assumptions:    []string{"loopback TCP; read/write errors below the socket API cannot be injected from outside the broker process (they are in C09/C16 via the chaos conn)", "no address-space cap is imposed: after the fix of the 5-byte remaining length an unauthenticated connection can make the broker reserve at most 256 MiB"},
	},
}
