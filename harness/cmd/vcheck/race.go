package main

import (
	"fmt"
	"os"
	"path/filepath"
	"regexp"
	"sort"
	"strings"
)

var raceFn = regexp.MustCompile(`^\s+([A-Za-z0-9_./\-]+\.[^\s]*?)\(\)$`)

// parseRaceLogs reads the GORACE log files of the race jobs, turns every
// report in which at least one access has a frame inside the library into a
// violation (signature: the pair of innermost library functions) and counts
// reports that only involve harness frames.
func parseRaceLogs(res *result, workDir string) {
	for _, j := range res.jobs {
		if !j.spec.Race {
			continue
		}
		tag := ""
		if j.spec.Env["VERIF_WORKLOAD"] == "w7" {
			tag = "w7:"
		}
		files, _ := filepath.Glob(strings.TrimSuffix(j.logFile, ".log") + ".race.*")
		for _, f := range files {
			b, err := os.ReadFile(f)
			if err != nil {
				continue
			}
			for _, blk := range strings.Split(string(b), "==================") {
				if !strings.Contains(blk, "WARNING: DATA RACE") {
					continue
				}
				res.stats["race_reports"]++
				// the two access sections precede the "Goroutine N ... created at" sections
				body := blk
				if i := strings.Index(body, "\nGoroutine "); i >= 0 {
					body = body[:i]
				}
				secs := strings.Split(strings.TrimSpace(body), "\n\n")
				var inner []string
				for _, s := range secs {
					lines := strings.Split(s, "\n")
					fn := ""
					for _, l := range lines {
						if m := raceFn.FindStringSubmatch(l); m != nil && strings.HasPrefix(m[1], "github.com/mdzio/go-mqtt/") {
							fn = strings.TrimPrefix(m[1], "github.com/mdzio/go-mqtt/")
							break
						}
					}
					if strings.Contains(lines[0], "WARNING") && len(lines) > 1 {
						// first section starts with the WARNING line followed by the first access
					}
					inner = append(inner, fn)
				}
				var lib []string
				for _, fn := range inner {
					if fn != "" {
						lib = append(lib, fn)
					}
				}
				if len(lib) == 0 {
					res.stats["race_reports_harness_only"]++
					if len(res.crashNotes) < 3 {
						res.crashNotes = append(res.crashNotes, blk)
					}
					continue
				}
				for len(lib) < 2 {
					lib = append(lib, "(harness)")
				}
				lib = lib[:2]
				sort.Strings(lib)
				sig := "c18:race:" + tag + lib[0] + "|" + lib[1]
				res.stats["viol:"+sig]++
				if res.stats["viol:"+sig] <= 2 {
					txt := blk
					if len(txt) > 5000 {
						txt = txt[:5000]
					}
					res.viols = append(res.viols, vrec{rec{K: "viol", Case: "race-log:" + filepath.Base(f), Sig: sig,
						Desc:   fmt.Sprintf("data race between %s and %s", lib[0], lib[1]),
						Detail: map[string]interface{}{"report": txt, "workload_env": j.spec.Env}}, j})
				}
			}
		}
	}
	if res.stats["race_reports_harness_only"] > 0 {
		res.inconcl = append(res.inconcl, fmt.Sprintf("%d race reports involve only harness frames (a harness bug): %s", res.stats["race_reports_harness_only"], firstLines(res.crashNotes)))
	}
}

func firstLines(notes []string) string {
	if len(notes) == 0 {
		return ""
	}
	l := strings.Split(strings.TrimSpace(notes[0]), "\n")
	if len(l) > 12 {
		l = l[:12]
	}
	return strings.Join(l, " / ")
}
