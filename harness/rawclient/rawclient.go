// Package rawclient is a wire-level MQTT client for the monitors: one reader
// goroutine strict-parses every byte received with the reference codec (a
// framing error is itself an observation), appends every packet to a
// per-client log and answers QoS 1/2 flows according to a programmable policy;
// one writer goroutine sends queued bytes so the reader never blocks.
package rawclient

import (
	"errors"
	"fmt"
	"io"
	"net"
	"sync"
	"sync/atomic"
	"time"

	rc "verif/harness/refcodec"
)

// Event is one received packet.
type Event struct {
	Seq int64 // global receive order across all clients of the process
	P   *rc.Packet
	N   int // encoded length
}

// AckPolicy decides what to send in answer to a received packet.
type AckPolicy func(p *rc.Packet) [][]byte

// AckPrompt answers PUBLISH QoS1 with PUBACK, QoS2 with PUBREC, PUBREL with PUBCOMP.
func AckPrompt(p *rc.Packet) [][]byte {
	switch {
	case p.Type == rc.PUBLISH && p.QoS == 1:
		return [][]byte{rc.Encode(&rc.Packet{Type: rc.PUBACK, ID: p.ID})}
	case p.Type == rc.PUBLISH && p.QoS == 2:
		return [][]byte{rc.Encode(&rc.Packet{Type: rc.PUBREC, ID: p.ID})}
	case p.Type == rc.PUBREL:
		return [][]byte{rc.Encode(&rc.Packet{Type: rc.PUBCOMP, ID: p.ID})}
	case p.Type == rc.PUBREC:
		// publisher side of a QoS 2 exchange
		return [][]byte{rc.Encode(&rc.Packet{Type: rc.PUBREL, ID: p.ID})}
	}
	return nil
}

// AckNone withholds every acknowledgement.
func AckNone(p *rc.Packet) [][]byte { return nil }

var gseq int64

// Client is a raw MQTT client over any net.Conn.
type Client struct {
	Name string
	conn net.Conn

	mu       sync.Mutex
	cond     *sync.Cond
	log      []Event
	frameErr error
	closed   bool
	readErr  error
	rxBytes  int64
	policy   AckPolicy
	paused   bool // reader paused (stops reading: simulates a client that stopped reading)
	// OnRead is called after every Read (set it with SetOnRead).
	OnRead func(n int)
	pauseC *sync.Cond

	wmu     sync.Mutex
	wcond   *sync.Cond
	wq      [][]byte
	writing bool // the writer has taken an item off the queue and is inside conn.Write
	wdone   bool
	werr    error
	wcount  int64

	wg sync.WaitGroup
}

// New starts a client on conn.
func New(name string, conn net.Conn, policy AckPolicy) *Client {
	if policy == nil {
		policy = AckPrompt
	}
	c := &Client{Name: name, conn: conn, policy: policy}
	c.cond = sync.NewCond(&c.mu)
	c.pauseC = sync.NewCond(&c.mu)
	c.wcond = sync.NewCond(&c.wmu)
	c.wg.Add(2)
	go c.reader()
	go c.writer()
	return c
}

// SetOnRead installs a function called after every Read (slow or bursty readers).
func (c *Client) SetOnRead(f func(n int)) {
	c.mu.Lock()
	c.OnRead = f
	c.mu.Unlock()
}

// SetPolicy changes the acknowledgement policy.
func (c *Client) SetPolicy(p AckPolicy) {
	c.mu.Lock()
	c.policy = p
	c.mu.Unlock()
}

// PauseReading makes the reader stop reading from the connection (the peer's
// writes will eventually block); ResumeReading continues.
func (c *Client) PauseReading() {
	c.mu.Lock()
	c.paused = true
	c.mu.Unlock()
}

// ResumeReading continues reading.
func (c *Client) ResumeReading() {
	c.mu.Lock()
	c.paused = false
	c.pauseC.Broadcast()
	c.mu.Unlock()
}

func (c *Client) reader() {
	defer c.wg.Done()
	buf := make([]byte, 0, 64<<10)
	tmp := make([]byte, 32<<10)
	for {
		c.mu.Lock()
		for c.paused && !c.closed {
			c.pauseC.Wait()
		}
		c.mu.Unlock()
		n, err := c.conn.Read(tmp)
		if n > 0 {
			c.mu.Lock()
			or := c.OnRead
			c.mu.Unlock()
			if or != nil {
				or(n)
			}
		}
		if n > 0 {
			buf = append(buf, tmp[:n]...)
			atomic.AddInt64(&c.rxBytes, int64(n))
			for len(buf) > 0 {
				p, k, derr := rc.Decode(buf)
				if derr == rc.ErrIncomplete {
					break
				}
				if derr != nil {
					c.mu.Lock()
					if c.frameErr == nil {
						head := buf
						if len(head) > 64 {
							head = head[:64]
						}
						c.frameErr = fmt.Errorf("%v (at %x)", derr, head)
					}
					c.cond.Broadcast()
					c.mu.Unlock()
					// cannot resynchronise: swallow the rest
					buf = buf[:0]
					break
				}
				ev := Event{Seq: atomic.AddInt64(&gseq, 1), P: p.Clone(), N: k}
				buf = buf[k:]
				c.mu.Lock()
				c.log = append(c.log, ev)
				pol := c.policy
				c.cond.Broadcast()
				c.mu.Unlock()
				for _, b := range pol(ev.P) {
					c.Send(b)
				}
			}
			if len(buf) == 0 && cap(buf) > 1<<20 {
				buf = make([]byte, 0, 64<<10)
			}
		}
		if err != nil {
			c.mu.Lock()
			c.closed = true
			c.readErr = err
			c.cond.Broadcast()
			c.mu.Unlock()
			// stop the writer too
			c.wmu.Lock()
			c.wdone = true
			c.wcond.Broadcast()
			c.wmu.Unlock()
			return
		}
	}
}

func (c *Client) writer() {
	defer c.wg.Done()
	for {
		c.wmu.Lock()
		for len(c.wq) == 0 && !c.wdone {
			c.wcond.Wait()
		}
		if len(c.wq) == 0 && c.wdone {
			c.wmu.Unlock()
			return
		}
		b := c.wq[0]
		c.wq = c.wq[1:]
		c.writing = true
		c.wmu.Unlock()
		_, err := c.conn.Write(b)
		c.wmu.Lock()
		c.writing = false
		c.wcount++
		if err != nil && c.werr == nil {
			c.werr = err
		}
		c.wcond.Broadcast()
		c.wmu.Unlock()
		if err != nil {
			c.wmu.Lock()
			c.wq = nil
			c.wdone = true
			c.wmu.Unlock()
			return
		}
	}
}

// Send queues raw bytes.
func (c *Client) Send(b []byte) {
	c.wmu.Lock()
	if !c.wdone {
		c.wq = append(c.wq, append([]byte{}, b...))
		c.wcond.Broadcast()
	}
	c.wmu.Unlock()
}

// SendPacket queues the encoding of p.
func (c *Client) SendPacket(p *rc.Packet) { c.Send(rc.Encode(p)) }

// Flush waits until everything queued has been written to the connection (or the
// writer stopped): the queue is empty and no write is in progress.
func (c *Client) Flush() error {
	c.wmu.Lock()
	defer c.wmu.Unlock()
	for (len(c.wq) > 0 || c.writing) && !c.wdone {
		c.wcond.Wait()
	}
	return c.werr
}

// Log returns a copy of the receive log.
func (c *Client) Log() []Event {
	c.mu.Lock()
	defer c.mu.Unlock()
	return append([]Event{}, c.log...)
}

// LogLen returns the number of packets received.
func (c *Client) LogLen() int {
	c.mu.Lock()
	defer c.mu.Unlock()
	return len(c.log)
}

// Since returns the packets received from index i on.
func (c *Client) Since(i int) []Event {
	c.mu.Lock()
	defer c.mu.Unlock()
	if i > len(c.log) {
		i = len(c.log)
	}
	return append([]Event{}, c.log[i:]...)
}

// FrameErr returns the first strict-parse error of the inbound stream.
func (c *Client) FrameErr() error {
	c.mu.Lock()
	defer c.mu.Unlock()
	return c.frameErr
}

// Closed reports whether the peer closed the connection (EOF or error on read).
func (c *Client) Closed() bool {
	c.mu.Lock()
	defer c.mu.Unlock()
	return c.closed
}

// ReadErr returns the error that ended the reader.
func (c *Client) ReadErr() error {
	c.mu.Lock()
	defer c.mu.Unlock()
	return c.readErr
}

// RxBytes returns the number of bytes received.
func (c *Client) RxBytes() int64 { return atomic.LoadInt64(&c.rxBytes) }

// ErrTimeout is returned by WaitFor when the deadline passes.
var ErrTimeout = errors.New("rawclient: timeout")

// WaitFor blocks until pred holds over the log (it is also evaluated when the
// connection closes) or the timeout passes. For real-time scenarios only.
func (c *Client) WaitFor(pred func(log []Event, closed bool) bool, timeout time.Duration) error {
	deadline := time.Now().Add(timeout)
	t := time.AfterFunc(timeout, func() {
		c.mu.Lock()
		c.cond.Broadcast()
		c.mu.Unlock()
	})
	defer t.Stop()
	c.mu.Lock()
	defer c.mu.Unlock()
	for {
		if pred(c.log, c.closed) {
			return nil
		}
		if c.closed {
			return io.EOF
		}
		if !time.Now().Before(deadline) {
			return ErrTimeout
		}
		c.cond.Wait()
	}
}

// Close closes the connection and waits for the client's goroutines.
func (c *Client) Close() {
	c.conn.Close()
	c.mu.Lock()
	c.closed = true
	c.pauseC.Broadcast()
	c.cond.Broadcast()
	c.mu.Unlock()
	c.wmu.Lock()
	c.wdone = true
	c.wcond.Broadcast()
	c.wmu.Unlock()
	c.wg.Wait()
}

// CloseWrite half-closes if the connection supports it.
func (c *Client) CloseWrite() error {
	if cw, ok := c.conn.(interface{ CloseWrite() error }); ok {
		return cw.CloseWrite()
	}
	return errors.New("no CloseWrite")
}

// Conn returns the underlying connection.
func (c *Client) Conn() net.Conn { return c.conn }
