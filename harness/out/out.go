// Package out is the child-process side of the reporting protocol: JSON lines
// written to the file named by VERIF_OUT (or stdout), flushed record by record
// so that a crashing child leaves a usable log.
package out

import (
	"encoding/json"
	"fmt"
	"os"
	"sort"
	"strconv"
	"sync"
	"sync/atomic"
)

// Rec is one record.
type Rec struct {
	K      string                 `json:"k"` // begin|end|viol|inc|sample|stat|classes|done|note
	Case   string                 `json:"case,omitempty"`
	Seed   uint64                 `json:"seed,omitempty"`
	Sig    string                 `json:"sig,omitempty"`
	Desc   string                 `json:"desc,omitempty"`
	Detail interface{}            `json:"detail,omitempty"`
	Stats  map[string]int64       `json:"stats,omitempty"`
	Keys   []string               `json:"keys,omitempty"`
	Params map[string]interface{} `json:"params,omitempty"`
}

var (
	mu       sync.Mutex
	f        *os.File
	stats    = map[string]int64{}
	classes  = map[string]struct{}{}
	nsamples = map[string]int{}
	curCase  string
	only     string
	// Violations counts violations reported.
	Violations int
	// MaxPerSig bounds the violation records written per signature and child
	// (all are counted in the "viol:<sig>" statistic).
	MaxPerSig int64 = 3
)

func init() {
	only = os.Getenv("VERIF_CASE")
	if p := os.Getenv("VERIF_OUT"); p != "" {
		var err error
		f, err = os.OpenFile(p, os.O_CREATE|os.O_WRONLY|os.O_APPEND, 0o644)
		if err != nil {
			panic(err)
		}
	} else {
		f = os.Stdout
	}
}

func emit(r *Rec) {
	b, err := json.Marshal(r)
	if err != nil {
		b, _ = json.Marshal(&Rec{K: "note", Desc: "marshal error: " + err.Error()})
	}
	b = append(b, '\n')
	f.Write(b)
}

var caseCounter int64

// CaseCounter returns the number of Begin/End/Count calls so far (a progress
// indicator for the deadlock watchdog).
func CaseCounter() int64 { return atomic.LoadInt64(&caseCounter) }

// Only reports whether the named case is selected (VERIF_CASE unset or equal).
func Only(caseID string) bool { return only == "" || only == caseID }

// Begin announces a case before it runs.
func Begin(caseID string, seed uint64, params map[string]interface{}) {
	atomic.AddInt64(&caseCounter, 1)
	mu.Lock()
	defer mu.Unlock()
	curCase = caseID
	stats["cases"]++
	emit(&Rec{K: "begin", Case: caseID, Seed: seed, Params: params})
}

// End closes the current case.
func End() {
	mu.Lock()
	defer mu.Unlock()
	emit(&Rec{K: "end", Case: curCase})
}

// Violation reports a property violation in the current case.
func Violation(sig, desc string, detail interface{}) {
	mu.Lock()
	defer mu.Unlock()
	Violations++
	stats["viol:"+sig]++
	if stats["viol:"+sig] > MaxPerSig {
		return
	}
	emit(&Rec{K: "viol", Case: curCase, Sig: sig, Desc: desc, Detail: detail})
}

// Inconclusive reports that the current case could not be decided.
func Inconclusive(reason string, detail interface{}) {
	mu.Lock()
	defer mu.Unlock()
	stats["inconclusive"]++
	emit(&Rec{K: "inc", Case: curCase, Desc: reason, Detail: detail})
}

// Note writes free text.
func Note(f string, a ...interface{}) {
	mu.Lock()
	defer mu.Unlock()
	emit(&Rec{K: "note", Case: curCase, Desc: fmt.Sprintf(f, a...)})
}

// Sample records an example case (at most max per kind are kept).
func Sample(kind string, max int, v interface{}) {
	mu.Lock()
	defer mu.Unlock()
	if nsamples[kind] >= max {
		return
	}
	nsamples[kind]++
	emit(&Rec{K: "sample", Case: curCase, Sig: kind, Detail: v})
}

// Count adds to a named counter.
func Count(name string, n int64) {
	atomic.AddInt64(&caseCounter, 1)
	mu.Lock()
	stats[name] += n
	mu.Unlock()
}

// Max keeps the maximum of a named gauge.
func Max(name string, n int64) {
	if len(name) < 4 || name[:4] != "max:" {
		name = "max:" + name
	}
	mu.Lock()
	if n > stats[name] {
		stats[name] = n
	}
	mu.Unlock()
}

// Class records a distinct non-trivial case class key.
func Class(key string) {
	mu.Lock()
	classes[key] = struct{}{}
	mu.Unlock()
}

// Done flushes counters and class keys and marks a clean end of the child.
func Done() {
	mu.Lock()
	defer mu.Unlock()
	emit(&Rec{K: "stat", Stats: stats})
	keys := make([]string, 0, len(classes))
	for k := range classes {
		keys = append(keys, k)
	}
	sort.Strings(keys)
	for len(keys) > 0 {
		n := len(keys)
		if n > 5000 {
			n = 5000
		}
		emit(&Rec{K: "classes", Keys: keys[:n]})
		keys = keys[n:]
	}
	emit(&Rec{K: "done"})
	f.Sync()
}

// EnvInt reads an integer parameter.
func EnvInt(name string, def int) int {
	if v := os.Getenv(name); v != "" {
		if n, err := strconv.Atoi(v); err == nil {
			return n
		}
	}
	return def
}

// EnvU64 reads an unsigned parameter.
func EnvU64(name string, def uint64) uint64 {
	if v := os.Getenv(name); v != "" {
		if n, err := strconv.ParseUint(v, 10, 64); err == nil {
			return n
		}
	}
	return def
}

// EnvStr reads a string parameter.
func EnvStr(name, def string) string {
	if v := os.Getenv(name); v != "" {
		return v
	}
	return def
}
