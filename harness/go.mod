module verif/harness

go 1.26.8

require (
	github.com/anishathalye/porcupine v1.3.0
	github.com/mdzio/go-logging v1.0.0
	github.com/mdzio/go-mqtt v0.0.0
)

require github.com/gorilla/websocket v1.5.0

replace github.com/mdzio/go-mqtt => /repo
