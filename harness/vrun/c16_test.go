package vrun

import (
	"fmt"
	"sort"
	"strings"
	"sync"
	"sync/atomic"
	"testing"
	"time"

	"verif/harness/out"
	rc "verif/harness/refcodec"
	"verif/harness/spec"
)

var c16Causes = []string{"disconnect", "abrupt", "keepalive", "protocol-error", "server-close", "oversize"}
var c16Conds = []string{"idle", "out-full", "in-full", "cross-blocked", "in-partial-large", "own-out-full"}

// c16Cell runs one teardown scenario in a bubble.
//
//	X: the connection whose teardown is examined (subscriber; stops reading in the blocked conditions)
//	P: a publisher whose deliveries go to X
//	W: witness (wills), always reading
func c16Cell(t *testing.T, cause, cond string, order int, will, clean bool, seed uint64, idx int) {
	params := map[string]interface{}{"cause": cause, "condition": cond, "order": order, "will": will, "clean": clean}
	bubble(t, "c16", params, func(cl *cleanup) {
		w := newWorld(worldCfg{BufferSize: 16384})
		cl.add(w.shutdown)
		fail := func(sig, desc string) { out.Violation(sig, desc, params) }
		r := spec.NewRand(seed)
		wit, ack := w.connectB("W", connectOpts{Clean: true, KeepAlive: 60000})
		if ack == nil {
			fail("c16:connect", "witness")
			return
		}
		if sa, _ := wit.subscribeB([]string{"will/#"}, []byte{1}); sa == nil {
			fail("c16:suback", "witness")
			return
		}
		ka := uint16(600)
		if cause == "keepalive" {
			ka = 5
		}
		mk := func(name string, uid uint64) connectOpts {
			o := connectOpts{ClientID: name, Clean: clean, KeepAlive: ka}
			if will {
				o.Will = &rc.Packet{Topic: []byte("will/" + name), QoS: 1, Payload: spec.MakePayload(uid, 0, 30)}
			}
			return o
		}
		// Server.Close walks its connections in the order they were accepted: with that cause the
		// "order" coordinate decides who was accepted first
		var X, P *bclient
		var ax, ap *rc.Packet
		if cause == "server-close" && order == 1 {
			P, ap = w.connectB("P", mk("P", 7002))
			X, ax = w.connectB("X", mk("X", 7001))
		} else {
			X, ax = w.connectB("X", mk("X", 7001))
			P, ap = w.connectB("P", mk("P", 7002))
		}
		if ax == nil || ap == nil {
			fail("c16:connect", "X/P")
			return
		}
		if sa, _ := X.subscribeB([]string{"to/x"}, []byte{0}); sa == nil {
			fail("c16:suback", "X")
			return
		}
		if cond == "cross-blocked" {
			if sa, _ := P.subscribeB([]string{"to/p"}, []byte{0}); sa == nil {
				fail("c16:suback", "P")
				return
			}
		}
		var uids uidGen
		// in every third cell the history before the teardown contains publishes the topic tree refuses
		// to match (a '$'-leading level): they reach nobody and must leave nothing behind
		if idx%3 == 1 {
			params["refused_publishes_before"] = true
			for _, tp := range []string{"$SYS/broker/load", "$share/x", "will/$x"} {
				P.SendPacket(&rc.Packet{Type: rc.PUBLISH, Topic: []byte(tp), Payload: spec.MakePayload(uids.next(), 0, 40)})
			}
			settle()
			out.Count("c16.cells_with_refused_publishes", 1)
		}
		flood := func(from *bclient, topic string, bytes int) {
			sent := 0
			for sent < bytes {
				from.SendPacket(&rc.Packet{Type: rc.PUBLISH, Topic: []byte(topic), Payload: spec.MakePayload(uids.next(), 0, 3000)})
				sent += 3010
			}
		}
		// ---- establish the buffer condition
		switch cond {
		case "out-full":
			X.PauseReading()
			flood(P, "to/x", 16384+2*3010+8192) // X.out fills, P's processor parks in X's WriteWait
		case "in-full":
			X.PauseReading()
			flood(P, "to/x", 3*16384+4*8192) // ... and P keeps sending: P.in fills, P's receiver parks too
		case "cross-blocked":
			X.PauseReading()
			P.PauseReading()
			flood(P, "to/x", 16384+3*3010+8192)
			flood(X, "to/p", 16384+3*3010+8192)
		case "own-out-full":
			// X has stopped reading and has sent requests until their answers filled its OWN outgoing ring:
			// X's processor is parked waiting for room there, X's sender is blocked in its write to the
			// socket. Nobody else is involved (P is an idle bystander).
			if w.sink == nil {
				return
			}
			X.PauseReading()
			sent, stalled := 0, false
			for round := 0; round < 200 && !stalled; round++ {
				var burst []byte
				for k := 0; k < 64; k++ {
					sent++
					burst = append(burst, rc.Encode(&rc.Packet{Type: rc.PUBLISH, Topic: []byte("to/nobody"), QoS: 1, ID: uint16(sent), Payload: []byte("p")})...)
				}
				X.Send(burst)
				settle()
				stalled = w.sink.count("proc.handled", "X") < sent
			}
			if !stalled {
				out.Inconclusive("c16: X's processor did not stall on its own outgoing ring", params)
				X.Close()
				P.Close()
				return
			}
			out.Count("c16.own_out_full_cells", 1)
		case "in-partial-large":
			// X has sent a small packet and, in the same write, one almost as large as its inbound ring:
			// the ring holds a message that is not complete yet and has less than one read block free
			pre := rc.Encode(&rc.Packet{Type: rc.PUBLISH, Topic: []byte("to/nobody"), Payload: spec.MakePayload(uids.next(), 0, 3000)})
			pre = append(pre, rc.Encode(&rc.Packet{Type: rc.PUBLISH, Topic: []byte("to/nobody"), Payload: spec.MakePayload(uids.next(), 0, 16384-600+r.Intn(400))})...)
			X.Send(pre)
		case "in-full-pipelined":
			// P's processor is parked on a delivery to X (not reading); the packet right behind the
			// blocked PUBLISH ends P's connection, and more traffic behind it keeps P's inbound ring full
			// with P's receiver parked for space. Then X reads again: nobody holds P up any more.
			if w.sink == nil {
				return
			}
			// Schedule steering (delays only, at the library's yield points): once X reads again, P's
			// processor does not take the next packet out of its inbound ring before P's receiver, which
			// refills the ring from the pending traffic, is waiting for room again. That is the state in
			// which the ending packet has to be handled: ring full, receiver parked, nobody else to free it.
			var pmu sync.Mutex
			parks := map[interface{}]int{}
			psig := make(chan struct{}, 64)
			var steer atomic.Bool
			hook := func(pt string, obj interface{}) {
				switch pt {
				case "buf.wspace.prewait":
					pmu.Lock()
					parks[obj]++
					pmu.Unlock()
					select {
					case psig <- struct{}{}:
					default:
					}
				case "buf.readwait.prelock":
					if !steer.Load() {
						return
					}
					pmu.Lock()
					n0 := parks[obj]
					pmu.Unlock()
					if n0 == 0 {
						return // not a ring whose producer ever had to wait
					}
					deadline := time.After(20 * time.Millisecond) // virtual time
					for {
						pmu.Lock()
						n := parks[obj]
						pmu.Unlock()
						if n > n0 {
							return
						}
						select {
						case <-psig:
						case <-deadline:
							return
						}
					}
				}
			}
			yieldAnyBuf.Store(&hook)
			cl.add(func() { yieldAnyBuf.Store(nil) })
			X.PauseReading()
			base := w.sink.count("proc.handled", "P")
			blocked := false
			for k := 1; k <= 12; k++ {
				P.SendPacket(&rc.Packet{Type: rc.PUBLISH, Topic: []byte("to/x"), Payload: spec.MakePayload(uids.next(), 0, 3000)})
				settle()
				if w.sink.count("proc.handled", "P")-base < k {
					blocked = true
					break
				}
			}
			if !blocked {
				out.Inconclusive("c16: the publisher's processor did not block", params)
				return
			}
			if cause == "disconnect" {
				P.SendPacket(&rc.Packet{Type: rc.DISCONNECT})
			} else {
				P.Send([]byte{0xf0, 0x00})
			}
			junk := []int{3000, 1000, 5000, 200}[order]
			for sent := 0; sent < 4*16384; sent += junk + 12 {
				P.SendPacket(&rc.Packet{Type: rc.PUBLISH, Topic: []byte("to/nobody"), Payload: spec.MakePayload(uids.next(), 0, junk)})
			}
			settle()
			if P.Closed() || w.sink.count("stop.begin", "P") != 0 {
				out.Inconclusive("c16: the publisher ended before the subscriber resumed", params)
				return
			}
			steer.Store(true)
			X.ResumeReading()
			settle()
			// the steering hook may be sitting on its (virtual) timer: let virtual time pass
			for k := 0; k < 40 && w.sink.count("stop.done", "P") == 0; k++ {
				time.Sleep(25 * time.Millisecond)
				settle()
			}
			steer.Store(false)
			settle()
			if n := w.sink.count("stop.done", "P"); n != 1 {
				var where []string
				for _, g := range libGoroutines() {
					where = append(where, g.libTop()+":"+g.state)
				}
				sort.Strings(where)
				fail("c16:teardown-incomplete:"+strings.Join(uniq(where), "+"), fmt.Sprintf("connection P sent its %s behind a PUBLISH whose delivery was held up by X; X is reading again and every goroutine is parked, yet P has %d teardown-finished events (teardown begun: %d); library goroutines: %v", cause, n, w.sink.count("stop.begin", "P"), uniq(where)))
				X.Close()
				P.Close()
				return
			}
			out.Count("c16.pipelined_cells", 1)
		}
		settle()
		blockedX := cond != "idle"
		// ---- end the connections in the chosen order
		ends := []*bclient{X, P}
		if order == 1 {
			ends = []*bclient{P, X}
		}
		endOne := func(c *bclient, how string) {
			switch how {
			case "disconnect":
				c.SendPacket(&rc.Packet{Type: rc.DISCONNECT})
				settle()
				c.Close()
			case "abrupt":
				c.Close()
			case "keepalive":
				time.Sleep(12 * time.Second)
			case "protocol-error":
				c.Send([]byte{0xf0, 0x00})
				settle()
			case "oversize":
				// the beginning of a PUBLISH that is larger than the connection's ring (20000 bytes announced,
				// 3000 sent): the broker cannot take it and has to end the connection by itself
				b := append([]byte{0x30}, rc.AppendVarint(nil, 20000)...)
				b = append(b, 0, 3, 'o', 'v', 's')
				b = append(b, make([]byte, 3000)...)
				c.Send(b)
				settle()
			}
			settle()
		}
		serverClosed := false
		if cause == "server-close" {
			done := make(chan struct{})
			go func() { w.svr.Close(); close(done) }()
			settle()
			select {
			case <-done:
				serverClosed = true
			default:
				// Server.Close is parked: show where
				var tops []string
				for _, g := range libGoroutines() {
					if strings.Contains(g.stack, "Server).Close") {
						tops = append(tops, g.libTop()+":"+g.state)
					}
				}
				sort.Strings(tops)
				fail("c16:server-close-stuck:"+strings.Join(uniq(tops), "+"), fmt.Sprintf("Server.Close did not return with condition %q (all goroutines durably blocked)", cond))
				// unblock so the bubble can end
				X.Close()
				P.Close()
				settle()
				return
			}
		} else {
			// In the blocked conditions a DISCONNECT/protocol error sent by X cannot be processed while
			// its own processor is not blocked... it can: X's processor is idle (X only stopped reading).
			for i, c := range ends {
				how := cause
				// only the first connection ends by the cause under test; the others are closed abruptly
				if i > 0 {
					how = "abrupt"
				}
				if cond == "in-full" && c == P && (how == "disconnect" || how == "protocol-error" || how == "oversize") {
					// P's inbound ring is full: it cannot get another packet through; it ends by closing
					how = "abrupt"
				}
				if (cond == "cross-blocked" || cond == "in-full-pipelined") && (how == "disconnect" || how == "protocol-error" || how == "oversize") {
					how = "abrupt"
				}
				if cond == "out-full" && c == P && (how == "disconnect" || how == "protocol-error" || how == "oversize") {
					how = "abrupt" // P's processor is parked: it will not read another packet
				}
				if cond == "own-out-full" && c == X && (how == "disconnect" || how == "protocol-error" || how == "oversize") {
					how = "abrupt" // X's processor is parked: it will not read another packet
				}
				endOne(c, how)
				// keep-alive expiry is the broker's own doing: the connection must be down before anybody
				// closes anything, unless it is P held up by X, which is still open and not reading
				// (in "cross-blocked" X's processor is parked on P's ring as well, P being open and not reading)
				if how == "keepalive" && w.sink != nil && cond != "cross-blocked" && (c == X || cond == "idle" || cond == "own-out-full" || cond == "in-partial-large") {
					if n := w.sink.count("stop.done", c.name); n != 1 {
						var where []string
						for _, g := range libGoroutines() {
							where = append(where, g.libTop()+":"+g.state)
						}
						sort.Strings(where)
						fail("c16:keepalive-teardown-missing:"+strings.Join(uniq(where), "+"), fmt.Sprintf("connection %s (keep-alive 5 s, condition %s) has been silent for 12 s and has %d teardown-finished events; library goroutines: %v", c.name, cond, n, uniq(where)))
						X.Close()
						P.Close()
						settle()
						return
					}
					out.Count("c16.keepalive_teardowns_before_close", 1)
				}
			}
		}
		// everything that had stopped reading has been ended now
		X.Close()
		P.Close()
		settle()
		// ---- oracle
		if w.sink != nil {
			for _, id := range []string{"X", "P"} {
				if n := w.sink.count("stop.done", id); n != 1 {
					var where []string
					for _, g := range libGoroutines() {
						where = append(where, g.libTop()+":"+g.state)
					}
					sort.Strings(where)
					fail("c16:teardown-incomplete:"+strings.Join(uniq(where), "+"), fmt.Sprintf("connection %s: %d teardown-finished events after it ended (cause %s, condition %s); library goroutines still parked: %v", id, n, cause, cond, uniq(where)))
					return
				}
			}
		}
		// wills: exactly once for every connection whose end was not a DISCONNECT
		if will && cause != "server-close" {
			got := map[uint64]int{}
			for _, d := range publishesIn(wit.fresh()) {
				if d.ok {
					got[d.uid]++
				}
			}
			wantX, wantP := 1, 1
			if cond == "in-full-pipelined" {
				if cause == "disconnect" {
					wantP = 0
				}
			} else if cause == "disconnect" {
				if order == 0 && (cond == "idle" || cond == "out-full" || cond == "in-full" || cond == "in-partial-large") {
					wantX = 0 // X ended by DISCONNECT
				}
				if order == 1 && (cond == "idle" || cond == "in-partial-large" || cond == "own-out-full") {
					wantP = 0
				}
			}
			if got[7001] != wantX || got[7002] != wantP {
				fail("c16:will", fmt.Sprintf("wills seen: X %d (expected %d), P %d (expected %d)", got[7001], wantX, got[7002], wantP))
				return
			}
		}
		_ = blockedX
		if cause != "server-close" {
			// the dead clients' subscriptions stop receiving: a probe reaches nobody and is not an error
			pr, apr := w.connectB("probe", connectOpts{Clean: true, KeepAlive: 600})
			if apr == nil {
				fail("c16:broker-unusable", "a new client cannot connect after the teardown")
				return
			}
			pr.publishB("to/x", 1, false, spec.MakePayload(uids.next(), 0, 30))
			if pr.Closed() || countType(pr.fresh(), rc.PUBACK) != 1 {
				fail("c16:probe", "probe publish to the dead client's filter was not acknowledged")
				return
			}
			// a clean session is gone
			if clean {
				again, aa := w.connectB("Xagain", connectOpts{ClientID: "X", Clean: false, KeepAlive: 600})
				if aa == nil || aa.SessionPresent {
					fail("c16:clean-session-kept", fmt.Sprintf("CleanSession=0 CONNECT after the clean session ended: %v", aa))
					return
				}
				again.Close()
			}
			pr.Close()
			settle()
		}
		// Server.Close returns, and no goroutine of the library remains
		wit.Close()
		settle()
		if !serverClosed {
			done := make(chan struct{})
			go func() {
				defer func() { recover(); close(done) }()
				w.svr.Close()
			}()
			settle()
			select {
			case <-done:
			default:
				fail("c16:server-close-stuck", "Server.Close did not return after all connections had ended")
				return
			}
		}
		settle()
		if left := libGoroutines(); len(left) > 0 {
			var tops []string
			for _, g := range left {
				tops = append(tops, g.libTop()+":"+g.state)
			}
			sort.Strings(tops)
			fail("c16:goroutines-left:"+strings.Join(uniq(tops), "+"), fmt.Sprintf("%d library goroutines remain after every connection ended and Server.Close returned", len(left)))
			return
		}
		_ = r
		out.Count("c16.cells", 1)
		out.Class(fmt.Sprintf("cell/%s/%s/o%d/w%v/c%v", cause, cond, order, will, clean))
		if idx%17 == 0 {
			out.Sample("c16", 4, params)
		}
	})
}

func TestC16(t *testing.T) {
	i := 0
	reps := pick(1, 4)
	for rep := 0; rep < reps; rep++ {
		for _, cause := range c16Causes {
			for _, cond := range append(append([]string{}, c16Conds...), "in-full-pipelined") {
				norder := 2
				if cond == "in-full-pipelined" {
					if cause != "disconnect" && cause != "protocol-error" {
						continue
					}
					norder = 4 // here: four sizes of the traffic behind the ending packet
				}
				for order := 0; order < norder; order++ {
					for _, will := range []bool{false, true} {
						for _, clean := range []bool{true, false} {
							i++
							id := fmt.Sprintf("c16/%s/%s/o%d/w%v/c%v/%d", cause, cond, order, will, clean, rep)
							if !mine(i) || !out.Only(id) {
								continue
							}
							seed := caseSeed("c16", i)
							out.Begin(id, seed, nil)
							c16Cell(t, cause, cond, order, will, clean, seed, i)
							out.End()
						}
					}
				}
			}
		}
	}
}
