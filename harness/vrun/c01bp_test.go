package vrun

import (
	"fmt"
	"testing"

	"verif/harness/out"
	rc "verif/harness/refcodec"
	"verif/harness/spec"
)

// TestC01Backpressure (synctest): a subscriber stops reading while a publisher
// pipelines more than two rings of messages (so the publisher's processor parks
// in the subscriber's full outgoing ring and the publisher's own incoming ring
// fills and laps); then the subscriber resumes. Every subscriber must end up
// with every message exactly once, in order, byte-identical.
func TestC01Backpressure(t *testing.T) {
	n := pick(120, 4000)
	for g := 0; g < n; g++ {
		id := fmt.Sprintf("c01/bp/%d", g)
		if !mine(g) || !out.Only(id) {
			continue
		}
		seed := caseSeed("c01b", g)
		out.Begin(id, seed, nil)
		c01Backpressure(t, g, seed)
		out.End()
	}
}

func c01Backpressure(t *testing.T, idx int, seed uint64) {
	r := spec.NewRand(seed)
	bufSize := []int64{16384, 16384, 65536, 0}[r.Intn(4)]
	ring := int(bufSize)
	if ring == 0 {
		ring = 256 << 10
	}
	limit := ring - 8192 - 64
	nsub := 1 + r.Intn(3)
	stalled := r.Intn(nsub)
	params := map[string]interface{}{"run": idx, "buffer": bufSize, "subscribers": nsub, "stalled": stalled}
	bubble(t, "c01", params, func(cl *cleanup) {
		w := newWorld(worldCfg{BufferSize: bufSize})
		cl.add(w.shutdown)
		fail := func(sig, desc string) { out.Violation(sig, desc, params) }
		var subs []*bclient
		for i := 0; i < nsub; i++ {
			c, a := w.connectB(fmt.Sprintf("bs%d", i), connectOpts{Clean: true, KeepAlive: 60000})
			if a == nil {
				fail("c01:connect", "no CONNACK")
				return
			}
			if sa, _ := c.subscribeB([]string{"bp/#"}, []byte{byte(r.Intn(3))}); sa == nil {
				fail("c01:suback", "no SUBACK")
				return
			}
			subs = append(subs, c)
		}
		pub, a := w.connectB("bp-pub", connectOpts{Clean: true, KeepAlive: 60000})
		if a == nil {
			fail("c01:connect", "no CONNACK")
			return
		}
		subs[stalled].PauseReading()
		// pipeline: unrelated filler first (shifts ring offsets), then the messages
		if r.Bool() {
			pub.SendPacket(&rc.Packet{Type: rc.PUBLISH, Topic: []byte("nobody/listens"), Payload: spec.MakePayload(999999, 0, 17+r.Intn(limit/2))})
		}
		total := 0
		nmsg := 0
		var msgs []bpSent
		var ids idGen
		for total < 3*ring+ring/2 {
			size := []int{17, 300, 4000, limit / 2, limit - 40}[r.Intn(5)]
			if size > limit-40 {
				size = limit - 40
			}
			if size < 17 {
				size = 17
			}
			nmsg++
			q := byte(r.Intn(2)) // QoS 0/1 (QoS 2 would wait for the publisher's PUBREL)
			pk := &rc.Packet{Type: rc.PUBLISH, Topic: []byte(fmt.Sprintf("bp/%d", nmsg%3)), QoS: q, Payload: spec.MakePayload(77, uint32(nmsg), size)}
			if q > 0 {
				pk.ID = ids.next()
			}
			pub.SendPacket(pk)
			msgs = append(msgs, bpSent{uint32(nmsg), size, q})
			total += size + 12
		}
		settle() // everything that can move has moved: processor parked on the stalled subscriber, rings full
		out.Count("c01.bp.bytes_pipelined", int64(total))
		subs[stalled].ResumeReading()
		settle()
		if pub.Closed() {
			fail("c01:connection-lost", "the publisher was disconnected")
			return
		}
		for i, c := range subs {
			if c.Closed() {
				fail("c01:connection-lost", fmt.Sprintf("subscriber %d was disconnected", i))
				return
			}
			if err := c.FrameErr(); err != nil {
				fail("c01:framing", fmt.Sprintf("subscriber %d (stalled=%v) received a malformed stream after backpressure: %v", i, i == stalled, err))
				return
			}
			got := publishesIn(c.fresh())
			k := 0
			for _, d := range got {
				if !d.ok {
					fail("c01:payload", fmt.Sprintf("subscriber %d (stalled=%v): message on %q arrived with a payload that fails its CRC (%d bytes): not byte-identical to what was published", i, i == stalled, d.topic, d.n))
					return
				}
				if k >= len(msgs) || d.seq != msgs[k].seq || d.n != msgs[k].size {
					fail("c01:backpressure-sequence", fmt.Sprintf("subscriber %d (stalled=%v): delivery %d is sequence %d (%d bytes), expected sequence %d (%d bytes)", i, i == stalled, k, d.seq, d.n, seqOf(msgs, k), sizeOf(msgs, k)))
					return
				}
				k++
			}
			if k != len(msgs) {
				fail("c01:missing-delivery", fmt.Sprintf("subscriber %d (stalled=%v) received %d of %d messages after the stall ended", i, i == stalled, k, len(msgs)))
				return
			}
		}
		out.Count("c01.bp.runs", 1)
		out.Count("c01.bp.messages", int64(len(msgs)))
		out.Class(fmt.Sprintf("bp/buf%d/subs%d/stalled%d", bufSize, nsub, stalled))
		if idx < 2 {
			out.Sample("c01.bp", 2, map[string]interface{}{"params": params, "messages": len(msgs), "bytes": total})
		}
	})
}

type bpSent struct {
	seq  uint32
	size int
	qos  byte
}

func seqOf(m []bpSent, k int) uint32 {
	if k < len(m) {
		return m[k].seq
	}
	return 0
}

func sizeOf(m []bpSent, k int) int {
	if k < len(m) {
		return m[k].size
	}
	return 0
}
