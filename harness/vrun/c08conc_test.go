package vrun

import (
	"fmt"
	"sort"
	"sync"
	"sync/atomic"
	"testing"
	"time"

	"github.com/anishathalye/porcupine"

	"verif/harness/out"
	"verif/harness/rawclient"
	rc "verif/harness/refcodec"
	"verif/harness/spec"
)

// Concurrent monitor for C08: one writer per topic publishes retained
// versions 1,2,3,... of different lengths while subscribers keep subscribing
// and unsubscribing; every retained delivery is CRC-checked and the history of
// each topic is checked with porcupine against a register model (a new
// subscription reads the retained version current at some point between its
// SUBSCRIBE being sent and its SUBACK + retained message being read).

type c08In struct {
	topic string
	write bool
	ver   uint32
}

func c08Model() porcupine.Model {
	return porcupine.Model{
		Partition: func(h []porcupine.Operation) [][]porcupine.Operation {
			m := map[string][]porcupine.Operation{}
			var keys []string
			for _, o := range h {
				k := o.Input.(c08In).topic
				if _, ok := m[k]; !ok {
					keys = append(keys, k)
				}
				m[k] = append(m[k], o)
			}
			sort.Strings(keys)
			var r [][]porcupine.Operation
			for _, k := range keys {
				r = append(r, m[k])
			}
			return r
		},
		Init: func() interface{} { return uint32(0) },
		Step: func(st, in, outp interface{}) (bool, interface{}) {
			i := in.(c08In)
			if i.write {
				return true, i.ver
			}
			return outp.(uint32) == st.(uint32), st
		},
		DescribeOperation: func(in, outp interface{}) string {
			i := in.(c08In)
			if i.write {
				return fmt.Sprintf("retain v%d", i.ver)
			}
			return fmt.Sprintf("subscribe -> retained v%d", outp)
		},
	}
}

func c08ConcRun(idx int, seed uint64) {
	r := spec.NewRand(seed)
	ntopics := 1 + r.Intn(2)
	nsub := 2 + r.Intn(3)
	nver := 25 + r.Intn(25)
	params := map[string]interface{}{"run": idx, "topics": ntopics, "subscribers": nsub, "versions": nver}
	w := newWorld(worldCfg{BufferSize: 16384})
	defer w.unregister()
	raceYieldOn = raceEnabled
	defer func() { raceYieldOn = false }()
	var clk int64
	now := func() int64 { return atomic.AddInt64(&clk, 1) }
	var hmu sync.Mutex
	var hist []porcupine.Operation
	var all []*rawclient.Client
	var amu sync.Mutex
	dial := func(name string) *rawclient.Client {
		c := w.dial(name, connectOpts{ClientID: name, Clean: true, KeepAlive: 600})
		amu.Lock()
		all = append(all, c)
		amu.Unlock()
		if c.WaitFor(func(l []rawclient.Event, closed bool) bool { return len(l) > 0 && l[0].P.Type == rc.CONNACK }, 20*time.Second) != nil {
			return nil
		}
		return c
	}
	defer func() {
		amu.Lock()
		for _, c := range all {
			c.Close()
		}
		amu.Unlock()
		func() { defer func() { recover() }(); w.svr.Close() }()
		noLibGoroutines(5 * time.Second)
	}()
	topic := func(t int) string { return fmt.Sprintf("ret/%d", t) }
	var wg sync.WaitGroup
	var bad int32
	stopSubs := make(chan struct{})
	var writers sync.WaitGroup
	for t := 0; t < ntopics; t++ {
		wg.Add(1)
		writers.Add(1)
		go func(t int) {
			defer wg.Done()
			defer writers.Done()
			wr := spec.NewRand(spec.Mix(seed, uint64(10+t)))
			c := dial(fmt.Sprintf("retw%d", t))
			if c == nil {
				atomic.StoreInt32(&bad, 1)
				return
			}
			prev := -1
			for v := 1; v <= nver; v++ {
				size := spec.PayloadMin + wr.Intn(6000) // different lengths: a torn in-place rewrite fails the CRC
				call := now()
				c.SendPacket(&rc.Packet{Type: rc.PUBLISH, QoS: 1, ID: uint16(v), Retain: true, Topic: []byte(topic(t)), Payload: spec.MakePayload(uint64(t+1), uint32(v), size)})
				want := v
				if c.WaitFor(func(l []rawclient.Event, closed bool) bool { return countType(l, rc.PUBACK) >= want }, 20*time.Second) != nil {
					atomic.StoreInt32(&bad, 1)
					return
				}
				// the store is updated before the PUBACK of the NEXT packet at the latest (see C01Conc)
				ret := now()
				hmu.Lock()
				if prev >= 0 {
					hist[prev].Return = ret
				}
				prev = len(hist)
				hist = append(hist, porcupine.Operation{ClientId: t, Input: c08In{topic: topic(t), write: true, ver: uint32(v)}, Call: call, Output: uint32(0), Return: 0})
				hmu.Unlock()
				time.Sleep(time.Duration(wr.Intn(300)) * time.Microsecond)
			}
			c.SendPacket(&rc.Packet{Type: rc.PINGREQ})
			c.WaitFor(func(l []rawclient.Event, closed bool) bool { return countType(l, rc.PINGRESP) >= 1 }, 20*time.Second)
			ret := now()
			hmu.Lock()
			if prev >= 0 {
				hist[prev].Return = ret
			}
			hmu.Unlock()
		}(t)
	}
	var deliveries int64
	for s := 0; s < nsub; s++ {
		wg.Add(1)
		go func(s int) {
			defer wg.Done()
			sr := spec.NewRand(spec.Mix(seed, uint64(50+s)))
			c := dial(fmt.Sprintf("rets%d", s))
			if c == nil {
				atomic.StoreInt32(&bad, 1)
				return
			}
			var id idGen
			lastSeen := map[int]uint32{}
			for k := 0; ; k++ {
				select {
				case <-stopSubs:
					return
				default:
				}
				t := sr.Intn(ntopics)
				mark := c.LogLen()
				sid := id.next()
				call := now()
				c.SendPacket(&rc.Packet{Type: rc.SUBSCRIBE, ID: sid, Filters: [][]byte{[]byte(topic(t))}, QoSs: []byte{byte(sr.Intn(2))}})
				// SUBACK, then a PINGRESP as the barrier behind the retained message
				c.SendPacket(&rc.Packet{Type: rc.PINGREQ})
				if c.WaitFor(func(l []rawclient.Event, closed bool) bool { return countType(l[mark:], rc.PINGRESP) >= 1 }, 20*time.Second) != nil {
					atomic.StoreInt32(&bad, 1)
					return
				}
				ret := now()
				var ver uint32
				nret := 0
				for _, e := range c.Since(mark) {
					if e.P.Type != rc.PUBLISH {
						continue
					}
					uid, v, ok := spec.ParsePayload(e.P.Payload)
					if !ok {
						out.Violation("c08:retained-payload", fmt.Sprintf("subscriber %d: PUBLISH on %q (retain=%v, %d bytes) fails its CRC: assembled from half-updated state", s, e.P.Topic, e.P.Retain, len(e.P.Payload)), params)
						atomic.StoreInt32(&bad, 2)
						return
					}
					if e.P.Retain && int(uid) == t+1 {
						ver = v
						nret++
					}
				}
				if nret > 1 {
					out.Violation("c08:retained-duplicate", fmt.Sprintf("subscriber %d: %d retained messages for one new subscription to %q", s, nret, topic(t)), params)
					atomic.StoreInt32(&bad, 2)
					return
				}
				if ver < lastSeen[t] {
					out.Violation("c08:retained-went-backwards", fmt.Sprintf("subscriber %d: successive subscriptions to %q saw retained version %d after %d", s, topic(t), ver, lastSeen[t]), params)
					atomic.StoreInt32(&bad, 2)
					return
				}
				lastSeen[t] = ver
				atomic.AddInt64(&deliveries, int64(nret))
				hmu.Lock()
				hist = append(hist, porcupine.Operation{ClientId: 10 + s, Input: c08In{topic: topic(t)}, Call: call, Output: ver, Return: ret})
				hmu.Unlock()
				// unsubscribe again so that live forwards do not mix in
				mark = c.LogLen()
				c.SendPacket(&rc.Packet{Type: rc.UNSUBSCRIBE, ID: id.next(), Filters: [][]byte{[]byte(topic(t))}})
				if c.WaitFor(func(l []rawclient.Event, closed bool) bool { return countType(l[mark:], rc.UNSUBACK) >= 1 }, 20*time.Second) != nil {
					atomic.StoreInt32(&bad, 1)
					return
				}
			}
		}(s)
	}
	writers.Wait()
	close(stopSubs)
	wg.Wait()
	switch atomic.LoadInt32(&bad) {
	case 1:
		out.Inconclusive("a client did not get its acknowledgement in time", params)
		return
	case 2:
		return
	}
	// live forwards between SUBACK and UNSUBACK may also carry a newer version with retain=0: they were
	// not counted as retained deliveries above (retain flag must be 0 on them, checked in the sequential monitor)
	res, _ := porcupine.CheckOperationsVerbose(c08Model(), hist, 60*time.Second)
	out.Count("c08.conc.histories", 1)
	out.Count("c08.conc.ops", int64(len(hist)))
	out.Count("c08.conc.retained_deliveries", atomic.LoadInt64(&deliveries))
	switch res {
	case porcupine.Illegal:
		m := c08Model()
		var badp []string
		for _, part := range m.Partition(hist) {
			if porcupine.CheckOperations(porcupine.Model{Init: m.Init, Step: m.Step}, part) {
				continue
			}
			sort.Slice(part, func(a, b int) bool { return part[a].Call < part[b].Call })
			for _, o := range part {
				badp = append(badp, fmt.Sprintf("[%d,%d] %s", o.Call, o.Return, m.DescribeOperation(o.Input, o.Output)))
			}
			break
		}
		if len(badp) > 100 {
			badp = badp[:100]
		}
		out.Violation("c08:not-linearizable", "a new subscription received a retained version that was not current at any moment between its SUBSCRIBE and its SUBACK (register model per topic)", map[string]interface{}{"params": params, "partition_history": badp})
	case porcupine.Unknown:
		out.Inconclusive("porcupine timed out", params)
	default:
		out.Class(fmt.Sprintf("conc/t%d/s%d/v%d", ntopics, nsub, nver/10))
	}
	if idx < 2 {
		out.Sample("c08.conc", 2, map[string]interface{}{"params": params, "operations": len(hist), "retained_deliveries": atomic.LoadInt64(&deliveries)})
	}
}

func TestC08Conc(t *testing.T) {
	n := pick(120, 6000)
	if raceEnabled {
		n = pick(40, 1000)
	}
	for g := 0; g < n; g++ {
		id := fmt.Sprintf("c08/conc/%d", g)
		if !mine(g) || !out.Only(id) {
			continue
		}
		seed := caseSeed("c08c", g)
		out.Begin(id, seed, nil)
		c08ConcRun(g, seed)
		out.End()
	}
}
