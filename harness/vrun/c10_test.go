package vrun

import (
	"fmt"
	"net"
	"sort"
	"strings"
	"testing"

	"verif/harness/chaos"
	"verif/harness/out"
	"verif/harness/rawclient"
	rc "verif/harness/refcodec"
	"verif/harness/spec"
)

var c10IDs = []string{"s", "s1", "t"}
var c10Filters = []string{"p/1", "p/+", "p/#", "q/x", "q/+/z", "w"}
var c10Probes = []string{"p/1", "p/2", "p/2/3", "q/x", "q/a/z", "w", "z"}

func c10History(t *testing.T, idx int, seed uint64) {
	r := spec.NewRand(seed)
	steps := 12 + r.Intn(25)
	params := map[string]interface{}{"history": idx, "steps": steps}
	var ops []string
	bubble(t, "c10", params, func(cl *cleanup) {
		w := newWorld(worldCfg{BufferSize: 16384})
		cl.add(w.shutdown)
		fail := func(sig, desc string) {
			o := ops
			if len(o) > 30 {
				o = o[len(o)-30:]
			}
			out.Violation(sig, desc, map[string]interface{}{"params": params, "last_ops": o})
		}
		prober, ack := w.connectB("prober", connectOpts{Clean: true, KeepAlive: 6000})
		if ack == nil {
			fail("c10:connect", "prober got no CONNACK")
			return
		}
		var uids uidGen
		stored := map[string]map[string]byte{} // model: id -> kept subscriptions (CleanSession=0 state)
		live := map[string]*bclient{}
		liveClean := map[string]bool{}
		// probe publishes: every live client must receive exactly what its model says
		probe := func(why string) bool {
			for _, name := range c10Probes {
				uid := uids.next()
				prober.publishB(name, 2, false, spec.MakePayload(uid, 0, 30))
				prober.fresh()
				for id, c := range live {
					if c.Closed() {
						fail("c10:connection-lost", id+" lost its connection")
						return false
					}
					got := publishesIn(c.fresh())
					var desc []string
					if sig := c01Check(id, c.subs, name, 2, got, uid, &desc); sig != "" {
						fail("c10:subscriptions:"+strings.TrimPrefix(sig, "c01:"), why+": "+strings.Join(desc, "; "))
						return false
					}
				}
				out.Count("c10.probes", 1)
			}
			return true
		}
		for s := 0; s < steps; s++ {
			id := c10IDs[r.Intn(len(c10IDs))]
			c := live[id]
			_, hasState := stored[id]
			switch op := r.Intn(10); {
			case c == nil && hasState && r.Intn(4) == 0:
				// a resume attempt whose transport dies before the CONNACK is out: the broker has read the
				// CONNECT, its answer cannot be written. The kept state must survive the attempt.
				after := int64(r.Intn(4)) // 0..3 of the 4 CONNACK bytes get through
				ops = append(ops, fmt.Sprintf("%s CONNECT clean=false, transport fails after %d answer bytes", id, after))
				cside, sside := net.Pipe()
				cc := chaos.Wrap(sside)
				cc.FailWriteAfter, cc.CloseOnFail = after, true
				w.serveConn(cc)
				fc := rawclient.New(id+"-failing", cside, nil)
				fc.SendPacket(connectPacket(connectOpts{ClientID: id, Clean: false, KeepAlive: 600}))
				settle()
				if !fc.Closed() {
					fail("c10:harness", "the failing transport was not closed")
					return
				}
				fc.Close()
				settle()
				out.Count("c10.failed_resume_attempts", 1)
				if !probe("after a resume attempt of " + id + " whose CONNACK could not be written") {
					return
				}
			case c == nil: // connect
				clean := r.Intn(3) == 0
				ops = append(ops, fmt.Sprintf("%s CONNECT clean=%v", id, clean))
				// the CONNECT packets of one client differ in length from connection to connection (credentials
				// of 0..250 bytes come and go), as a client's may
				// every fifth connection speaks MQTT 3.1 (protocol level 3)
				co := connectOpts{ClientID: id, Clean: clean, KeepAlive: 600, Level3: r.Intn(5) == 0}
				if co.Level3 {
					out.Count("c10.connects_level3", 1)
				}
				if r.Intn(3) > 0 {
					co.User, co.Pass = "user-"+strings.Repeat("x", r.Intn(120)), "p"+strings.Repeat("y", r.Intn(120))
				}
				// every third CONNECT carries a will (on a topic nobody subscribes to): the session flags
				// stand next to the will flags in the CONNECT
				if r.Intn(3) == 0 {
					co.Will = &rc.Packet{Topic: []byte("c10will/" + id), QoS: byte(r.Intn(3)), Retain: r.Bool(), Payload: []byte("gone")}
					out.Count("c10.connects_with_will", 1)
				}
				nc, ack := w.connectB(id, co)
				if ack == nil || ack.ReturnCode != 0 {
					fail("c10:connect", fmt.Sprintf("%s: no CONNACK 0 (%v)", id, ack))
					return
				}
				_, had := stored[id]
				wantSP := !clean && had
				if ack.SessionPresent != wantSP {
					fail("c10:session-present", fmt.Sprintf("%s CONNECT clean=%v: SessionPresent=%v, expected %v (state kept from an earlier CleanSession=0 connection: %v)", id, clean, ack.SessionPresent, wantSP, had))
					return
				}
				if clean {
					delete(stored, id)
				} else {
					if !had {
						stored[id] = map[string]byte{}
					}
					for f, q := range stored[id] {
						nc.subs[f] = q
					}
				}
				live[id] = nc
				liveClean[id] = clean
				// the new connection answers its first request, then everything must be in place
				nc.SendPacket(&rc.Packet{Type: rc.PINGREQ})
				settle()
				if countType(nc.fresh(), rc.PINGRESP) != 1 {
					fail("c10:ping", id+": no PINGRESP")
					return
				}
				if !probe(fmt.Sprintf("after %s reconnected (clean=%v, SessionPresent=%v) without re-subscribing", id, clean, ack.SessionPresent)) {
					return
				}
				out.Count("c10.connects", 1)
				out.Class(fmt.Sprintf("connect/clean%v/had%v/nsubs%d", clean, had, len(nc.subs)))
			case op < 4: // subscribe
				f := c10Filters[r.Intn(len(c10Filters))]
				q := byte(r.Intn(3))
				ops = append(ops, fmt.Sprintf("%s SUBSCRIBE %q q%d", id, f, q))
				// every fourth request also lists a filter the broker refuses (a '$' filter or a malformed one):
				// it is answered 0x80 and is no part of the session, which must stay resumable
				fs, qs := []string{f}, []byte{q}
				if r.Intn(4) == 0 {
					bad := []string{"$SYS/#", "p/b#", "p/#/x", "$share/g/p/1"}[r.Intn(4)]
					if r.Bool() {
						fs, qs = []string{bad, f}, []byte{1, q}
					} else {
						fs, qs = []string{f, bad}, []byte{q, 1}
					}
					out.Count("c10.subscribes_with_refused_filter", 1)
				}
				a, _ := c.subscribeB(fs, qs)
				if a == nil || len(a.Codes) != len(fs) {
					fail("c10:suback", fmt.Sprintf("%s: SUBACK %v", id, a))
					return
				}
				for i, code := range a.Codes {
					if fs[i] != f {
						if code != 0x80 {
							fail("c10:suback", fmt.Sprintf("%s: filter %q granted (%d)", id, fs[i], code))
							return
						}
						continue
					}
					if code > 2 {
						fail("c10:suback", fmt.Sprintf("%s: SUBACK %v", id, a))
						return
					}
					c.subs[f] = code
					if !liveClean[id] {
						stored[id][f] = code
					}
				}
			case op < 6: // unsubscribe
				var fs []string
				for f := range c.subs {
					fs = append(fs, f)
				}
				if len(fs) == 0 {
					continue
				}
				sort.Strings(fs)
				f := fs[r.Intn(len(fs))]
				ops = append(ops, fmt.Sprintf("%s UNSUBSCRIBE %q", id, f))
				if a, _ := c.unsubscribeB([]string{f}); a == nil {
					fail("c10:unsuback", id+": no UNSUBACK")
					return
				}
				delete(c.subs, f)
				if !liveClean[id] {
					delete(stored[id], f)
				}
			case op < 8: // end the connection
				how := "DISCONNECT"
				if r.Bool() {
					how = "abrupt close"
				} else {
					c.SendPacket(&rc.Packet{Type: rc.DISCONNECT})
					settle()
				}
				ops = append(ops, id+" "+how)
				c.Close()
				settle()
				delete(live, id)
				if liveClean[id] {
					delete(stored, id) // nothing of a clean session survives its end
				}
				if !probe("after " + id + " ended") {
					return
				}
			default:
				if !probe("mid-history") {
					return
				}
			}
		}
		out.Count("c10.histories", 1)
		if idx%60 == 0 {
			o := ops
			if len(o) > 14 {
				o = o[:14]
			}
			out.Sample("c10", 3, map[string]interface{}{"ops": o})
		}
	})
}

func TestC10(t *testing.T) {
	n := pick(1600, 50000)
	for h := 0; h < n; h++ {
		id := fmt.Sprintf("c10/%d", h)
		if !mine(h) || !out.Only(id) {
			continue
		}
		seed := caseSeed("c10", h)
		out.Begin(id, seed, nil)
		c10History(t, h, seed)
		out.End()
	}
}
