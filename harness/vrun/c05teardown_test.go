package vrun

import (
	"fmt"
	"sort"
	"strings"
	"sync"
	"sync/atomic"
	"testing"
	"time"

	"verif/harness/out"
	"verif/harness/rawclient"
	rc "verif/harness/refcodec"
	"verif/harness/spec"
)

// TestC05Teardown: several well-behaved publishers are delivering to one
// subscriber that has stopped reading (its outgoing ring is full, one delivery
// is parked for space, the others queue behind it) at the moment that
// subscriber's connection is cut. Every publisher's connection must stay open
// and keep working, and a witness must go on receiving exactly what it should.
// In-process broker over net.Pipe with 16 KiB rings, real time; the barriers are
// PINGREQ/PINGRESP round trips.
func c05Teardown(idx int, seed uint64) {
	r := spec.NewRand(seed)
	npub := 2 + r.Intn(5)
	rounds := 6 + r.Intn(6)
	params := map[string]interface{}{"case": idx, "publishers": npub, "rounds": rounds}
	fail := func(sig, desc string) { out.Violation(sig, desc, params) }
	w := newWorld(worldCfg{BufferSize: 16384})
	defer w.shutdown()
	const wait = 20 * time.Second
	connect := func(name string, pol rawclient.AckPolicy) *rawclient.Client {
		c := w.dial(name, connectOpts{ClientID: name, Clean: true, KeepAlive: 6000, Policy: pol})
		if c.WaitFor(func(l []rawclient.Event, closed bool) bool { return len(l) > 0 }, wait) != nil || c.Log()[0].P.Type != rc.CONNACK {
			return nil
		}
		return c
	}
	// a PINGREQ that went unanswered while the publisher was held up is answered later: the barrier is
	// "as many PINGRESPs as PINGREQs sent", not "one more than before"
	var pmu sync.Mutex
	sent := map[*rawclient.Client]int{}
	pingOK := func(c *rawclient.Client, d time.Duration) bool {
		pmu.Lock()
		sent[c]++
		n := sent[c]
		pmu.Unlock()
		c.SendPacket(&rc.Packet{Type: rc.PINGREQ})
		return c.WaitFor(func(l []rawclient.Event, closed bool) bool { return countType(l, rc.PINGRESP) >= n }, d) == nil
	}
	wit := connect("witness", nil)
	if wit == nil {
		out.Inconclusive("c05teardown: witness", params)
		return
	}
	wit.SendPacket(&rc.Packet{Type: rc.SUBSCRIBE, ID: 1, Filters: [][]byte{[]byte("ok/#")}, QoSs: []byte{0}})
	wit.WaitFor(func(l []rawclient.Event, closed bool) bool { return countType(l, rc.SUBACK) == 1 }, wait)
	pubs := make([]*rawclient.Client, npub)
	for i := range pubs {
		if pubs[i] = connect(fmt.Sprintf("p%d", i), nil); pubs[i] == nil {
			out.Inconclusive("c05teardown: publisher", params)
			return
		}
	}
	uid := uint64(0)
	for rd := 0; rd < rounds; rd++ {
		V := connect(fmt.Sprintf("v%d", rd), rawclient.AckNone)
		if V == nil {
			out.Inconclusive("c05teardown: victim", params)
			return
		}
		V.SendPacket(&rc.Packet{Type: rc.SUBSCRIBE, ID: 1, Filters: [][]byte{[]byte("flood/a")}, QoSs: []byte{0}})
		if V.WaitFor(func(l []rawclient.Event, closed bool) bool { return countType(l, rc.SUBACK) == 1 }, wait) != nil {
			out.Inconclusive("c05teardown: victim SUBACK", params)
			return
		}
		V.PauseReading()
		// every other round a second subscriber of the same topic, behind V in the fan-out: it leaves
		// in good order while the publishers are held up on V, so that their deliveries reach a
		// connection whose teardown has finished completely
		var S2 *rawclient.Client
		s2name := fmt.Sprintf("s2-%d-%d", idx, rd)
		if rd%2 == 1 {
			if S2 = connect(s2name, nil); S2 == nil {
				out.Inconclusive("c05teardown: second subscriber", params)
				return
			}
			S2.SendPacket(&rc.Packet{Type: rc.SUBSCRIBE, ID: 1, Filters: [][]byte{[]byte("flood/a")}, QoSs: []byte{0}})
			if S2.WaitFor(func(l []rawclient.Event, closed bool) bool { return countType(l, rc.SUBACK) == 1 }, wait) != nil {
				out.Inconclusive("c05teardown: second subscriber SUBACK", params)
				return
			}
		}
		// all publishers flood the victim's topic until the cut
		var stop atomic.Bool
		var wg sync.WaitGroup
		size := []int{200, 1000, 3000}[r.Intn(3)]
		for i, p := range pubs {
			wg.Add(1)
			go func(i int, p *rawclient.Client) {
				defer wg.Done()
				pl := spec.MakePayload(uint64(1000+i), 0, size)
				for k := 0; k < 400 && !stop.Load(); k++ {
					p.SendPacket(&rc.Packet{Type: rc.PUBLISH, Topic: []byte("flood/a"), Payload: pl})
					if k%16 == 15 {
						time.Sleep(200 * time.Microsecond)
					}
				}
			}(i, p)
		}
		// wait until the publishers are really held up by the victim (a ping goes unanswered for a while)
		stalled := false
		for t := 0; t < 40 && !stalled; t++ {
			stalled = !pingOK(pubs[0], 30*time.Millisecond)
		}
		if stalled {
			out.Count("c05.teardown_stalled_rounds", 1)
		}
		if S2 != nil {
			S2.SendPacket(&rc.Packet{Type: rc.DISCONNECT})
			S2.Flush()
			S2.Close()
			if w.sink != nil && !w.sink.waitCount("stop.done", s2name, 1, wait) {
				out.Inconclusive("c05teardown: teardown of the second subscriber not observed", params)
				return
			}
			out.Count("c05.teardown_second_subscriber_gone_first", 1)
		}
		time.Sleep(time.Duration(r.Intn(3000)) * time.Microsecond)
		if rd%3 == 2 {
			// the stalled subscriber sends one more request before it goes: its own processor then waits
			// for the connection's write mutex behind the publisher that is parked on its ring
			V.SendPacket(&rc.Packet{Type: rc.PINGREQ})
			V.Flush()
			time.Sleep(2 * time.Millisecond)
			out.Count("c05.teardown_request_pending_at_cut", 1)
		}
		V.Close() // the cut
		stop.Store(true)
		wg.Wait()
		for i, p := range pubs {
			if !pingOK(p, wait) {
				sig, how := "c05:bystander-stuck", "does not answer a PINGREQ any more"
				if p.Closed() {
					sig, how = "c05:bystander-disconnected", "was disconnected by the broker"
				}
				fail(sig, fmt.Sprintf("round %d: %d publishers were delivering to a subscriber that had stopped reading when that subscriber's connection was cut; publisher %d %s", rd, npub, i, how))
				return
			}
		}
		// everybody still works: one marker each, the witness gets each exactly once
		marks := map[uint64]bool{}
		for i, p := range pubs {
			uid++
			marks[uid] = true
			p.SendPacket(&rc.Packet{Type: rc.PUBLISH, Topic: []byte(fmt.Sprintf("ok/%d", i)), Payload: spec.MakePayload(uid, 0, 40)})
			if !pingOK(p, wait) {
				fail("c05:bystander-stuck", fmt.Sprintf("round %d: publisher %d stopped answering after the cut", rd, i))
				return
			}
		}
		if !pingOK(wit, wait) {
			fail("c05:bystander-stuck", "the witness does not answer a PINGREQ")
			return
		}
		got := map[uint64]int{}
		for _, e := range wit.Log() {
			if e.P.Type == rc.PUBLISH {
				if d := decodeDelivery(e.P); d.ok {
					got[d.uid]++
				} else {
					fail("c05:bystander-corrupt", "the witness received a corrupted message")
					return
				}
			}
		}
		for u := range marks {
			if got[u] != 1 {
				fail("c05:bystander-missed", fmt.Sprintf("round %d: a message published after the cut reached the witness %d times", rd, got[u]))
				return
			}
		}
		out.Count("c05.teardown_rounds", 1)
	}
	// at the end everybody leaves: every teardown finishes, Server.Close returns, nothing remains
	for _, p := range pubs {
		p.Close()
	}
	wit.Close()
	if w.sink != nil {
		for i := range pubs {
			if !w.sink.waitCount("stop.done", fmt.Sprintf("p%d", i), 1, wait) {
				var tops []string
				for _, g := range libGoroutines() {
					tops = append(tops, g.libTop()+":"+g.state)
				}
				sort.Strings(tops)
				fail("c16:teardown-incomplete:"+strings.Join(uniq(tops), "+"), fmt.Sprintf("publisher %d closed its connection after the rounds; its teardown did not finish; library goroutines: %v", i, uniq(tops)))
				return
			}
		}
	}
	closed := make(chan struct{})
	go func() { defer close(closed); defer func() { recover() }(); w.svr.Close() }()
	select {
	case <-closed:
	case <-time.After(wait):
		fail("c16:server-close-stuck", "Server.Close did not return after all connections had ended")
		return
	}
	if left := noLibGoroutines(3 * time.Second); len(left) > 0 {
		var tops []string
		for _, g := range left {
			tops = append(tops, g.libTop()+":"+g.state)
		}
		sort.Strings(tops)
		fail("c16:goroutines-left:"+strings.Join(uniq(tops), "+"), fmt.Sprintf("%d library goroutines remain after every connection ended and Server.Close returned", len(left)))
		return
	}
	out.Count("c05.teardown_cases", 1)
	out.Class(fmt.Sprintf("teardown/p%d", npub))
}

func TestC05Teardown(t *testing.T) {
	n := pick(24, 600)
	for g := 0; g < n; g++ {
		id := fmt.Sprintf("c05/teardown/%d", g)
		if !mine(g) || !out.Only(id) {
			continue
		}
		seed := caseSeed("c05t", g)
		out.Begin(id, seed, nil)
		c05Teardown(g, seed)
		out.End()
	}
}
