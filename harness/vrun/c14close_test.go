package vrun

import (
	"fmt"
	"sync/atomic"
	"testing"
	"time"

	"verif/harness/out"
)

// TestC14Close: the producer is parked waiting for space (the ring holds unread
// bytes in the region it asked for) when the ring is closed; the consumer then
// takes what is buffered. What it obtains must still be a prefix of what was
// committed, and a slice it peeked before the close must be unchanged: a closed
// ring must not let the woken producer into the unread region.
func c14CloseCell(size, offset, fill int64, pop string, extra int64, cop string, seed uint64, detail map[string]interface{}) bool {
	fail := func(sig, desc string) bool { out.Violation(sig, desc, detail); return false }
	b := prepRing(size, offset, fill, seed)
	free := size - fill
	n := free + extra
	if n > size {
		n = size
	}
	if pop == "ReadFrom" {
		n = 8192 // ReadFrom always reserves one block
		if free >= n {
			return true
		}
	}
	var held []byte
	heldLen := int64(0)
	if cop == "peek-held" {
		want := fill
		if want > 3000 {
			want = 3000
		}
		p, err := b.ReadPeek(int(want))
		if err != nil || int64(len(p)) != want {
			return fail("c14:close:peek", fmt.Sprintf("ReadPeek(%d) on a ring holding %d bytes: %d bytes, %v", want, fill, len(p), err))
		}
		held, heldLen = p, want
		if i := verifyStream(held, seed, offset); i >= 0 {
			return fail("c14:stream:ReadPeek", fmt.Sprintf("peeked byte at stream position %d is wrong", offset+int64(i)))
		}
	}
	var pid, pdone int64
	var committed int64 // bytes the producer was told are committed
	go func() {
		atomic.StoreInt64(&pid, int64(goid()))
		defer atomic.StoreInt64(&pdone, 1)
		switch pop {
		case "Write":
			p := make([]byte, n)
			fillStream(p, seed, offset+fill)
			if k, err := b.Write(p); err == nil {
				atomic.StoreInt64(&committed, int64(k))
			}
		case "WriteWait":
			buf, wrap, err := b.WriteWait(int(n))
			if err != nil {
				return
			}
			if wrap {
				p := make([]byte, n)
				fillStream(p, seed, offset+fill)
				if k, err := b.Write(p); err == nil {
					atomic.StoreInt64(&committed, int64(k))
				}
				return
			}
			fillStream(buf[:n], seed, offset+fill)
			if k, err := b.WriteCommit(int(n)); err == nil {
				atomic.StoreInt64(&committed, int64(k))
			}
		case "ReadFrom":
			// what the reader handed out bounds what can have been committed (the count ReadFrom
			// returns is not used: it is 0 whenever the call ends while waiting for room)
			sr := &streamReader{seed: seed, pos: offset + fill, end: offset + fill + n, final: errStop}
			b.ReadFrom(sr)
			atomic.StoreInt64(&committed, sr.pos-(offset+fill))
		}
	}()
	if !waitParked(&pid, &pdone, 2*time.Second) || atomic.LoadInt64(&pdone) != 0 {
		out.Inconclusive("c14close: the producer did not park", detail)
		b.Close()
		return false
	}
	b.Close()
	if !waitFlag(&pdone, 5*time.Second) {
		out.Inconclusive("c14close: the producer did not return after Close (C15 decides that)", detail)
		return false
	}
	got := atomic.LoadInt64(&committed)
	if l := int64(b.Len()); l > size {
		return fail("c14:close:len", fmt.Sprintf("Len()=%d exceeds the ring size %d after a producer waiting for space was ended by Close", l, size))
	}
	if held != nil {
		if i := verifyStream(held, seed, offset); i >= 0 {
			return fail("c14:overwrite:peeked", fmt.Sprintf("a slice peeked before Close changed while uncommitted: stream position %d (producer %s of %d bytes was waiting for space)", offset+int64(i), pop, n))
		}
		if k, err := b.ReadCommit(int(heldLen)); err != nil || int64(k) != heldLen {
			return fail("c14:close:commit", fmt.Sprintf("ReadCommit(%d) = %d, %v", heldLen, k, err))
		}
	}
	// drain
	pos := offset + heldLen
	tmp := make([]byte, 1777)
	for steps := 0; steps < 1000; steps++ {
		l := b.Len()
		if l <= 0 {
			break
		}
		var p []byte
		switch cop {
		case "Read":
			k, err := b.Read(tmp)
			p = tmp[:k]
			if k == 0 && err != nil {
				l = 0
			}
		default: // ReadPeek / ReadWait / peek-held: peek + commit
			want := len(tmp)
			if l < want {
				want = l
			}
			var err error
			if cop == "ReadWait" {
				p, err = b.ReadWait(want)
			} else {
				p, err = b.ReadPeek(want)
			}
			if len(p) == 0 {
				_ = err
				l = 0
				break
			}
			if i := verifyStream(p, seed, pos); i < 0 {
				if k, err := b.ReadCommit(len(p)); err != nil || k != len(p) {
					return fail("c14:close:commit", fmt.Sprintf("ReadCommit(%d) = %d, %v", len(p), k, err))
				}
			}
		}
		if l == 0 {
			break
		}
		if i := verifyStream(p, seed, pos); i >= 0 {
			return fail("c14:stream:"+cop, fmt.Sprintf("after Close: byte at stream position %d is wrong (consumer position %d; ring held positions %d..%d, producer %s of %d bytes was waiting for space and was told %d committed)", pos+int64(i), pos, offset, offset+fill, pop, n, got))
		}
		pos += int64(len(p))
	}
	if pos > offset+fill+got {
		return fail("c14:close:more", fmt.Sprintf("the consumer obtained %d bytes, only %d were committed", pos-offset, fill+got))
	}
	out.Count("c14.close.cells", 1)
	out.Count("c14.close.drained", pos-offset)
	return true
}

func TestC14Close(t *testing.T) {
	i := 0
	for _, size := range []int64{16384, 32768} {
		type st struct{ off, fill int64 }
		states := []st{{0, size}, {100, size}, {size - 500, size}, {8192, size}, {3*size - 1, size}, {100, size - 1}, {size - 500, size - 4000}, {8000, size - 8191}, {300, size / 2}}
		for _, s := range states {
			for _, pop := range c14ProdOps {
				for _, extra := range []int64{1, 300, 8192} {
					for _, cop := range []string{"Read", "ReadPeek", "ReadWait", "peek-held"} {
						i++
						id := fmt.Sprintf("c14/close/%d/%d/%d/%s/%d/%s", size, s.off, s.fill, pop, extra, cop)
						if !mine(i) || !out.Only(id) {
							continue
						}
						if pop == "ReadFrom" && extra != 1 {
							continue
						}
						seed := caseSeed("c14c", i)
						out.Begin(id, seed, nil)
						detail := map[string]interface{}{"size": size, "offset": s.off, "fill": s.fill, "producer": pop, "extra": extra, "consumer": cop}
						func() {
							defer func() {
								if r := recover(); r != nil {
									site, class := panicSite(r)
									out.Violation("c14:panic:"+site+":"+class, fmt.Sprint(r), detail)
								}
							}()
							if c14CloseCell(size, s.off, s.fill, pop, extra, cop, seed, detail) {
								out.Class(fmt.Sprintf("close/%d/%d/%d/%s/%d/%s", size, s.off, s.fill, pop, extra, cop))
							}
						}()
						out.End()
					}
				}
			}
		}
	}
}
