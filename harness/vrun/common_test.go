package vrun

import (
	"fmt"
	"os"
	"runtime"
	"runtime/debug"
	"strings"
	"sync"
	"testing"
	"time"

	logging "github.com/mdzio/go-logging"

	"verif/harness/out"
	"verif/harness/spec"
)

var (
	baseSeed uint64
	tier     string
	batch    int
	nbatch   int
)

func TestMain(m *testing.M) {
	logging.SetLevel(logging.OffLevel)
	if v := os.Getenv("VERIF_LOG"); v != "" {
		logging.SetLevel(logging.TraceLevel)
		if v == "mem" {
			logging.SetWriter(&memLog)
		}
	}
	baseSeed = out.EnvU64("VERIF_SEED", 1)
	tier = out.EnvStr("VERIF_TIER", "quick")
	batch = out.EnvInt("VERIF_BATCH", 0)
	nbatch = out.EnvInt("VERIF_NBATCH", 1)
	debug.SetTraceback("all")
	go deadlockWatchdog()
	code := m.Run()
	// In the -race build the testing package fails a test during which the
	// detector reported anything; the reports themselves are read from the
	// GORACE log by the driver, so the child still ended in an orderly way.
	out.Done()
	os.Exit(code)
}

type memLogT struct {
	mu sync.Mutex
	b  []byte
}

func (m *memLogT) Write(p []byte) (int, error) {
	m.mu.Lock()
	m.b = append(m.b, p...)
	m.mu.Unlock()
	return len(p), nil
}

var memLog memLogT

func dumpMemLog() {
	if os.Getenv("VERIF_LOG") == "" {
		return
	}
	for _, g := range libGoroutines() {
		os.Stderr.WriteString(g.stack + "\n\n")
	}
	memLog.mu.Lock()
	os.Stderr.Write(memLog.b)
	memLog.b = nil
	memLog.mu.Unlock()
}

func thorough() bool { return tier == "thorough" }

// pick returns q in the quick tier and t in the thorough tier.
func pick(q, t int) int {
	if thorough() {
		return t
	}
	return q
}

// caseSeed derives the seed of case i of the named family.
func caseSeed(family string, i int) uint64 {
	h := baseSeed
	for _, c := range []byte(family) {
		h = spec.Mix(h, uint64(c))
	}
	return spec.Mix(h, uint64(i))
}

// mine reports whether case i belongs to this batch.
func mine(i int) bool { return nbatch <= 1 || i%nbatch == batch }

// guard runs f and converts a panic into a violation record with a signature
// naming the innermost library frame.
func guard(sigPrefix string, detail interface{}, f func()) (panicked bool) {
	defer func() {
		if r := recover(); r != nil {
			panicked = true
			site, class := panicSite(r)
			out.Violation(sigPrefix+":panic:"+site+":"+class, fmt.Sprintf("panic: %v", r), detail)
		}
	}()
	f()
	return false
}

// panicSite returns the innermost frame under the library's import path on the
// panicking goroutine's stack, and a coarse class of the runtime error.
func panicSite(r interface{}) (string, string) {
	class := "other"
	msg := fmt.Sprint(r)
	switch {
	case strings.Contains(msg, "index out of range"):
		class = "index"
	case strings.Contains(msg, "slice bounds out of range"):
		class = "slice"
	case strings.Contains(msg, "nil pointer"):
		class = "nil"
	case strings.Contains(msg, "makeslice"):
		class = "makeslice"
	}
	pcs := make([]uintptr, 64)
	n := runtime.Callers(3, pcs)
	fr := runtime.CallersFrames(pcs[:n])
	for {
		f, more := fr.Next()
		if strings.HasPrefix(f.Function, "github.com/mdzio/go-mqtt/") {
			fn := strings.TrimPrefix(f.Function, "github.com/mdzio/go-mqtt/")
			return fn, class
		}
		if !more {
			break
		}
	}
	return "unknown", class
}

func hex(b []byte) string {
	const max = 96
	if len(b) > max {
		return fmt.Sprintf("%x...(%d bytes)", b[:max], len(b))
	}
	return fmt.Sprintf("%x", b)
}

// progress is bumped by out.Begin through caseCounter; the watchdog below runs
// outside every synctest bubble, in real time.
var watchdogOff int32

// deadlockWatchdog turns "the whole child stopped making progress because
// goroutines are parked on sync primitives" into a located violation instead of
// a watchdog timeout: if the current case has not changed for a while and two
// snapshots show every goroutine (but this one) parked with identical stacks,
// no enabled action is left in the process.
func deadlockWatchdog() {
	last := int64(-1)
	var since time.Time
	for {
		time.Sleep(500 * time.Millisecond)
		cur := out.CaseCounter()
		if cur != last {
			last, since = cur, time.Now()
			continue
		}
		if time.Since(since) < 20*time.Second {
			continue
		}
		a := parkedSignature()
		if a == "" {
			// not everybody is parked: perhaps one goroutine of the library runs in a loop that nothing can end
			if g, common := spinningLibGoroutine(cur); g != nil {
				out.Violation("livelock:"+strings.Join(common, "<"), fmt.Sprintf("no case has finished for %v; every goroutine is parked except one of the library's, which has been running in %s through 6 snapshots a second apart (state %s): it loops without anything in the process being able to end the loop", time.Since(since).Round(time.Second), strings.Join(common, " < "), g.state), map[string]interface{}{"stack": g.stack})
				out.Note("livelock watchdog: ending the child")
				out.Done()
				os.Exit(0)
			}
			continue
		}
		time.Sleep(400 * time.Millisecond)
		if b := parkedSignature(); b == "" || a != b || out.CaseCounter() != cur {
			continue
		}
		// a genuine process-wide deadlock
		var stuck []*gInfo
		me := goid()
		for id, g := range snapshot() {
			if id != me && g.hasLibFrame() {
				stuck = append(stuck, g)
			}
		}
		reportStuck("deadlock", stuck, map[string]interface{}{"note": "process-wide: every goroutine parked on a sync primitive or channel, no timers pending that could wake them"})
		out.Note("deadlock watchdog: ending the child")
		out.Done()
		os.Exit(0)
	}
}

// spinningLibGoroutine: six snapshots one second apart, in each of which exactly one goroutine (the same
// one) is not parked, that goroutine was started by the library and has library frames, and the case counter has not moved. It returns
// that goroutine and the library functions that were on its stack every time (innermost first).
func spinningLibGoroutine(cur int64) (*gInfo, []string) {
	var gid int
	var last *gInfo
	var common []string
	for k := 0; k < 6; k++ {
		if k > 0 {
			time.Sleep(time.Second)
		}
		if out.CaseCounter() != cur {
			return nil, nil
		}
		me := goid()
		var running []*gInfo
		var rid int
		for id, g := range snapshot() {
			if id == me {
				continue
			}
			if strings.Contains(g.stack, "rawclient.(*Client).WaitFor") || strings.Contains(g.stack, "eventSink).waitCount") || strings.Contains(g.stack, "vrun.stuckVerdict") {
				return nil, nil
			}
			st := g.state
			if parkedState(st) || strings.HasPrefix(st, "GC ") || strings.HasSuffix(st, "(idle)") || st == "idle" || st == "finalizer wait" || st == "cleanup wait" || st == "debug call" || st == "trace reader (blocked)" {
				continue
			}
			if strings.Contains(g.stack, "os/signal.") || strings.Contains(g.stack, "runtime.ensureSigM") {
				continue
			}
			running = append(running, g)
			rid = id
		}
		if len(running) != 1 || !running[0].hasLibFrame() || (k > 0 && rid != gid) {
			return nil, nil
		}
		g := running[0]
		// only a goroutine the library itself started (its outermost function is the library's): a
		// harness goroutine that calls into the library over and over - a long enumeration - is at work,
		// not in a loop nothing can end
		if len(g.frames) == 0 || !strings.HasPrefix(g.frames[len(g.frames)-1], libPath) {
			return nil, nil
		}
		if g.state != "running" && g.state != "runnable" {
			return nil, nil
		}
		var fs []string
		for _, f := range g.frames {
			if strings.HasPrefix(f, libPath) {
				name := strings.TrimPrefix(f, libPath)
				if i := strings.LastIndex(name, "("); i > 0 && strings.HasSuffix(name, ")") {
					name = name[:i]
				}
				fs = append(fs, name)
			}
		}
		if k == 0 {
			gid, common = rid, fs
		} else {
			var keep []string
			for _, c := range common {
				for _, f := range fs {
					if f == c {
						keep = append(keep, c)
						break
					}
				}
			}
			common = keep
		}
		last = g
		if len(common) == 0 {
			return nil, nil
		}
	}
	return last, common
}

// parkedSignature returns a digest of all goroutine stacks if every goroutine
// except the caller is parked (not runnable, not in a syscall, not sleeping on a
// real timer), else "".
func parkedSignature() string {
	me := goid()
	var parts []string
	for id, g := range snapshot() {
		if id == me {
			continue
		}
		st := g.state
		if strings.Contains(g.stack, "rawclient.(*Client).WaitFor") || strings.Contains(g.stack, "eventSink).waitCount") || strings.Contains(g.stack, "vrun.stuckVerdict") {
			return "" // a harness wait with its own timer is pending: it will end by itself
		}
		if !parkedState(st) && st != "GC worker (idle)" && st != "finalizer wait" && st != "GC sweep wait" && st != "GC scavenge wait" && st != "force gc (idle)" && st != "cleanup wait" && st != "debug call" && !strings.HasPrefix(st, "GC ") && st != "trace reader (blocked)" && st != "idle" && !strings.HasSuffix(st, "(idle)") {
			if strings.Contains(g.stack, "os/signal.") || strings.Contains(g.stack, "runtime.ensureSigM") {
				continue
			}
			return ""
		}
		parts = append(parts, fmt.Sprintf("%d:%s:%d", id, st, len(g.stack)))
	}
	sortStrings(parts)
	return strings.Join(parts, "|")
}
