package vrun

import (
	"fmt"
	"testing"

	"verif/harness/out"
)

// TestC09OwnRingFull: the will of a connection that ends while its own processor
// is parked on its own full outgoing ring (the client had stopped reading its
// socket and kept sending requests). The end is only noticed through the
// failing socket: abrupt close by the client, keep-alive expiry, Server.Close.
// The cells are those of the C16 matrix with condition own-out-full and a will
// present (the C16 oracle demands the will at the witness exactly once, the
// teardown-finished event and no leftover goroutine).
func TestC09OwnRingFull(t *testing.T) {
	i := 0
	for _, cause := range []string{"abrupt", "keepalive", "protocol-error", "disconnect"} {
		for order := 0; order < 2; order++ {
			for _, clean := range []bool{true, false} {
				for rep := 0; rep < pick(2, 8); rep++ {
					i++
					id := fmt.Sprintf("c09/ownring/%s/o%d/c%v/%d", cause, order, clean, rep)
					if !mine(i) || !out.Only(id) {
						continue
					}
					seed := caseSeed("c09own", i)
					out.Begin(id, seed, nil)
					c16Cell(t, cause, "own-out-full", order, true, clean, seed, i)
					out.Count("c09.own_ring_full_cells", 1)
					out.End()
				}
			}
		}
	}
}
