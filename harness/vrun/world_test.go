package vrun

import (
	"fmt"
	"net"
	"sync"
	"sync/atomic"
	"time"

	"github.com/mdzio/go-mqtt/service"
	"github.com/mdzio/go-mqtt/sessions"
	"github.com/mdzio/go-mqtt/topics"

	"verif/harness/rawclient"
	rc "verif/harness/refcodec"
)

// svcEvent is one event from the library's verif hook.
type svcEvent struct {
	kind   string
	id     uint64
	client bool
	cid    string
	arg    int
}

// eventSink collects hook events of the current scenario (non-race builds only).
type eventSink struct {
	mu   sync.Mutex
	cond *sync.Cond
	evs  []svcEvent
}

var curSink atomic.Pointer[eventSink]

// eventHold: see the hook below.
var eventHold atomic.Pointer[func(kind, cid string)]

func init() {
	if !raceEnabled {
		service.VerifEventHook = func(kind string, id uint64, client bool, cid string, arg int) {
			s := curSink.Load()
			if s == nil {
				return
			}
			s.mu.Lock()
			s.evs = append(s.evs, svcEvent{kind, id, client, cid, arg})
			s.cond.Broadcast()
			s.mu.Unlock()
			// a scenario may hold the goroutine that reports the event for a bounded time (a delay at a
			// point where it holds no lock of the library, e.g. at the very beginning of a teardown)
			if h := eventHold.Load(); h != nil {
				(*h)(kind, cid)
			}
		}
	}
}

func newSink() *eventSink {
	s := &eventSink{}
	s.cond = sync.NewCond(&s.mu)
	curSink.Store(s)
	return s
}

func (s *eventSink) count(kind, cid string) int {
	s.mu.Lock()
	defer s.mu.Unlock()
	n := 0
	for _, e := range s.evs {
		if e.kind == kind && (cid == "" || e.cid == cid) {
			n++
		}
	}
	return n
}

func (s *eventSink) countArg(kind string, arg int) int {
	s.mu.Lock()
	defer s.mu.Unlock()
	n := 0
	for _, e := range s.evs {
		if e.kind == kind && e.arg == arg {
			n++
		}
	}
	return n
}

// waitCount waits (real time) until at least n events of the kind were seen.
func (s *eventSink) waitCount(kind, cid string, n int, d time.Duration) bool {
	deadline := time.Now().Add(d)
	t := time.AfterFunc(d, func() { s.mu.Lock(); s.cond.Broadcast(); s.mu.Unlock() })
	defer t.Stop()
	s.mu.Lock()
	defer s.mu.Unlock()
	for {
		c := 0
		for _, e := range s.evs {
			if e.kind == kind && (cid == "" || e.cid == cid) {
				c++
			}
		}
		if c >= n {
			return true
		}
		if !time.Now().Before(deadline) {
			return false
		}
		s.cond.Wait()
	}
}

var worldSeq int64

// world is one broker under test with fresh, private providers.
type world struct {
	svr   *service.Server
	tname string
	sname string
	sink  *eventSink
	cmu   sync.Mutex // pipe() is called from several goroutines in the concurrent scenarios
	conns []net.Conn
}

type worldCfg struct {
	BufferSize     int64
	ConnectTimeout int
	KeepAlive      int
	Authenticator  string
}

func newWorld(cfg worldCfg) *world {
	n := atomic.AddInt64(&worldSeq, 1)
	w := &world{tname: fmt.Sprintf("vt%d", n), sname: fmt.Sprintf("vs%d", n)}
	topics.Register(w.tname, topics.NewMemProvider())
	sessions.Register(w.sname, sessions.NewMemProvider())
	w.svr = &service.Server{
		BufferSize:       cfg.BufferSize,
		ConnectTimeout:   cfg.ConnectTimeout,
		KeepAlive:        cfg.KeepAlive,
		Authenticator:    cfg.Authenticator,
		TopicsProvider:   w.tname,
		SessionsProvider: w.sname,
	}
	if !raceEnabled {
		w.sink = newSink()
	}
	return w
}

// pipe opens a new connection to the broker over net.Pipe and returns the
// client side; the broker side is served exactly like an accepted socket.
func (w *world) pipe() net.Conn {
	c, s := net.Pipe()
	go w.svr.VerifServe(s)
	w.cmu.Lock()
	w.conns = append(w.conns, c)
	w.cmu.Unlock()
	return c
}

// serveConn serves an arbitrary broker-side connection.
func (w *world) serveConn(s net.Conn) { go w.svr.VerifServe(s) }

// shutdown closes every client-side connection, the server and the providers.
func (w *world) shutdown() {
	w.cmu.Lock()
	cs := append([]net.Conn{}, w.conns...)
	w.cmu.Unlock()
	for _, c := range cs {
		c.Close()
	}
	func() {
		defer func() { recover() }()
		w.svr.Close()
	}()
	w.unregister()
}

func (w *world) unregister() {
	topics.Unregister(w.tname)
	sessions.Unregister(w.sname)
	if !raceEnabled {
		curSink.Store(nil)
	}
}

// connectOpts describes a CONNECT.
type connectOpts struct {
	ClientID   string
	Clean      bool
	KeepAlive  uint16
	Will       *rc.Packet // Topic, Payload, QoS, Retain used
	User, Pass string
	Policy     rawclient.AckPolicy
	Level3     bool // MQTT 3.1 (protocol name MQIsdp, level 3), which the library accepts as well
}

func connectPacket(o connectOpts) *rc.Packet {
	p := &rc.Packet{Type: rc.CONNECT, ProtoName: "MQTT", Level: 4, CleanSession: o.Clean, KeepAlive: o.KeepAlive, ClientID: []byte(o.ClientID)}
	if o.Level3 {
		p.ProtoName, p.Level = "MQIsdp", 3
	}
	if o.Will != nil {
		p.HasWill, p.WillQoS, p.WillRetain, p.WillTopic, p.WillMsg = true, o.Will.QoS, o.Will.Retain, o.Will.Topic, o.Will.Payload
	}
	if o.User != "" {
		p.HasUser, p.User = true, []byte(o.User)
		if o.Pass != "" {
			p.HasPass, p.Pass = true, []byte(o.Pass)
		}
	}
	return p
}

// dial opens a pipe, starts a raw client on it and sends the CONNECT (the
// caller waits for the CONNACK with whatever barrier the scenario uses).
func (w *world) dial(name string, o connectOpts) *rawclient.Client {
	c := rawclient.New(name, w.pipe(), o.Policy)
	c.SendPacket(connectPacket(o))
	return c
}

// firstOfType returns the first packet of the type in the events.
func firstOfType(evs []rawclient.Event, t byte) *rc.Packet {
	for _, e := range evs {
		if e.P.Type == t {
			return e.P
		}
	}
	return nil
}

func countType(evs []rawclient.Event, t byte) int {
	n := 0
	for _, e := range evs {
		if e.P.Type == t {
			n++
		}
	}
	return n
}

// nextID hands out packet identifiers for a raw client.
type idGen struct{ n uint16 }

func (g *idGen) next() uint16 {
	g.n++
	if g.n == 0 {
		g.n = 1
	}
	return g.n
}
