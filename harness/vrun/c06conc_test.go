package vrun

import (
	"fmt"
	"sort"
	"strings"
	"sync"
	"sync/atomic"
	"testing"

	"github.com/mdzio/go-mqtt/topics"

	"verif/harness/out"
	"verif/harness/spec"
)

// TestC06Conc: concurrent histories on one topic store. Every goroutine owns
// one subscriber, so the operations of different goroutines commute and the
// state at quiescence is the union of the per-goroutine models; stable
// subscriptions that nobody touches must show up in every lookup, exactly
// once, whatever the others do ("removing one subscription never disturbs
// another").
type c06Sub struct{ n int }

var c06cFilters = []string{"a/b/c", "a/b/+", "a/+/c", "a/#", "+/b/c", "a/b/#", "#", "a/b", "a/+", "x/y"}
var c06cNames = []string{"a/b/c", "a/b", "a/x/c", "x/y", "a/b/d"}

func c06Conc(idx int, seed uint64) {
	r := spec.NewRand(seed)
	churners := 2 + r.Intn(7)
	readers := 1 + r.Intn(3)
	opsPer := 400 + r.Intn(800)
	params := map[string]interface{}{"case": idx, "churners": churners, "readers": readers, "ops_per_churner": opsPer}
	p := topics.NewMemProvider()
	var failed atomic.Bool
	fail := func(sig, desc string) {
		if failed.CompareAndSwap(false, true) {
			out.Violation(sig, desc, params)
		}
	}
	// stable subscriptions
	stable := []*c06Sub{{1000}, {1001}, {1002}}
	stableModel := map[*c06Sub]map[string]byte{}
	for i, s := range stable {
		stableModel[s] = map[string]byte{}
		for k, f := range c06cFilters {
			if (k+i)%2 == 0 {
				q := byte((k + i) % 3)
				if _, err := p.Subscribe([]byte(f), q, s); err != nil {
					fail("c06:subscribe-error", err.Error())
					return
				}
				stableModel[s][f] = q
			}
		}
	}
	expectStable := func(name string, s *c06Sub) []byte { // QoS of every matching filter of s, sorted
		var qs []byte
		for f, q := range stableModel[s] {
			if spec.Match(f, name) {
				qs = append(qs, q)
			}
		}
		sort.Slice(qs, func(i, j int) bool { return qs[i] < qs[j] })
		return qs
	}
	models := make([]map[string]byte, churners)
	subsC := make([]*c06Sub, churners)
	var stop atomic.Bool
	var wg, rwg sync.WaitGroup
	start := make(chan struct{})
	var lookups, ops int64
	for g := 0; g < churners; g++ {
		models[g] = map[string]byte{}
		subsC[g] = &c06Sub{g}
		wg.Add(1)
		go func(g int) {
			defer wg.Done()
			defer func() {
				if rec := recover(); rec != nil {
					site, class := panicSite(rec)
					fail("c06:panic:"+site+":"+class, fmt.Sprintf("panic in a concurrent Subscribe/Unsubscribe: %v", rec))
				}
			}()
			gr := spec.NewRand(spec.Mix(seed, uint64(g+1)))
			me, model := subsC[g], models[g]
			<-start
			for k := 0; k < opsPer && !failed.Load(); k++ {
				f := c06cFilters[gr.Intn(len(c06cFilters))]
				_, held := model[f]
				if gr.Intn(2) == 0 {
					q := byte(gr.Intn(3))
					got, err := p.Subscribe([]byte(f), q, me)
					if err != nil || got != q {
						fail("c06:subscribe-error", fmt.Sprintf("Subscribe(%q,%d) = %d, %v", f, q, got, err))
						return
					}
					model[f] = q
				} else {
					err := p.Unsubscribe([]byte(f), me)
					if held && err != nil {
						fail("c06:unsubscribe-held", fmt.Sprintf("goroutine %d: Unsubscribe(%q) of a subscription it holds failed while other subscribers were changing theirs: %v", g, f, err))
						return
					}
					if !held && err == nil {
						fail("c06:unsubscribe-not-held", fmt.Sprintf("goroutine %d: Unsubscribe(%q) of a subscription it does not hold succeeded", g, f))
						return
					}
					delete(model, f)
				}
				atomic.AddInt64(&ops, 1)
			}
		}(g)
	}
	for rd := 0; rd < readers; rd++ {
		rwg.Add(1)
		go func(rd int) {
			defer rwg.Done()
			defer func() {
				if rec := recover(); rec != nil {
					site, class := panicSite(rec)
					fail("c06:panic:"+site+":"+class, fmt.Sprintf("panic in Subscribers during concurrent changes: %v", rec))
				}
			}()
			var subs []interface{}
			var qoss []byte
			<-start
			for k := 0; !stop.Load() && !failed.Load(); k++ {
				name := c06cNames[(k+rd)%len(c06cNames)]
				if err := p.Subscribers([]byte(name), 2, &subs, &qoss); err != nil {
					fail("c06:subscribers-error", err.Error())
					return
				}
				if len(subs) != len(qoss) {
					fail("c06:subscribers-shape", fmt.Sprintf("Subscribers(%q): %d subscribers, %d QoS values", name, len(subs), len(qoss)))
					return
				}
				for _, s := range stable {
					var got []byte
					for i, x := range subs {
						if x == interface{}(s) {
							got = append(got, qoss[i])
						}
					}
					sort.Slice(got, func(i, j int) bool { return got[i] < got[j] })
					if want := expectStable(name, s); string(got) != string(want) {
						fail("c06:bystander-disturbed", fmt.Sprintf("Subscribers(%q) during concurrent changes of OTHER subscribers: the untouched subscriber %d appears with QoS %v, its subscriptions give %v", name, s.n, got, want))
						return
					}
				}
				atomic.AddInt64(&lookups, 1)
			}
		}(rd)
	}
	close(start)
	wg.Wait()
	stop.Store(true)
	rwg.Wait()
	if failed.Load() {
		return
	}
	// quiescence: the full state is the union of the models
	var subs []interface{}
	var qoss []byte
	all := append(append([]string{}, c06cNames...), "a", "x", "a/b/c/d", "q")
	for _, name := range all {
		if err := p.Subscribers([]byte(name), 2, &subs, &qoss); err != nil {
			fail("c06:subscribers-error", err.Error())
			return
		}
		var got, want []string
		for i, x := range subs {
			got = append(got, fmt.Sprintf("%d@%d", x.(*c06Sub).n, qoss[i]))
		}
		add := func(n int, m map[string]byte) {
			for f, q := range m {
				if spec.Match(f, name) {
					want = append(want, fmt.Sprintf("%d@%d", n, q))
				}
			}
		}
		for _, s := range stable {
			add(s.n, stableModel[s])
		}
		for g := range models {
			add(g, models[g])
		}
		sort.Strings(got)
		sort.Strings(want)
		if strings.Join(got, ",") != strings.Join(want, ",") {
			fail("c06:history-subscribers", fmt.Sprintf("after %d goroutines finished their Subscribe/Unsubscribe histories (each on its own subscriber): Subscribers(%q) = [%s], union of the models = [%s]", churners, name, strings.Join(got, ","), strings.Join(want, ",")))
			return
		}
	}
	out.Count("c06.conc.cases", 1)
	out.Count("c06.conc.ops", atomic.LoadInt64(&ops))
	out.Count("c06.conc.lookups_during_changes", atomic.LoadInt64(&lookups))
	out.Class(fmt.Sprintf("conc/g%d/r%d", churners, readers))
}

func TestC06Conc(t *testing.T) {
	n := pick(64, 2000)
	for g := 0; g < n; g++ {
		id := fmt.Sprintf("c06/conc/%d", g)
		if !mine(g) || !out.Only(id) {
			continue
		}
		seed := caseSeed("c06c", g)
		out.Begin(id, seed, nil)
		c06Conc(g, seed)
		out.End()
	}
}
