package vrun

import (
	"fmt"
	"testing"

	"verif/harness/out"
	rc "verif/harness/refcodec"
	"verif/harness/spec"
)

// TestC10Overlap: the same client identifier on two connections for a while (the
// client reconnected before the broker noticed that the older connection is
// gone). Model: a CleanSession=1 CONNECT discards the kept state at once and
// keeps none; a CleanSession=0 CONNECT resumes the kept state (SessionPresent=1)
// or starts keeping state; the end of a CleanSession=1 connection never
// touches state kept by a CleanSession=0 connection.
func c10Overlap(t *testing.T, idx int, seed uint64) {
	r := spec.NewRand(seed)
	cleanA, cleanB := idx&1 == 0, idx&2 == 0
	preState := idx&4 == 0 // state kept from an even earlier CleanSession=0 connection
	endA := []string{"abrupt", "disconnect"}[r.Intn(2)]
	endB := []string{"abrupt", "disconnect"}[r.Intn(2)]
	params := map[string]interface{}{"case": idx, "older_clean": cleanA, "newer_clean": cleanB, "state_kept_before": preState, "older_ends_by": endA, "newer_ends_by": endB}
	bubble(t, "c10", params, func(cl *cleanup) {
		w := newWorld(worldCfg{BufferSize: 16384})
		cl.add(w.shutdown)
		fail := func(sig, desc string) { out.Violation(sig, desc, params) }
		prober, ack := w.connectB("prober", connectOpts{Clean: true, KeepAlive: 6000})
		if ack == nil {
			fail("c10:connect", "prober")
			return
		}
		var uids uidGen
		kept := map[string]byte(nil) // nil = nothing kept
		end := func(c *bclient, how string) {
			if how == "disconnect" {
				c.SendPacket(&rc.Packet{Type: rc.DISCONNECT})
				settle()
			}
			c.Close()
			settle()
		}
		connect := func(name string, clean bool) (*bclient, bool) {
			c, a := w.connectB(name, connectOpts{ClientID: "same-id", Clean: clean, KeepAlive: 600})
			if a == nil || a.ReturnCode != 0 {
				fail("c10:connect", fmt.Sprintf("%s: no CONNACK 0 (%v)", name, a))
				return nil, false
			}
			wantSP := !clean && kept != nil
			if a.SessionPresent != wantSP {
				fail("c10:session-present", fmt.Sprintf("%s CONNECT clean=%v: SessionPresent=%v, expected %v (kept state: %v)", name, clean, a.SessionPresent, wantSP, kept))
				return nil, false
			}
			if clean {
				kept = nil
			} else {
				if kept == nil {
					kept = map[string]byte{}
				}
				for f, q := range kept {
					c.subs[f] = q
				}
			}
			c.SendPacket(&rc.Packet{Type: rc.PINGREQ})
			settle()
			c.fresh()
			return c, true
		}
		subscribe := func(c *bclient, clean bool, f string, q byte) bool {
			a, _ := c.subscribeB([]string{f}, []byte{q})
			if a == nil || len(a.Codes) != 1 || a.Codes[0] != q {
				fail("c10:suback", fmt.Sprintf("%s: SUBACK %v", c.name, a))
				return false
			}
			c.subs[f] = q
			if !clean && kept != nil {
				kept[f] = q
			}
			return true
		}
		probe := func(why string, live ...*bclient) bool {
			for _, name := range []string{"ov/pre", "ov/a", "ov/b", "ov/late", "ov/none"} {
				uid := uids.next()
				prober.publishB(name, 2, false, spec.MakePayload(uid, 0, 30))
				prober.fresh()
				for _, c := range live {
					if c.Closed() {
						fail("c10:connection-lost", c.name+" lost its connection ("+why+")")
						return false
					}
					var desc []string
					if sig := c01Check(c.name, c.subs, name, 2, publishesIn(c.fresh()), uid, &desc); sig != "" {
						fail("c10:subscriptions:"+sig[len("c01:"):], why+": "+fmt.Sprint(desc))
						return false
					}
				}
			}
			return true
		}
		if preState {
			p, ok := connect("earlier", false)
			if !ok || !subscribe(p, false, "ov/pre", 1) {
				return
			}
			end(p, "disconnect")
		}
		A, ok := connect("older", cleanA)
		if !ok || !subscribe(A, cleanA, "ov/a", 1) {
			return
		}
		B, ok := connect("newer", cleanB)
		if !ok {
			return
		}
		if !probe("both connections up", A, B) || !subscribe(B, cleanB, "ov/b", 2) || !probe("newer subscribed", A, B) {
			return
		}
		if !cleanA && !cleanB && idx&8 == 0 {
			// both connections work on the same kept state: a filter subscribed on the older connection after
			// the newer one was set up, then unsubscribed on the newer one, is gone from the kept state (the
			// older connection keeps receiving it while it lives)
			if !subscribe(A, false, "ov/late", 1) {
				return
			}
			ua, _ := B.unsubscribeB([]string{"ov/late"})
			if ua == nil {
				fail("c10:unsuback", "no UNSUBACK on the newer connection")
				return
			}
			delete(kept, "ov/late")
			out.Count("c10.overlap_cross_unsubscribes", 1)
			if !probe("after UNSUBSCRIBE on the newer connection of a filter subscribed on the older one", A, B) {
				return
			}
		}
		end(A, endA)
		if !probe("after the older connection ended ("+endA+")", B) {
			return
		}
		end(B, endB)
		C, ok := connect("later", false)
		if !ok {
			return
		}
		if !probe("after a later CleanSession=0 connection", C) {
			return
		}
		out.Count("c10.overlap_cases", 1)
		out.Class(fmt.Sprintf("overlap/a%v/b%v/pre%v", cleanA, cleanB, preState))
	})
}

func TestC10Overlap(t *testing.T) {
	n := pick(160, 3200)
	for g := 0; g < n; g++ {
		id := fmt.Sprintf("c10/overlap/%d", g)
		if !mine(g) || !out.Only(id) {
			continue
		}
		seed := caseSeed("c10o", g)
		out.Begin(id, seed, nil)
		c10Overlap(t, g, seed)
		out.End()
	}
}
