package vrun

import (
	"fmt"
	"net"
	"strings"
	"testing"
	"time"

	"verif/harness/chaos"
	"verif/harness/out"
	"verif/harness/rawclient"
	rc "verif/harness/refcodec"
	"verif/harness/spec"
)

var c09Endings = []string{"disconnect", "abrupt", "keepalive", "reserved-type", "bad-flags", "read-error", "oversized", "disconnect-with-eof", "ping-with-eof", "disconnect-bad-flags"}

type willSpec struct {
	present bool
	qos     byte
	retain  bool
	topic   string
	uid     uint64
	size    int // 0 = empty payload
}

func (w willSpec) String() string {
	if !w.present {
		return "nowill"
	}
	return fmt.Sprintf("will{%s q%d r%v uid%d %dB}", w.topic, w.qos, w.retain, w.uid, w.size)
}

func c09History(t *testing.T, idx int, seed uint64) {
	r := spec.NewRand(seed)
	nconn := 1 + r.Intn(4)
	params := map[string]interface{}{"history": idx, "connections": nconn}
	var ops []string
	bubble(t, "c09", params, func(cl *cleanup) {
		// every third history runs under an authenticator that accepts good/pw only, so that refused
		// CONNECTs carrying the victim's client identifier can be mixed in
		useAuth := idx%3 == 0
		wcfg := worldCfg{BufferSize: 16384}
		user, pass := "", ""
		if useAuth {
			wcfg.Authenticator, user, pass = "vauth", "good", "pw"
		}
		w := newWorld(wcfg)
		cl.add(w.shutdown)
		fail := func(sig, desc string) {
			out.Violation(sig, desc, map[string]interface{}{"params": params, "ops": ops})
			dumpMemLog()
		}
		wit, ack := w.connectB("witness", connectOpts{Clean: true, KeepAlive: 6000, User: user, Pass: pass})
		if ack == nil {
			fail("c09:connect", "witness got no CONNACK")
			return
		}
		if sa, _ := wit.subscribeB([]string{"will/#"}, []byte{2}); sa == nil || sa.Codes[0] != 2 {
			fail("c09:suback", "witness subscription failed")
			return
		}
		var uids uidGen
		retained := map[string]uint64{} // will topic -> uid of a retained will (model)
		var prevWS willSpec
		var prevClean bool
		var prevKA uint16
		for k := 0; k < nconn; k++ {
			clean := r.Bool()
			ws := willSpec{present: r.Intn(4) != 0}
			identical := k > 0 && r.Intn(3) == 0 // reconnect with byte-identical CONNECT (same will, same flags)
			if identical {
				ws, clean = prevWS, prevClean
			} else if ws.present {
				ws.qos = byte(r.Intn(3))
				ws.retain = r.Intn(3) == 0
				ws.topic = []string{"will/a", "will/b/c", "will/" + fmt.Sprint(k)}[r.Intn(3)]
				ws.uid = uids.next()
				ws.size = []int{spec.PayloadMin, 200, 3000}[r.Intn(3)]
				if r.Intn(8) == 0 {
					ws.size = 0
				}
			}
			prevWS, prevClean = ws, clean
			ending := c09Endings[r.Intn(len(c09Endings))]
			ka := uint16(600)
			if ending == "keepalive" {
				ka = 3
			}
			if identical {
				ka = prevKA // every byte of the CONNECT equals the previous connection's
			}
			prevKA = ka
			ops = append(ops, fmt.Sprintf("conn%d clean=%v %v ending=%s", k, clean, ws, ending))
			o := connectOpts{ClientID: "victim", Clean: clean, KeepAlive: ka, User: user, Pass: pass}
			if ws.present {
				wp := &rc.Packet{QoS: ws.qos, Retain: ws.retain, Topic: []byte(ws.topic)}
				if ws.size > 0 {
					wp.Payload = spec.MakePayload(ws.uid, uint32(k), ws.size)
				}
				o.Will = wp
			}
			wit.fresh() // from here on everything the witness receives belongs to this connection
			// broker side possibly behind a fault-injecting wrapper
			cside, sside := net.Pipe()
			var srv net.Conn = sside
			connectLen := int64(len(rc.Encode(connectPacket(o))))
			if ending == "read-error" {
				cc := chaos.Wrap(sside)
				cc.FailReadAfter = connectLen + int64(r.Intn(6)) // fails on a later read
				srv = cc
			}
			var eofc *chaos.EOFConn
			if ending == "disconnect-with-eof" || ending == "ping-with-eof" {
				// a transport that hands out the last bytes together with io.EOF (as crypto/tls does)
				eofc = chaos.NewEOFConn(sside)
				srv = eofc
			}
			w.serveConn(srv)
			w.conns = append(w.conns, cside)
			c := &bclient{Client: rawclient.New("victim", cside, nil), name: "victim", subs: map[string]byte{}}
			c.SendPacket(connectPacket(o))
			settle()
			evs := c.fresh()
			if len(evs) == 0 || evs[0].P.Type != rc.CONNACK || evs[0].P.ReturnCode != 0 {
				fail("c09:connect", fmt.Sprintf("victim connection %d: no CONNACK 0 (%v)", k, evs))
				return
			}
			// some traffic first, sometimes
			if r.Bool() {
				c.publishB("other/x", byte(r.Intn(2)), false, spec.MakePayload(uids.next(), 0, 50))
				c.fresh()
			}
			// a refused CONNECT that names the victim's client identifier must change nothing
			// (not with the injected read error: the optional traffic above may already have triggered it)
			if useAuth && ending != "read-error" && r.Bool() {
				io := connectOpts{ClientID: "victim", Clean: r.Bool(), KeepAlive: 600, User: []string{"evil", "good"}[r.Intn(2)], Pass: "wrong"}
				intruderUID := uint64(0)
				if r.Intn(3) != 0 {
					intruderUID = uids.next()
					io.Will = &rc.Packet{QoS: byte(r.Intn(3)), Retain: r.Intn(3) == 0, Topic: []byte("will/intruder"), Payload: spec.MakePayload(intruderUID, 0, 60)}
				}
				ops = append(ops, fmt.Sprintf("conn%d: refused CONNECT with the victim's client id (clean=%v, will uid %d)", k, io.Clean, intruderUID))
				in, ia := w.connectB("intruder", io)
				if ia != nil && ia.ReturnCode == 0 {
					fail("c09:intruder-accepted", "a CONNECT with wrong credentials was accepted")
					return
				}
				if !in.Closed() {
					fail("c09:intruder-open", "a refused connection stays open")
					return
				}
				if c.Closed() {
					fail("c09:victim-closed-by-refused-connect", "the victim's connection was closed when a CONNECT with its client id was refused")
					return
				}
				if got := publishesIn(wit.fresh()); len(got) != 0 {
					fail("c09:will-from-refused-connect", fmt.Sprintf("the witness received %v after a refused CONNECT", got))
					return
				}
				out.Count("c09.refused_connects_with_victim_id", 1)
			}
			// the ending
			switch ending {
			case "disconnect":
				c.SendPacket(&rc.Packet{Type: rc.DISCONNECT})
				settle()
				c.Close()
			case "disconnect-with-eof", "ping-with-eof":
				// the final packet and the close reach the broker in one Read that returns (n, io.EOF)
				eofc.Hold()
				if ending == "disconnect-with-eof" {
					c.SendPacket(&rc.Packet{Type: rc.DISCONNECT})
				} else {
					c.SendPacket(&rc.Packet{Type: rc.PINGREQ})
				}
				c.Flush()
				c.Close()
				settle()
				eofc.Release()
			case "abrupt":
				c.Close()
			case "keepalive":
				time.Sleep(time.Duration(ka) * 2 * time.Second)
			case "reserved-type":
				c.Send([]byte{byte([]int{0x00, 0xf0}[r.Intn(2)]), 0x00})
			case "bad-flags":
				// a packet that is well-formed except for the reserved bits of its fixed header
				c.Send([][]byte{
					{0x80, 0x06, 0x00, 0x01, 0x00, 0x01, 'a', 0x00}, // SUBSCRIBE with flags 0
					{0xc1, 0x00},             // PINGREQ with flags 1
					{0x42, 0x02, 0x00, 0x01}, // PUBACK with flags 2
					{0xa0, 0x05, 0x00, 0x01, 0x00, 0x01, 'a'}, // UNSUBSCRIBE with flags 0
				}[r.Intn(4)])
			case "disconnect-bad-flags":
				// the type is DISCONNECT, the reserved bits are not 0: a protocol error, not the client's DISCONNECT
				c.Send([]byte{0xe0 | byte(1+r.Intn(15)), 0x00})
			case "read-error":
				c.Send([]byte{0xc0, 0x00, 0xc0, 0x00, 0xc0, 0x00, 0xc0, 0x00})
			case "oversized":
				// a packet announcing more than the ring can ever hold
				c.Send(append([]byte{0x30}, rc.AppendVarint(nil, 1<<20)...))
			}
			settle()
			if ending != "disconnect" && ending != "abrupt" && ending != "disconnect-with-eof" && ending != "ping-with-eof" && !c.Closed() {
				fail("c09:not-closed:"+ending, fmt.Sprintf("connection still open after %s", ending))
				c.Close()
				settle()
				return
			}
			c.Close()
			settle()
			if w.sink != nil {
				if n := w.sink.count("stop.done", "victim"); n != k+1 {
					fail("c09:teardown-events", fmt.Sprintf("%d teardown-finished events after %d connections", n, k+1))
					return
				}
			}
			// what did the witness see?
			got := publishesIn(wit.fresh())
			wantWill := ws.present && ending != "disconnect" && ending != "disconnect-with-eof"
			var mine []delivered
			for _, d := range got {
				mine = append(mine, d)
			}
			desc := fmt.Sprintf("connection %d (%s, clean=%v, %v): witness received %d message(s) %v", k, ending, clean, ws, len(mine), mine)
			switch {
			case !wantWill && len(mine) > 0:
				if !ws.present {
					fail("c09:will-without-will", desc+" although this CONNECT carried no will")
				} else {
					fail("c09:will-after-disconnect", desc+" after a DISCONNECT packet")
				}
				return
			case wantWill && len(mine) == 0:
				fail("c09:will-missing", desc+"; expected this connection's will exactly once")
				return
			case wantWill && len(mine) > 1:
				fail("c09:will-duplicated", desc)
				return
			case wantWill:
				d := mine[0]
				okPayload := (ws.size == 0 && d.n == 0) || (d.ok && d.uid == ws.uid && d.n == ws.size)
				if d.topic != ws.topic || d.qos != ws.qos || !okPayload {
					fail("c09:will-content", desc+fmt.Sprintf("; expected topic %s QoS %d uid %d (%d bytes) from the CONNECT of the connection that ended", ws.topic, ws.qos, ws.uid, ws.size))
					return
				}
				if d.retain {
					fail("c09:will-live-retain-flag", desc+"; forwarded with retain=1 to an existing subscription")
					return
				}
				if ws.retain {
					if ws.size > 0 {
						retained[ws.topic] = ws.uid
					} else {
						delete(retained, ws.topic)
					}
				}
			}
			out.Count("c09.connections", 1)
			out.Class(fmt.Sprintf("end/%s/clean%v/will%v/q%d/r%v/empty%v/resumed%v/identical%v", ending, clean, ws.present, ws.qos, ws.retain, ws.present && ws.size == 0, k > 0, identical))
			if identical {
				out.Count("c09.identical_reconnects", 1)
			}
			// retained wills are visible to a fresh subscriber
			if r.Intn(2) == 0 || k == nconn-1 {
				fs, fa := w.connectB(fmt.Sprintf("fresh%d", k), connectOpts{Clean: true, KeepAlive: 600, User: user, Pass: pass})
				if fa == nil {
					fail("c09:connect", "fresh subscriber got no CONNACK")
					return
				}
				sa, rest := fs.subscribeB([]string{"will/#"}, []byte{2})
				if sa == nil {
					fail("c09:suback", "fresh subscriber got no SUBACK")
					return
				}
				gotR := map[string]uint64{}
				for _, d := range publishesIn(rest) {
					gotR[d.topic] = d.uid
					if !d.ok || !d.retain {
						fail("c09:retained-will", fmt.Sprintf("retained will on %s: payload ok=%v retain=%v", d.topic, d.ok, d.retain))
						return
					}
				}
				if fmt.Sprint(gotR) != fmt.Sprint(retained) {
					fail("c09:retained-will-set", fmt.Sprintf("fresh subscriber sees retained wills %v, expected %v", gotR, retained))
					return
				}
				fs.Close()
				settle()
				wit.fresh()
			}
		}
		out.Count("c09.histories", 1)
		if idx%50 == 0 {
			out.Sample("c09", 3, map[string]interface{}{"ops": ops})
		}
		_ = strings.Join
	})
}

func TestC09(t *testing.T) {
	n := pick(2000, 60000)
	for h := 0; h < n; h++ {
		id := fmt.Sprintf("c09/%d", h)
		if !mine(h) || !out.Only(id) {
			continue
		}
		seed := caseSeed("c09", h)
		out.Begin(id, seed, nil)
		c09History(t, h, seed)
		out.End()
	}
}
