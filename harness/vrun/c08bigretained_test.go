package vrun

import (
	"fmt"
	"testing"
	"time"

	"verif/harness/out"
	"verif/harness/rawclient"
	rc "verif/harness/refcodec"
	"verif/harness/spec"
)

// TestC08BigRetained: retained messages next to one that no connection's ring can
// take. A CONNECT does not travel through the ring, so a client can leave a
// retained will larger than Server.BufferSize. Whatever the broker does with
// that one, a new subscription must still receive every other retained message
// matching its filter - flag, QoS and payload as stored - and the subscriber's
// connection must go on working (C05). In-process broker over net.Pipe, rings of
// 4..64 KiB, real time, PINGREQ/PINGRESP barriers.
func c08BigRetained(idx int, seed uint64) {
	r := spec.NewRand(seed)
	size := []int{4096, 8192, 16384, 65536}[idx%4]
	params := map[string]interface{}{"case": idx, "ring": size}
	fail := func(sig, desc string) { out.Violation(sig, desc, params) }
	w := newWorld(worldCfg{BufferSize: int64(size)})
	defer w.shutdown()
	const wait = 20 * time.Second
	connect := func(o connectOpts) *rawclient.Client {
		c := w.dial(o.ClientID, o)
		if c.WaitFor(func(l []rawclient.Event, closed bool) bool { return len(l) > 0 }, wait) != nil || c.Log()[0].P.Type != rc.CONNACK || c.Log()[0].P.ReturnCode != 0 {
			return nil
		}
		return c
	}
	pings := map[*rawclient.Client]int{}
	ping := func(c *rawclient.Client) bool {
		pings[c]++
		n := pings[c]
		c.SendPacket(&rc.Packet{Type: rc.PINGREQ})
		return c.WaitFor(func(l []rawclient.Event, closed bool) bool { return countType(l, rc.PINGRESP) >= n }, wait) == nil
	}
	pub := connect(connectOpts{ClientID: "pub", Clean: true, KeepAlive: 6000})
	if pub == nil {
		out.Inconclusive("c08big: publisher", params)
		return
	}
	type stored struct {
		uid  uint64
		qos  byte
		n    int
		fits bool
	}
	store := map[string]stored{}
	uid := uint64(0)
	// fitting retained messages on 4..10 topics (some close to the ring size)
	nt := 4 + r.Intn(7)
	for i := 0; i < nt; i++ {
		topic := fmt.Sprintf("br/%d/%c/%d", idx, 'a'+byte(r.Intn(3)), i)
		n := 20 + r.Intn(400)
		if r.Intn(4) == 0 {
			n = size/2 + r.Intn(size/2-200)
		}
		uid++
		q := byte(r.Intn(3))
		pub.SendPacket(&rc.Packet{Type: rc.PUBLISH, Topic: []byte(topic), Retain: true, QoS: q, ID: uint16(i + 1), Payload: spec.MakePayload(uid, 0, n)})
		store[topic] = stored{uid: uid, qos: q, n: n, fits: true}
	}
	// a QoS 2 publish is stored when its PUBREL has been handled, and the PUBREL goes out only when the
	// PUBREC has come in: wait for the last acknowledgement of every exchange before the barrier
	nack := 0
	for _, st := range store {
		if st.qos > 0 {
			nack++
		}
	}
	if pub.WaitFor(func(l []rawclient.Event, closed bool) bool { return countType(l, rc.PUBACK)+countType(l, rc.PUBCOMP) >= nack }, wait) != nil || !ping(pub) {
		fail("c08:bigretained:stuck", "the publisher of the fitting retained messages is not answered")
		return
	}
	// 1..3 clients leave retained wills the rings cannot take
	nbig := 1 + r.Intn(3)
	for k := 0; k < nbig; k++ {
		topic := fmt.Sprintf("br/%d/%c/big%d", idx, 'a'+byte(r.Intn(3)), k)
		n := size + 1 + r.Intn(size)
		if n > 65535 {
			n = 65535
		}
		uid++
		q := byte(r.Intn(3))
		name := fmt.Sprintf("bw-%d-%d", idx, k)
		a := connect(connectOpts{ClientID: name, Clean: true, KeepAlive: 6000, Will: &rc.Packet{Topic: []byte(topic), Retain: true, QoS: q, Payload: spec.MakePayload(uid, 0, n)}})
		if a == nil {
			out.Inconclusive("c08big: will client", params)
			return
		}
		a.Close()
		if w.sink != nil && !w.sink.waitCount("stop.done", name, 1, wait) {
			fail("c16:teardown-stuck:bigwill", fmt.Sprintf("rings of %d bytes: the teardown of a connection with a retained will of %d bytes did not finish", size, n))
			return
		}
		store[topic] = stored{uid: uid, qos: q, n: n, fits: false}
		out.Count("c08.bigretained_oversize_wills", 1)
	}
	// new subscriptions
	filters := []string{fmt.Sprintf("br/%d/#", idx), fmt.Sprintf("br/%d/a/+", idx), fmt.Sprintf("br/%d/+/+", idx), fmt.Sprintf("br/%d/b/#", idx), "#"}
	for si := 0; si < 3+r.Intn(3); si++ {
		f := filters[r.Intn(len(filters))]
		gq := byte(r.Intn(3))
		s := connect(connectOpts{ClientID: fmt.Sprintf("bs-%d-%d", idx, si), Clean: true, KeepAlive: 6000})
		if s == nil {
			out.Inconclusive("c08big: subscriber", params)
			return
		}
		s.SendPacket(&rc.Packet{Type: rc.SUBSCRIBE, ID: 1, Filters: [][]byte{[]byte(f)}, QoSs: []byte{gq}})
		if s.WaitFor(func(l []rawclient.Event, closed bool) bool { return countType(l, rc.SUBACK) == 1 || closed }, wait) != nil || countType(s.Log(), rc.SUBACK) != 1 {
			fail("c08:bigretained:no-suback", fmt.Sprintf("SUBSCRIBE %q not acknowledged (closed=%v)", f, s.Closed()))
			return
		}
		d := fmt.Sprintf("rings of %d bytes, %d fitting retained messages and %d retained wills larger than the ring in the store; new subscription %q (granted QoS %d)", size, nt, nbig, f, gq)
		if !ping(s) {
			sig, how := "c05:bystander-stuck:bigretained", "does not answer a PINGREQ after its SUBACK"
			if s.Closed() {
				sig, how = "c05:bystander-disconnected:bigretained", "was disconnected by the broker"
			}
			fail(sig, d+": the subscriber "+how)
			return
		}
		got := map[string]int{}
		for _, e := range s.Log() {
			if e.P.Type != rc.PUBLISH {
				continue
			}
			dl := decodeDelivery(e.P)
			st, ok := store[string(e.P.Topic)]
			if !ok || !dl.ok || dl.uid != st.uid || dl.n != st.n || !spec.Match(f, string(e.P.Topic)) {
				fail("c08:bigretained:spurious", d+fmt.Sprintf(": unexpected PUBLISH on %q (%d bytes)", e.P.Topic, len(e.P.Payload)))
				return
			}
			if !e.P.Retain || e.P.QoS != minQ(st.qos, gq) {
				fail("c08:bigretained:flags", d+fmt.Sprintf(": %q arrived with retain=%v QoS %d (stored QoS %d)", e.P.Topic, e.P.Retain, e.P.QoS, st.qos))
				return
			}
			got[string(e.P.Topic)]++
		}
		for tp, st := range store {
			if !spec.Match(f, tp) {
				continue
			}
			switch {
			case st.fits && got[tp] != 1:
				fail("c08:bigretained:missing", d+fmt.Sprintf(": the retained message on %q (%d bytes, fits the ring) was delivered %d times", tp, st.n, got[tp]))
				return
			case !st.fits && got[tp] > 1:
				fail("c08:bigretained:duplicate", d+fmt.Sprintf(": the oversize retained message on %q was delivered %d times", tp, got[tp]))
				return
			}
			if st.fits {
				out.Count("c08.bigretained_deliveries_checked", 1)
			}
		}
		s.Close()
		out.Count("c08.bigretained_subscriptions", 1)
		out.Class(fmt.Sprintf("bigretained/ring%d/g%d", size, gq))
	}
	out.Count("c08.bigretained_cases", 1)
}

func TestC08BigRetained(t *testing.T) {
	n := pick(32, 400)
	for g := 0; g < n; g++ {
		id := fmt.Sprintf("c08/bigretained/%d", g)
		if !mine(g) || !out.Only(id) {
			continue
		}
		seed := caseSeed("c08br", g)
		out.Begin(id, seed, nil)
		c08BigRetained(g, seed)
		out.End()
	}
}
