// Package vrun holds the monitored workloads. It is compiled with
// "go test -c -tags verif" into the child binary that bin/vcheck fans out;
// every Test function is one batch kind, parameterised by environment
// variables, reporting through package out.
package vrun
