package vrun

import (
	"fmt"
	"runtime"
	"strings"
	"sync"
	"sync/atomic"
	"testing"
	"time"

	"github.com/anishathalye/porcupine"

	"verif/harness/out"
	rc "verif/harness/refcodec"
	"verif/harness/spec"
)

type qcIn struct {
	op   byte
	id   uint16
	kind byte
}

// ackQueueModel is the sequential list model of one ack queue as a porcupine
// model; the state is the in-flight list "id:state,id:state,...".
func ackQueueModel(terminal byte) porcupine.Model {
	return porcupine.Model{
		Init: func() interface{} { return "" },
		Step: func(st, in, outp interface{}) (bool, interface{}) {
			s := st.(string)
			i := in.(qcIn)
			var ents []string
			if s != "" {
				ents = strings.Split(s, ",")
			}
			key := fmt.Sprintf("%d:", i.id)
			switch i.op {
			case 'r':
				// the newest entry under the identifier decides: in flight = a repetition, finished = a new request
				term := fmt.Sprintf(":%d", terminal)
				for k := len(ents) - 1; k >= 0; k-- {
					if strings.HasPrefix(ents[k], key) {
						if !strings.HasSuffix(ents[k], term) {
							return true, s
						}
						break
					}
				}
				ents = append(ents, key+"0")
				return true, strings.Join(ents, ",")
			case 'a':
				for k := len(ents) - 1; k >= 0; k-- {
					if strings.HasPrefix(ents[k], key) {
						n := append([]string{}, ents...)
						n[k] = fmt.Sprintf("%s%d", key, i.kind)
						return true, strings.Join(n, ",")
					}
				}
				return true, s
			}
			// collect: output must be the head run of terminally acknowledged entries
			got := outp.(string)
			var want []string
			term := fmt.Sprintf(":%d", terminal)
			k := 0
			for k < len(ents) && strings.HasSuffix(ents[k], term) {
				want = append(want, strings.TrimSuffix(ents[k], term))
				k++
			}
			if strings.Join(want, ",") != got {
				return false, s
			}
			return true, strings.Join(ents[k:], ",")
		},
		DescribeOperation: func(in, outp interface{}) string {
			i := in.(qcIn)
			switch i.op {
			case 'r':
				return fmt.Sprintf("reg(%d)", i.id)
			case 'a':
				return fmt.Sprintf("%s(%d)", rc.TypeName(i.kind), i.id)
			}
			return fmt.Sprintf("collect->[%v]", outp)
		},
	}
}

// TestC13Conc: three goroutines (register / acknowledge / collect) on one
// queue; the recorded history must be linearizable w.r.t. the list model.
func TestC13Conc(t *testing.T) {
	nh := pick(300, 6000)
	if raceEnabled {
		nh = pick(150, 2000)
	}
	for g := 0; g < nh; g++ {
		id := fmt.Sprintf("c13/conc/%d", g)
		if !mine(g) || !out.Only(id) {
			continue
		}
		seed := caseSeed("c13c", g)
		out.Begin(id, seed, nil)
		k := qkinds[g%len(qkinds)]
		q := newQueue(k)
		var clock int64
		var mu sync.Mutex
		var hist []porcupine.Operation
		record := func(client int, in qcIn, call int64, outp string) {
			ret := atomic.AddInt64(&clock, 1)
			mu.Lock()
			hist = append(hist, porcupine.Operation{ClientId: client, Input: in, Call: call, Output: outp, Return: ret})
			mu.Unlock()
		}
		nops := 12
		var wg sync.WaitGroup
		start := make(chan struct{})
		overlap := int64(0)
		active := int64(0)
		enter := func() {
			if atomic.AddInt64(&active, 1) > 1 {
				atomic.AddInt64(&overlap, 1)
			}
		}
		leave := func() { atomic.AddInt64(&active, -1) }
		jitter := func(r *spec.Rand) {
			switch r.Intn(4) {
			case 0:
				runtime.Gosched()
			case 1:
				time.Sleep(time.Duration(r.Intn(30)) * time.Microsecond)
			}
		}
		// registrar
		wg.Add(3)
		go func() {
			defer wg.Done()
			r := spec.NewRand(spec.Mix(seed, 1))
			<-start
			for i := 0; i < nops; i++ {
				pid := uint16(1 + r.Intn(4))
				m, _ := libBuild(reqRecord(k, pid, i), false)
				jitter(r)
				call := atomic.AddInt64(&clock, 1)
				enter()
				q.Wait(m, i)
				leave()
				record(0, qcIn{op: 'r', id: pid}, call, "")
			}
		}()
		go func() {
			defer wg.Done()
			r := spec.NewRand(spec.Mix(seed, 2))
			<-start
			for i := 0; i < nops; i++ {
				pid := uint16(1 + r.Intn(5))
				kind := k.acks[r.Intn(len(k.acks))]
				m, _ := libBuild(ackRecord(kind, pid), false)
				jitter(r)
				call := atomic.AddInt64(&clock, 1)
				enter()
				q.Ack(m)
				leave()
				record(1, qcIn{op: 'a', id: pid, kind: kind}, call, "")
			}
		}()
		go func() {
			defer wg.Done()
			r := spec.NewRand(spec.Mix(seed, 3))
			<-start
			for i := 0; i < nops; i++ {
				jitter(r)
				call := atomic.AddInt64(&clock, 1)
				enter()
				got := q.Acked()
				ids := make([]string, len(got))
				for j, a := range got {
					ids[j] = fmt.Sprint(a.Pktid)
				}
				leave()
				record(2, qcIn{op: 'c'}, call, strings.Join(ids, ","))
			}
		}()
		close(start)
		wg.Wait()
		res, _ := porcupine.CheckOperationsVerbose(ackQueueModel(k.terminal), hist, 30*time.Second)
		out.Count("c13.conc.histories", 1)
		out.Count("c13.conc.ops", int64(len(hist)))
		out.Count("c13.conc.overlapping_calls", atomic.LoadInt64(&overlap))
		switch res {
		case porcupine.Illegal:
			var lines []string
			for _, o := range hist {
				lines = append(lines, fmt.Sprintf("c%d [%d,%d] %s", o.ClientId, o.Call, o.Return, ackQueueModel(k.terminal).DescribeOperation(o.Input, o.Output)))
			}
			out.Violation("c13:not-linearizable:"+k.name, "concurrent register/ack/collect history is not linearizable w.r.t. the FIFO list model", map[string]interface{}{"history": lines})
		case porcupine.Unknown:
			out.Inconclusive("porcupine timed out", nil)
		default:
			if overlap > 0 {
				out.Class(fmt.Sprintf("conc/%s/overlap%d", k.name, minI(int(overlap)/4, 8)))
			}
		}
		if g < 2 {
			out.Sample("c13.conc", 2, map[string]interface{}{"queue": k.name, "ops": len(hist), "overlapping_calls": overlap})
		}
		out.End()
	}
}

func minI(a, b int) int {
	if a < b {
		return a
	}
	return b
}
