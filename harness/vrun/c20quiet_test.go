package vrun

import (
	"fmt"
	"testing"
	"time"

	"github.com/mdzio/go-mqtt/message"

	"verif/harness/out"
	"verif/harness/rawclient"
	rc "verif/harness/refcodec"
	"verif/harness/spec"
)

// TestC20QuietStart: the server says nothing for longer than the client's connect timeout right
// after its CONNACK 0 (keep-alive 600 s, so the silence is far inside what the connection allows).
// Connect has succeeded: the connection must still be there afterwards - a Subscribe completes and
// a matching message is dispatched to its callback exactly once. Over TCP and over TLS.
func c20Quiet(tlsMode bool) {
	params := map[string]interface{}{"tls": tlsMode, "connect_timeout_s": 1, "silence_ms": 1600}
	fail := func(sig, desc string) { out.Violation(sig, desc, params) }
	peerTLS.Store(tlsMode)
	sessionConnectTimeout = 1
	s, err := openSession(nil, 0)
	sessionConnectTimeout = 5
	peerTLS.Store(false)
	if err != nil {
		out.Inconclusive("c20quiet: "+err.Error(), params)
		return
	}
	defer s.closeAll()
	time.Sleep(1600 * time.Millisecond) // the server is silent; nothing is due from the client either
	if s.srv.Closed() {
		fail("c20:quiet-start:connection-dropped", "Connect succeeded (CONNACK 0, keep-alive 600 s); the server then sent nothing for 1.6 s (connect timeout 1 s) and the client closed the connection")
		return
	}
	got := make(chan *message.PublishMessage, 8)
	done := make(chan error, 2)
	m := message.NewSubscribeMessage()
	m.AddTopic([]byte("quiet/#"), 1)
	callErr := make(chan error, 1)
	go func() {
		callErr <- s.cln.Subscribe(m, func(msg, ack message.Message, err error) error { done <- err; return nil },
			func(pm *message.PublishMessage) error { got <- pm; return nil })
	}()
	if err := s.srv.WaitFor(func(l []rawclient.Event, closed bool) bool { return countType(l, rc.SUBSCRIBE) >= 1 || closed }, 5*time.Second); err != nil || s.srv.Closed() {
		fail("c20:quiet-start:connection-dropped", fmt.Sprintf("after 1.6 s of silence from the server the client's SUBSCRIBE does not arrive (closed=%v): Connect had succeeded and the keep-alive is 600 s", s.srv.Closed()))
		return
	}
	var id uint16
	for _, e := range s.srv.Log() {
		if e.P.Type == rc.SUBSCRIBE {
			id = e.P.ID
		}
	}
	s.srv.SendPacket(&rc.Packet{Type: rc.SUBACK, ID: id, Codes: []byte{1}})
	select {
	case err := <-done:
		if err != nil {
			fail("c20:quiet-start:subscribe", "Subscribe completed with "+err.Error())
			return
		}
	case <-time.After(5 * time.Second):
		fail("c20:quiet-start:subscribe", "Subscribe did not complete after its SUBACK")
		return
	}
	<-callErr
	s.srv.SendPacket(&rc.Packet{Type: rc.PUBLISH, Topic: []byte("quiet/x"), Payload: spec.MakePayload(7, 0, 40)})
	if !s.barrier(5 * time.Second) {
		fail("c20:barrier", "the client did not answer the peer's PINGREQ")
		return
	}
	if n := len(got); n != 1 {
		fail("c20:quiet-start:callback", fmt.Sprintf("a matching message after a quiet start invoked the callback %d times", n))
		return
	}
	out.Count("c20.quiet_starts", 1)
	out.Class(fmt.Sprintf("quiet-start/tls%v", tlsMode))
}

func TestC20QuietStart(t *testing.T) {
	for g, tlsMode := range []bool{false, true} {
		id := fmt.Sprintf("c20/quiet/%v", tlsMode)
		if !mine(g) || !out.Only(id) {
			continue
		}
		out.Begin(id, 0, nil)
		c20Quiet(tlsMode)
		out.End()
	}
}
