package vrun

import (
	"fmt"
	"sync"
	"sync/atomic"
	"testing"
	"time"

	"github.com/mdzio/go-mqtt/message"

	"verif/harness/out"
	"verif/harness/rawclient"
	rc "verif/harness/refcodec"
	"verif/harness/spec"
)

// c12Concurrent: several library Clients in one process, each used by several
// goroutines at once (the Client API is documented as usable that way: every
// request method takes the write mutex). All requests are id-less, so the
// library numbers them. The peers withhold every acknowledgement until all
// requests are on the wire: the identifiers in flight on each connection must
// be non-zero and pairwise distinct; then everything is acknowledged in a
// seeded order and every completion must have fired exactly once, not before
// its own acknowledgement was sent.
func c12Concurrent(idx int, seed uint64) {
	r := spec.NewRand(seed)
	nsess := 2 + r.Intn(3)
	gor := 4 + r.Intn(5)
	per := 150 + r.Intn(250)
	params := map[string]interface{}{"case": idx, "clients": nsess, "goroutines_per_client": gor, "requests_per_goroutine": per}
	type reqInfo struct {
		kind  string
		fired int32
		at    int64 // tick of the first completion
	}
	type sessState struct {
		s    *session
		reqs []*reqInfo // index = sess-local request number
	}
	var ss []*sessState
	for i := 0; i < nsess; i++ {
		s, err := openSession(nil, 1<<20)
		if err != nil {
			out.Inconclusive("session: "+err.Error(), nil)
			for _, x := range ss {
				x.s.closeAll()
			}
			return
		}
		st := &sessState{s: s, reqs: make([]*reqInfo, gor*per)}
		ss = append(ss, st)
		defer s.closeAll()
	}
	kinds := []string{"pub1", "pub2", "sub", "unsub"}
	start := make(chan struct{})
	var wg sync.WaitGroup
	var issueErr atomic.Value
	for si, st := range ss {
		for g := 0; g < gor; g++ {
			wg.Add(1)
			go func(si, g int, st *sessState) {
				defer wg.Done()
				gr := spec.NewRand(spec.Mix(seed, uint64(si*100+g)))
				<-start
				for k := 0; k < per; k++ {
					n := g*per + k
					ri := &reqInfo{kind: kinds[gr.Intn(4)]}
					st.reqs[n] = ri
					cb := func(msg, ack message.Message, err error) error {
						if atomic.AddInt32(&ri.fired, 1) == 1 {
							atomic.StoreInt64(&ri.at, tick())
						}
						return nil
					}
					// the request number travels in the topic so the peer can tell which request a wire packet is
					topic := []byte(fmt.Sprintf("c12c/%d/%d", si, n))
					var err error
					switch ri.kind {
					case "pub1", "pub2":
						m := message.NewPublishMessage()
						m.SetTopic(topic)
						m.SetQoS(byte(ri.kind[3] - '0'))
						m.SetPayload(spec.MakePayload(uint64(n+1), 0, 20))
						err = st.s.cln.Publish(m, cb)
					case "sub":
						m := message.NewSubscribeMessage()
						m.AddTopic(topic, 1)
						err = st.s.cln.Subscribe(m, cb, func(*message.PublishMessage) error { return nil })
					default:
						m := message.NewUnsubscribeMessage()
						m.AddTopic(topic)
						err = st.s.cln.Unsubscribe(m, cb)
					}
					if err != nil {
						issueErr.Store(fmt.Sprintf("client %d request %d (%s): %v", si, n, ri.kind, err))
						return
					}
				}
			}(si, g, st)
		}
	}
	close(start)
	wg.Wait()
	if e := issueErr.Load(); e != nil {
		out.Violation("c12:request-error", e.(string), params)
		return
	}
	isReq := func(p *rc.Packet) bool {
		return (p.Type == rc.PUBLISH && p.QoS > 0) || p.Type == rc.SUBSCRIBE || p.Type == rc.UNSUBSCRIBE
	}
	total := gor * per
	collisions := 0
	for si, st := range ss {
		var ps []*rc.Packet
		st.s.srv.WaitFor(func(l []rawclient.Event, closed bool) bool {
			ps = ps[:0]
			for _, e := range l {
				if isReq(e.P) {
					ps = append(ps, e.P)
				}
			}
			return len(ps) >= total
		}, 30*time.Second)
		if len(ps) != total {
			out.Violation("c12:wire", fmt.Sprintf("client %d: %d of %d requests on the wire (frame error: %v)", si, len(ps), total, st.s.srv.FrameErr()), params)
			return
		}
		ids := map[uint16]int{}
		for _, p := range ps {
			if p.ID == 0 {
				out.Violation("c12:packet-id-zero", fmt.Sprintf("client %d: a request went out with identifier 0", si), params)
				return
			}
			ids[p.ID]++
		}
		for id, c := range ids {
			if c > 1 {
				collisions++
				if collisions == 1 {
					defer func(si int, id uint16, c int) {
						out.Violation("c12:packet-id-duplicate", fmt.Sprintf("client %d: identifier %d is carried by %d of the %d requests simultaneously in flight on its connection (%d clients x %d goroutines issuing id-less requests; %d identifiers reused in this case)", si, id, c, total, nsess, gor, collisions), params)
					}(si, id, c)
				}
			}
		}
	}
	if collisions > 0 {
		return
	}
	// acknowledge everything in a seeded order; tick taken before the terminal ack is sent
	sent := make([]map[uint16]int64, nsess)
	for si, st := range ss {
		var ps []*rc.Packet
		for _, e := range st.s.srv.Log() {
			if isReq(e.P) {
				ps = append(ps, e.P)
			}
		}
		if r.Bool() {
			for i := len(ps) - 1; i > 0; i-- {
				j := r.Intn(i + 1)
				ps[i], ps[j] = ps[j], ps[i]
			}
		}
		sent[si] = map[uint16]int64{}
		npub2 := 0
		for _, p := range ps {
			switch {
			case p.Type == rc.PUBLISH && p.QoS == 2:
				npub2++
				st.s.srv.SendPacket(&rc.Packet{Type: rc.PUBREC, ID: p.ID})
			case p.Type == rc.PUBLISH:
				sent[si][p.ID] = tick()
				st.s.srv.SendPacket(&rc.Packet{Type: rc.PUBACK, ID: p.ID})
			case p.Type == rc.SUBSCRIBE:
				sent[si][p.ID] = tick()
				st.s.srv.SendPacket(&rc.Packet{Type: rc.SUBACK, ID: p.ID, Codes: []byte{1}})
			default:
				sent[si][p.ID] = tick()
				st.s.srv.SendPacket(&rc.Packet{Type: rc.UNSUBACK, ID: p.ID})
			}
		}
		// every PUBREC must be answered by a PUBREL with the same identifier
		var rels []*rc.Packet
		st.s.srv.WaitFor(func(l []rawclient.Event, closed bool) bool {
			rels = rels[:0]
			for _, e := range l {
				if e.P.Type == rc.PUBREL {
					rels = append(rels, e.P)
				}
			}
			return len(rels) >= npub2
		}, 30*time.Second)
		if len(rels) != npub2 {
			out.Violation("c12:pubrel-missing", fmt.Sprintf("client %d: %d PUBREC sent, %d PUBREL received", si, npub2, len(rels)), params)
			return
		}
		want2 := map[uint16]bool{}
		for _, p := range ps {
			if p.Type == rc.PUBLISH && p.QoS == 2 {
				want2[p.ID] = true
			}
		}
		for _, p := range rels {
			if !want2[p.ID] {
				out.Violation("c12:pubrel-id", fmt.Sprintf("client %d: PUBREL %d matches no PUBREC (or came twice)", si, p.ID), params)
				return
			}
			delete(want2, p.ID)
			sent[si][p.ID] = tick()
			st.s.srv.SendPacket(&rc.Packet{Type: rc.PUBCOMP, ID: p.ID})
		}
		if !st.s.barrier(30 * time.Second) {
			out.Inconclusive("c12conc: no PINGRESP at the final barrier", params)
			return
		}
	}
	// completions: exactly once each, none before its acknowledgement
	for si, st := range ss {
		byTopic := map[string]uint16{}
		for _, e := range st.s.srv.Log() {
			if !isReq(e.P) {
				continue
			}
			switch e.P.Type {
			case rc.PUBLISH:
				byTopic[string(e.P.Topic)] = e.P.ID
			default:
				byTopic[string(e.P.Filters[0])] = e.P.ID
			}
		}
		for n, ri := range st.reqs {
			f := atomic.LoadInt32(&ri.fired)
			id := byTopic[fmt.Sprintf("c12c/%d/%d", si, n)]
			if f != 1 {
				out.Violation("c12:completion-count", fmt.Sprintf("client %d %s request %d (identifier %d): every acknowledgement has been processed, its completion fired %d times", si, ri.kind, n, id, f), params)
				return
			}
			if at := atomic.LoadInt64(&ri.at); at < sent[si][id] {
				out.Violation("c12:completion-early", fmt.Sprintf("client %d %s request %d (identifier %d): completion at t%d, its acknowledgement was sent at t%d", si, ri.kind, n, id, at, sent[si][id]), params)
				return
			}
		}
	}
	out.Count("c12.conc_cases", 1)
	out.Count("c12.conc_requests", int64(nsess*total))
	out.Count("c12.requests", int64(nsess*total))
	out.Max("c12.conc_in_flight_per_connection", int64(total))
	out.Class(fmt.Sprintf("conc/s%d/g%d", nsess, gor))
}

func TestC12Concurrent(t *testing.T) {
	n := pick(24, 400)
	for g := 0; g < n; g++ {
		id := fmt.Sprintf("c12/conc/%d", g)
		if !mine(g) || !out.Only(id) {
			continue
		}
		seed := caseSeed("c12c", g)
		out.Begin(id, seed, nil)
		c12Concurrent(g, seed)
		out.End()
	}
}

// c12Wrap: a request of client A stays unacknowledged while another Client in the
// same process issues so many id-less requests that automatic numbering comes
// round to A's identifier; A's next request must still get an identifier that is
// not in flight on A's connection, and both of A's requests must complete.
func c12Wrap(idx int, seed uint64) {
	kind := []string{"pub1", "sub", "pub2", "unsub"}[idx%4]
	params := map[string]interface{}{"case": idx, "kind": kind}
	a, err := openSession(nil, 0)
	if err != nil {
		out.Inconclusive("session: "+err.Error(), nil)
		return
	}
	defer a.closeAll()
	b, err := openSession(rawclient.AckPrompt, 1<<20)
	if err != nil {
		out.Inconclusive("session: "+err.Error(), nil)
		return
	}
	defer b.closeAll()
	var firedA [2]int32
	issueA := func(n int) error {
		cb := func(msg, ack message.Message, err error) error { atomic.AddInt32(&firedA[n], 1); return nil }
		topic := []byte(fmt.Sprintf("c12w/a/%d", n))
		switch kind {
		case "pub1", "pub2":
			m := message.NewPublishMessage()
			m.SetTopic(topic)
			m.SetQoS(byte(kind[3] - '0'))
			m.SetPayload(spec.MakePayload(uint64(n+1), 0, 20))
			return a.cln.Publish(m, cb)
		case "sub":
			m := message.NewSubscribeMessage()
			m.AddTopic(topic, 1)
			return a.cln.Subscribe(m, cb, func(*message.PublishMessage) error { return nil })
		}
		m := message.NewUnsubscribeMessage()
		m.AddTopic(topic)
		return a.cln.Unsubscribe(m, cb)
	}
	isReq := func(p *rc.Packet) bool {
		return (p.Type == rc.PUBLISH && p.QoS > 0) || p.Type == rc.SUBSCRIBE || p.Type == rc.UNSUBSCRIBE
	}
	reqsOf := func(s *session, n int) []*rc.Packet {
		var ps []*rc.Packet
		s.srv.WaitFor(func(l []rawclient.Event, closed bool) bool {
			ps = ps[:0]
			for _, e := range l {
				if isReq(e.P) {
					ps = append(ps, e.P)
				}
			}
			return len(ps) >= n
		}, 30*time.Second)
		return ps
	}
	if err := issueA(0); err != nil {
		out.Violation("c12:request-error", err.Error(), params)
		return
	}
	pa := reqsOf(a, 1)
	if len(pa) != 1 || pa[0].ID == 0 {
		out.Violation("c12:wire", fmt.Sprintf("A's first request on the wire: %v", pa), params)
		return
	}
	X := pa[0].ID
	pred := X - 1
	if pred == 0 {
		pred = 65535
	}
	// B: id-less QoS 1 publishes, acknowledged at once, until the numbering B draws from stands just before X
	var doneB int64
	issueB := func() error {
		m := message.NewPublishMessage()
		m.SetTopic([]byte("c12w/b"))
		m.SetQoS(1)
		m.SetPayload([]byte("x"))
		return b.cln.Publish(m, func(msg, ack message.Message, err error) error { atomic.AddInt64(&doneB, 1); return nil })
	}
	nb := 0
	lastB := func() uint16 {
		ps := reqsOf(b, nb)
		if len(ps) < nb {
			return 0
		}
		return ps[nb-1].ID
	}
	fail := func(e error) { out.Violation("c12:request-error", "B: "+e.Error(), params) }
	for i := 0; i < 64000; i++ {
		if err := issueB(); err != nil {
			fail(err)
			return
		}
		nb++
	}
	reached := false
	for i := 0; i < 140000; i++ {
		if l := lastB(); l == pred {
			reached = true
			break
		} else if l == 0 {
			break
		}
		if err := issueB(); err != nil {
			fail(err)
			return
		}
		nb++
	}
	if !reached {
		out.Inconclusive("c12wrap: B's numbering never stood just before A's identifier", params)
		return
	}
	if err := issueA(1); err != nil {
		out.Violation("c12:request-error", err.Error(), params)
		return
	}
	pa = reqsOf(a, 2)
	if len(pa) != 2 {
		out.Violation("c12:wire", "A's second request is not on the wire", params)
		return
	}
	if pa[1].ID == 0 || pa[1].ID == X {
		out.Violation("c12:packet-id-duplicate", fmt.Sprintf("client A: %s request with identifier %d is unacknowledged; after %d id-less requests of another Client in the process, A's next request went out with identifier %d", kind, X, nb, pa[1].ID), params)
		return
	}
	// acknowledge both; both completions must fire exactly once
	for _, p := range pa {
		switch {
		case p.Type == rc.PUBLISH && p.QoS == 2:
			a.srv.SendPacket(&rc.Packet{Type: rc.PUBREC, ID: p.ID})
		case p.Type == rc.PUBLISH:
			a.srv.SendPacket(&rc.Packet{Type: rc.PUBACK, ID: p.ID})
		case p.Type == rc.SUBSCRIBE:
			a.srv.SendPacket(&rc.Packet{Type: rc.SUBACK, ID: p.ID, Codes: []byte{1}})
		default:
			a.srv.SendPacket(&rc.Packet{Type: rc.UNSUBACK, ID: p.ID})
		}
	}
	if kind == "pub2" {
		a.srv.WaitFor(func(l []rawclient.Event, closed bool) bool { return countType(l, rc.PUBREL) >= 2 }, 10*time.Second)
		for _, p := range pa {
			a.srv.SendPacket(&rc.Packet{Type: rc.PUBCOMP, ID: p.ID})
		}
	}
	if !a.barrier(10 * time.Second) {
		out.Inconclusive("c12wrap: no PINGRESP", params)
		return
	}
	for n := 0; n < 2; n++ {
		if f := atomic.LoadInt32(&firedA[n]); f != 1 {
			out.Violation("c12:completion-count", fmt.Sprintf("client A request %d (identifier %d): acknowledged, completion fired %d times", n, pa[n].ID, f), params)
			return
		}
	}
	// B goes on across the wrap of its own numbering (its 65536th request and beyond): every one of its
	// requests has a non-zero identifier on the wire and completes once acknowledged
	for i := 0; i < 300; i++ {
		if err := issueB(); err != nil {
			fail(err)
			return
		}
		nb++
	}
	psB := reqsOf(b, nb)
	if len(psB) < nb {
		out.Violation("c12:wire", fmt.Sprintf("client B: %d requests issued, %d on the wire", nb, len(psB)), params)
		return
	}
	for i, p := range psB {
		if p.ID == 0 {
			out.Violation("c12:packet-id-zero", fmt.Sprintf("client B's request number %d went out with packet identifier 0", i+1), params)
			return
		}
	}
	if !b.barrier(30 * time.Second) {
		out.Inconclusive("c12wrap: no PINGRESP from B", params)
		return
	}
	if d := atomic.LoadInt64(&doneB); d != int64(nb) {
		out.Violation("c12:completion-missing:id-wrap", fmt.Sprintf("client B issued %d QoS 1 publishes on one connection (its numbering wrapped after 65535), each acknowledged by the peer at once; %d completions fired", nb, d), params)
		return
	}
	out.Count("c12.wrap_own_numbering_wrapped", 1)
	out.Count("c12.wrap_cases", 1)
	out.Count("c12.wrap_other_client_requests", int64(nb))
	out.Class("wrap/" + kind)
}

func TestC12Wrap(t *testing.T) {
	n := pick(4, 16)
	for g := 0; g < n; g++ {
		id := fmt.Sprintf("c12/wrap/%d", g)
		if !mine(g) || !out.Only(id) {
			continue
		}
		seed := caseSeed("c12w", g)
		out.Begin(id, seed, nil)
		c12Wrap(g, seed)
		out.End()
	}
}
