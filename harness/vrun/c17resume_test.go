package vrun

import (
	"fmt"
	"sync"
	"sync/atomic"
	"testing"
	"time"

	"github.com/mdzio/go-mqtt/message"

	"verif/harness/out"
	"verif/harness/rawclient"
	rc "verif/harness/refcodec"
	"verif/harness/spec"
)

// TestC17Resume: the byte stream on a connection that resumes a stored session
// while messages for its subscriptions are pouring in. The session's filters are
// active again before the client has read anything, so deliveries of 9..30 KiB
// (more than one block of the sender) are queued for the connection from its very
// first moment. Everything the client reads must be whole packets - the CONNACK
// first, then PUBLISH packets with intact payloads, in publishing order per
// publisher. 2..4 publishers (raw clients and Server.Publish), 30..60 reconnects
// per case. Real time over net.Pipe with 64 KiB rings.
func c17Resume(idx int, seed uint64) {
	r := spec.NewRand(seed)
	npub := 2 + r.Intn(3)
	rounds := 30 + r.Intn(30)
	params := map[string]interface{}{"case": idx, "publishers": npub, "reconnects": rounds}
	fail := func(sig, desc string) { out.Violation(sig, desc, params) }
	w := newWorld(worldCfg{BufferSize: 65536})
	defer w.shutdown()
	const wait = 20 * time.Second
	id := fmt.Sprintf("resumer-%d", idx)
	first := w.dial("first", connectOpts{ClientID: id, Clean: false, KeepAlive: 6000})
	first.SendPacket(&rc.Packet{Type: rc.SUBSCRIBE, ID: 1, Filters: [][]byte{[]byte("rs/#")}, QoSs: []byte{0}})
	if first.WaitFor(func(l []rawclient.Event, closed bool) bool { return countType(l, rc.SUBACK) == 1 }, wait) != nil {
		out.Inconclusive("c17resume: first connection", params)
		return
	}
	first.SendPacket(&rc.Packet{Type: rc.DISCONNECT})
	first.Flush()
	first.Close()
	if w.sink != nil {
		w.sink.waitCount("stop.done", id, 1, wait)
	} else {
		time.Sleep(20 * time.Millisecond)
	}
	var stop atomic.Bool
	var wg sync.WaitGroup
	var published int64
	for p := 0; p < npub; p++ {
		pr := spec.NewRand(spec.Mix(seed, uint64(100+p)))
		inproc := p == npub-1
		var pc *rawclient.Client
		if !inproc {
			pc = w.dial(fmt.Sprintf("pub%d", p), connectOpts{ClientID: fmt.Sprintf("rs-pub-%d-%d", idx, p), Clean: true, KeepAlive: 6000})
			if pc.WaitFor(func(l []rawclient.Event, closed bool) bool { return len(l) > 0 }, wait) != nil {
				out.Inconclusive("c17resume: publisher", params)
				return
			}
		}
		wg.Add(1)
		go func(p int) {
			defer wg.Done()
			topic := []byte(fmt.Sprintf("rs/%d", p))
			for k := uint32(0); !stop.Load(); k++ {
				pl := spec.MakePayload(uint64(p+1), k, 9000+pr.Intn(21000))
				if inproc {
					m := message.NewPublishMessage()
					m.SetTopic(topic)
					m.SetPayload(pl)
					w.svr.Publish(m)
				} else {
					pc.SendPacket(&rc.Packet{Type: rc.PUBLISH, Topic: topic, Payload: pl})
				}
				atomic.AddInt64(&published, 1)
				time.Sleep(time.Duration(pr.Intn(300)) * time.Microsecond)
			}
		}(p)
	}
	defer func() { stop.Store(true); wg.Wait() }()
	for rd := 0; rd < rounds; rd++ {
		c := w.dial(fmt.Sprintf("re%d", rd), connectOpts{ClientID: id, Clean: false, KeepAlive: 6000})
		want := 6 + r.Intn(20)
		c.WaitFor(func(l []rawclient.Event, closed bool) bool { return countType(l, rc.PUBLISH) >= want || closed }, wait)
		d := fmt.Sprintf("reconnect %d of a session subscribed to rs/# while %d publishers send 9..30 KiB messages to it", rd, npub)
		if ferr := c.FrameErr(); ferr != nil {
			fail("c17:resume:framing", d+": the bytes the client read are not a sequence of MQTT packets: "+ferr.Error())
			return
		}
		l := c.Log()
		if len(l) == 0 || l[0].P.Type != rc.CONNACK {
			t := -1
			if len(l) > 0 {
				t = int(l[0].P.Type)
			}
			fail("c17:resume:first-packet", d+fmt.Sprintf(": the first packet on the connection is not the CONNACK (type %d, %d packets read)", t, len(l)))
			return
		}
		last := map[uint64]int64{}
		for i, e := range l[1:] {
			if e.P.Type != rc.PUBLISH {
				fail("c17:resume:unexpected", d+fmt.Sprintf(": packet %d has type %d", i+1, e.P.Type))
				return
			}
			dl := decodeDelivery(e.P)
			if !dl.ok {
				fail("c17:resume:payload", d+fmt.Sprintf(": PUBLISH %d on %q carries a payload of %d bytes that is not one that was published", i+1, e.P.Topic, len(e.P.Payload)))
				return
			}
			if prev, ok := last[dl.uid]; ok && int64(dl.seq) <= prev {
				fail("c17:resume:order", d+fmt.Sprintf(": publisher %d's message %d arrived after its message %d", dl.uid, dl.seq, prev))
				return
			}
			last[dl.uid] = int64(dl.seq)
			out.Count("c17.resume_deliveries", 1)
		}
		if countType(l, rc.PUBLISH) < want {
			fail("c17:resume:starved", d+fmt.Sprintf(": the connection ended after %d deliveries", countType(l, rc.PUBLISH)))
			return
		}
		if r.Bool() {
			c.SendPacket(&rc.Packet{Type: rc.DISCONNECT})
			c.Flush()
		}
		c.Close()
		if w.sink != nil {
			w.sink.waitCount("stop.done", id, rd+2, wait)
		} else {
			time.Sleep(2 * time.Millisecond)
		}
		out.Count("c17.resume_reconnects", 1)
	}
	out.Count("c17.resume_cases", 1)
	out.Count("c17.resume_published", atomic.LoadInt64(&published))
	out.Class(fmt.Sprintf("resume/p%d", npub))
}

func TestC17Resume(t *testing.T) {
	n := pick(8, 64)
	for g := 0; g < n; g++ {
		id := fmt.Sprintf("c17/resume/%d", g)
		if !mine(g) || !out.Only(id) {
			continue
		}
		seed := caseSeed("c17rs", g)
		out.Begin(id, seed, nil)
		c17Resume(g, seed)
		out.End()
	}
}
