package vrun

import (
	"fmt"
	"sync"
	"testing"
	"time"

	"github.com/mdzio/go-mqtt/message"

	"verif/harness/out"
	"verif/harness/rawclient"
	rc "verif/harness/refcodec"
	"verif/harness/spec"
)

// TestC20Qos2Burst (client role): after a completed Subscribe and h QoS 2 deliveries
// completed one at a time, the scripted server has n > 16 QoS 2 PUBLISH packets open at
// once (it collects the client's PUBRECs, then sends the PUBRELs in order). After the
// PINGREQ/PINGRESP barrier the callback must have been invoked exactly once per message,
// in the order of the PUBRELs; every PUBREL must have been answered with a PUBCOMP.
func c20Qos2Burst(idx int, seed uint64) {
	r := spec.NewRand(seed)
	h := r.Intn(40)
	n := 17 + r.Intn(60)
	params := map[string]interface{}{"case": idx, "completed_first": h, "burst": n}
	fail := func(sig, desc string) { out.Violation(sig, desc, params) }
	s, err := openSession(nil, 1<<20)
	if err != nil {
		out.Inconclusive("session: "+err.Error(), nil)
		return
	}
	defer s.closeAll()
	const wait = 20 * time.Second
	var mu sync.Mutex
	var got []uint32
	bad := 0
	done := make(chan error, 1)
	sm := message.NewSubscribeMessage()
	sm.AddTopic([]byte("q2/#"), 2)
	err = s.cln.Subscribe(sm, func(msg, ack message.Message, err error) error { done <- err; return nil },
		func(m *message.PublishMessage) error {
			uid, sq, ok := spec.ParsePayload(m.Payload())
			mu.Lock()
			if ok && uid == 88 {
				got = append(got, sq)
			} else {
				bad++
			}
			mu.Unlock()
			return nil
		})
	if err != nil {
		fail("c20:subscribe-error", err.Error())
		return
	}
	if s.srv.WaitFor(func(l []rawclient.Event, closed bool) bool { return countType(l, rc.SUBSCRIBE) == 1 }, wait) != nil {
		out.Inconclusive("c20qos2: no SUBSCRIBE", params)
		return
	}
	var sid uint16
	for _, e := range s.srv.Log() {
		if e.P.Type == rc.SUBSCRIBE {
			sid = e.P.ID
		}
	}
	s.srv.SendPacket(&rc.Packet{Type: rc.SUBACK, ID: sid, Codes: []byte{2}})
	select {
	case <-done:
	case <-time.After(wait):
		out.Inconclusive("c20qos2: Subscribe did not complete", params)
		return
	}
	seq := uint32(0)
	id := uint16(0)
	recs, comps := 0, 0
	send := func() uint16 {
		seq++
		id++
		s.srv.SendPacket(&rc.Packet{Type: rc.PUBLISH, QoS: 2, ID: id, Topic: []byte(fmt.Sprintf("q2/%d", seq%5)), Payload: spec.MakePayload(88, seq, 20+r.Intn(200))})
		return id
	}
	waitN := func(t byte, k int) bool {
		return s.srv.WaitFor(func(l []rawclient.Event, closed bool) bool { return countType(l, t) >= k }, wait) == nil
	}
	for k := 0; k < h; k++ {
		pid := send()
		recs++
		if !waitN(rc.PUBREC, recs) {
			fail("c20:no-pubrec", fmt.Sprintf("no PUBREC for delivery %d", seq))
			return
		}
		s.srv.SendPacket(&rc.Packet{Type: rc.PUBREL, ID: pid})
		comps++
		if !waitN(rc.PUBCOMP, comps) {
			fail("c20:no-pubcomp", fmt.Sprintf("no PUBCOMP for delivery %d", seq))
			return
		}
	}
	var ids []uint16
	for k := 0; k < n; k++ {
		ids = append(ids, send())
	}
	recs += n
	if !waitN(rc.PUBREC, recs) {
		fail("c20:no-pubrec", fmt.Sprintf("%d QoS 2 deliveries open at once: %d PUBREC received", n, countType(s.srv.Log(), rc.PUBREC)-(recs-n)))
		return
	}
	for _, pid := range ids {
		s.srv.SendPacket(&rc.Packet{Type: rc.PUBREL, ID: pid})
	}
	comps += n
	if !waitN(rc.PUBCOMP, comps) {
		fail("c20:no-pubcomp", fmt.Sprintf("%d PUBREL sent, %d PUBCOMP received", n, countType(s.srv.Log(), rc.PUBCOMP)-(comps-n)))
		return
	}
	if !s.barrier(wait) {
		out.Inconclusive("c20qos2: no PINGRESP", params)
		return
	}
	mu.Lock()
	defer mu.Unlock()
	if bad > 0 {
		fail("c20:callback-corrupt", fmt.Sprintf("%d callbacks with a corrupted message", bad))
		return
	}
	okOrder := len(got) == h+n
	for i := 0; okOrder && i < len(got); i++ {
		okOrder = got[i] == uint32(i+1)
	}
	if !okOrder {
		first := len(got)
		for i := range got {
			if got[i] != uint32(i+1) {
				first = i
				break
			}
		}
		fail("c20:callback-qos2-burst", fmt.Sprintf("%d QoS 2 deliveries completed one by one, then %d open at once and released in order: the callback ran %d times (expected %d), first deviation at position %d: %v...", h, n, len(got), h+n, first, got[min(first, len(got)):min(first+6, len(got))]))
		return
	}
	out.Count("c20.qos2_bursts", 1)
	out.Count("c20.qos2_burst_messages", int64(h+n))
	out.Class(fmt.Sprintf("qos2burst/h%d/n%d", h%16, n/16))
}

func TestC20Qos2Burst(t *testing.T) {
	if raceEnabled {
		return
	}
	n := pick(60, 1500)
	for g := 0; g < n; g++ {
		id := fmt.Sprintf("c20/qos2burst/%d", g)
		if !mine(g) || !out.Only(id) {
			continue
		}
		seed := caseSeed("c20q", g)
		out.Begin(id, seed, nil)
		c20Qos2Burst(g, seed)
		out.End()
	}
}
