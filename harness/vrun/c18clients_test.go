package vrun

import (
	"fmt"
	"sync"
	"testing"
	"time"

	"github.com/mdzio/go-mqtt/message"

	"verif/harness/out"
	"verif/harness/rawclient"
	rc "verif/harness/refcodec"
	"verif/harness/spec"
)

// TestC18Clients (workload W9, for the race detector): several library Clients in
// one process - separate objects, separate connections, separate client
// identifiers - connect, subscribe, publish and disconnect at the same time, each
// against its own scripted TCP peer. Nothing is shared between them as far as the
// API goes; whatever the library shares behind it must be synchronised. The
// verdict comes from the race detector's log (and from the process surviving: an
// unsynchronised map dies with "concurrent map writes").
func c18Clients(idx int, seed uint64) {
	r := spec.NewRand(seed)
	workers := 4 + r.Intn(9)
	rounds := 6 + r.Intn(10)
	params := map[string]interface{}{"case": idx, "clients_at_once": workers, "rounds": rounds, "race_build": raceEnabled}
	var wg sync.WaitGroup
	var mu sync.Mutex
	var problems []string
	start := make(chan struct{})
	for g := 0; g < workers; g++ {
		wg.Add(1)
		go func(g int) {
			defer wg.Done()
			<-start
			for k := 0; k < rounds; k++ {
				s, err := openSession(rawclient.AckPrompt, 0)
				if err != nil {
					mu.Lock()
					problems = append(problems, err.Error())
					mu.Unlock()
					return
				}
				done := make(chan struct{}, 4)
				sm := message.NewSubscribeMessage()
				sm.AddTopic([]byte(fmt.Sprintf("w9/%d", g)), 1)
				s.cln.Subscribe(sm, func(msg, ack message.Message, err error) error { done <- struct{}{}; return nil }, func(*message.PublishMessage) error { return nil })
				var sub *rc.Packet
				s.srv.WaitFor(func(l []rawclient.Event, closed bool) bool {
					for _, e := range l {
						if e.P.Type == rc.SUBSCRIBE {
							sub = e.P
							return true
						}
					}
					return closed
				}, 10*time.Second)
				if sub != nil {
					s.srv.SendPacket(&rc.Packet{Type: rc.SUBACK, ID: sub.ID, Codes: []byte{1}})
					select {
					case <-done:
					case <-time.After(10 * time.Second):
					}
				}
				pm := message.NewPublishMessage()
				pm.SetTopic([]byte("w9/out"))
				pm.SetPayload(spec.MakePayload(uint64(g+1), uint32(k), 40))
				s.cln.Publish(pm, nil)
				s.closeAll()
				out.Count("c18.clients_sessions", 1)
			}
		}(g)
	}
	close(start)
	wg.Wait()
	if len(problems) > 0 {
		out.Inconclusive("c18clients: "+problems[0], params)
		return
	}
	out.Count("c18.clients_cases", 1)
	out.Class("wl/W9-library-clients")
}

func TestC18Clients(t *testing.T) {
	n := pick(8, 64)
	for g := 0; g < n; g++ {
		id := fmt.Sprintf("c18/clients/%d", g)
		if !mine(g) || !out.Only(id) {
			continue
		}
		seed := caseSeed("c18cl", g)
		out.Begin(id, seed, nil)
		c18Clients(g, seed)
		out.End()
	}
}
