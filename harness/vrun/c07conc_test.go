package vrun

import (
	"fmt"
	"sync"
	"testing"
	"time"

	"verif/harness/out"
	"verif/harness/rawclient"
	rc "verif/harness/refcodec"
	"verif/harness/spec"
)

// TestC07Conc: many connections SUBSCRIBE to the same filter (the same node of
// the subscription tree) at the same moment, later UNSUBSCRIBE at the same
// moment. Every request must be acknowledged; a publication accepted after all
// SUBACKs must reach every one of them (before the PINGRESP that follows), one
// accepted after all UNSUBACKs must reach none. Real time; barriers are
// PINGREQ/PINGRESP round trips, not deadlines.
func c07Conc(idx int, seed uint64) {
	r := spec.NewRand(seed)
	nsub := 4 + r.Intn(10)
	rounds := 20 + r.Intn(20)
	params := map[string]interface{}{"case": idx, "subscribers": nsub, "rounds": rounds}
	fail := func(sig, desc string) { out.Violation(sig, desc, params) }
	w := newWorld(worldCfg{BufferSize: 65536})
	defer w.shutdown()
	const wait = 30 * time.Second
	connect := func(name string) *rawclient.Client {
		c := w.dial(name, connectOpts{ClientID: name, Clean: true, KeepAlive: 6000})
		if c.WaitFor(func(l []rawclient.Event, closed bool) bool { return len(l) > 0 }, wait) != nil || c.Log()[0].P.Type != rc.CONNACK {
			return nil
		}
		return c
	}
	pings := map[*rawclient.Client]int{}
	var pmu sync.Mutex
	ping := func(c *rawclient.Client) bool {
		pmu.Lock()
		pings[c]++
		n := pings[c]
		pmu.Unlock()
		c.SendPacket(&rc.Packet{Type: rc.PINGREQ})
		return c.WaitFor(func(l []rawclient.Event, closed bool) bool { return countType(l, rc.PINGRESP) >= n }, wait) == nil
	}
	pub := connect("pub")
	if pub == nil {
		out.Inconclusive("c07conc: publisher could not connect", params)
		return
	}
	subs := make([]*rawclient.Client, nsub)
	for i := range subs {
		if subs[i] = connect(fmt.Sprintf("s%d", i)); subs[i] == nil {
			out.Inconclusive("c07conc: subscriber could not connect", params)
			return
		}
	}
	uid := uint64(0)
	pid := uint16(0)
	publish := func(topic string) (uint64, bool) {
		uid++
		pid++
		pub.SendPacket(&rc.Packet{Type: rc.PUBLISH, Topic: []byte(topic), QoS: 1, ID: pid, Payload: spec.MakePayload(uid, 0, 30)})
		return uid, ping(pub) // PUBACK is written before the fan-out, the PINGRESP after it
	}
	received := func(c *rawclient.Client, u uint64) int {
		n := 0
		for _, e := range c.Log() {
			if e.P.Type == rc.PUBLISH {
				if d := decodeDelivery(e.P); d.ok && d.uid == u {
					n++
				}
			}
		}
		return n
	}
	for rd := 0; rd < rounds; rd++ {
		// the filters of one round all live on the same node or on siblings under one parent
		base := fmt.Sprintf("c07c/%d/%d", idx, rd)
		variants := []string{base + "/x", base + "/x", base + "/x", base + "/+", base + "/#"}
		mine := make([]string, nsub)
		for i := range mine {
			mine[i] = variants[r.Intn(len(variants))]
		}
		together := func(f func(i int)) {
			start := make(chan struct{})
			var wg sync.WaitGroup
			for i := 0; i < nsub; i++ {
				wg.Add(1)
				go func(i int) { defer wg.Done(); <-start; f(i) }(i)
			}
			close(start)
			wg.Wait()
		}
		acked := make([]bool, nsub)
		id := uint16(2*rd + 1)
		together(func(i int) {
			c := subs[i]
			c.SendPacket(&rc.Packet{Type: rc.SUBSCRIBE, ID: id, Filters: [][]byte{[]byte(mine[i])}, QoSs: []byte{1}})
			acked[i] = c.WaitFor(func(l []rawclient.Event, closed bool) bool {
				for _, e := range l {
					if e.P.Type == rc.SUBACK && e.P.ID == id {
						return true
					}
				}
				return false
			}, wait) == nil
		})
		for i, ok := range acked {
			if !ok {
				fail("c07:no-suback", fmt.Sprintf("round %d: subscriber %d got no SUBACK for %q (closed=%v)", rd, i, mine[i], subs[i].Closed()))
				return
			}
		}
		u, ok := publish(base + "/x")
		if !ok {
			fail("c07:publisher-lost", fmt.Sprintf("round %d: the publisher got no PINGRESP after publishing (closed=%v)", rd, pub.Closed()))
			return
		}
		for i, c := range subs {
			if !ping(c) {
				fail("c07:subscriber-lost", fmt.Sprintf("round %d: subscriber %d got no PINGRESP (closed=%v)", rd, i, c.Closed()))
				return
			}
			if n := received(c, u); n != 1 {
				fail("c07:subscribe-not-effective", fmt.Sprintf("round %d: %d connections subscribed at the same moment (filters on one tree node); subscriber %d holds a SUBACK for %q, a publication to %q accepted afterwards reached it %d times", rd, nsub, i, mine[i], base+"/x", n))
				return
			}
		}
		id++
		together(func(i int) {
			c := subs[i]
			c.SendPacket(&rc.Packet{Type: rc.UNSUBSCRIBE, ID: id, Filters: [][]byte{[]byte(mine[i])}})
			acked[i] = c.WaitFor(func(l []rawclient.Event, closed bool) bool {
				for _, e := range l {
					if e.P.Type == rc.UNSUBACK && e.P.ID == id {
						return true
					}
				}
				return false
			}, wait) == nil
		})
		for i, ok := range acked {
			if !ok {
				fail("c07:no-unsuback", fmt.Sprintf("round %d: subscriber %d got no UNSUBACK (closed=%v)", rd, i, subs[i].Closed()))
				return
			}
		}
		u, ok = publish(base + "/x")
		if !ok {
			fail("c07:publisher-lost", fmt.Sprintf("round %d: the publisher got no PINGRESP after publishing (closed=%v)", rd, pub.Closed()))
			return
		}
		for i, c := range subs {
			if !ping(c) {
				fail("c07:subscriber-lost", fmt.Sprintf("round %d: subscriber %d got no PINGRESP (closed=%v)", rd, i, c.Closed()))
				return
			}
			if n := received(c, u); n != 0 {
				fail("c07:unsubscribe-not-effective", fmt.Sprintf("round %d: subscriber %d holds an UNSUBACK for %q, a publication accepted afterwards still reached it %d times", rd, i, mine[i], n))
				return
			}
		}
		out.Count("c07.conc_rounds", 1)
		out.Count("c07.conc_simultaneous_subscribes", int64(nsub))
	}
	out.Count("c07.conc_cases", 1)
	out.Class(fmt.Sprintf("conc/n%d", nsub))
}

func TestC07Conc(t *testing.T) {
	n := pick(16, 400)
	for g := 0; g < n; g++ {
		id := fmt.Sprintf("c07/conc/%d", g)
		if !mine(g) || !out.Only(id) {
			continue
		}
		seed := caseSeed("c07c", g)
		out.Begin(id, seed, nil)
		c07Conc(g, seed)
		out.End()
	}
}
