package vrun

import (
	"fmt"
	"sort"
	"strings"
	"testing"

	"github.com/mdzio/go-mqtt/message"

	"verif/harness/out"
	rc "verif/harness/refcodec"
	"verif/harness/spec"
)

var c08Topics = []string{"r/a", "r/b", "r/a/x", "r/a/y", "r", "s/1", "s/2", "s/1/deep/er", "t", "u/v/w"}
var c08Filters = []string{"r/a", "r/b", "r/+", "r/#", "#", "+", "s/+", "s/#", "+/a", "r/a/+", "r/a/#", "t", "u/#", "+/+/+", "s/1/deep/er", "nomatch/+"}

type retainedVal struct {
	uid uint64
	qos byte
	n   int
}

func c08History(t *testing.T, idx int, seed uint64) {
	r := spec.NewRand(seed)
	bufSize := int64(16384)
	if idx%3 == 0 {
		bufSize = 65536
	}
	nclients := 3 + r.Intn(3)
	steps := 20 + r.Intn(30)
	params := map[string]interface{}{"buffer": bufSize, "clients": nclients, "steps": steps}
	var ops []string
	bubble(t, "c08", params, func(cl *cleanup) {
		w := newWorld(worldCfg{BufferSize: bufSize})
		cl.add(w.shutdown)
		fail := func(sig, desc string) {
			o := ops
			if len(o) > 30 {
				o = o[len(o)-30:]
			}
			out.Violation(sig, desc, map[string]interface{}{"history": idx, "params": params, "last_ops": o})
		}
		var uids uidGen
		model := map[string]retainedVal{}
		clients := make([]*bclient, nclients)
		for i := range clients {
			c, ack := w.connectB(fmt.Sprintf("c%d", i), connectOpts{Clean: true, KeepAlive: 600})
			if ack == nil || ack.ReturnCode != 0 {
				fail("c08:connect", "no CONNACK")
				return
			}
			clients[i] = c
		}
		ip := newInproc()
		// checks the live forwards of one publish (exact, C01 oracle) and the retain flag
		checkLive := func(topic string, q byte, uid uint64, empty bool) bool {
			for _, c := range clients {
				if c.Closed() {
					fail("c08:connection-lost", c.name+" lost its connection")
					return false
				}
				got := publishesIn(c.fresh())
				for i := range got {
					if empty && got[i].n == 0 {
						got[i].uid, got[i].ok = uid, true // the clearing message itself has no payload to identify it
					}
					if got[i].retain {
						fail("c08:live-retain-flag", fmt.Sprintf("%s: message forwarded to an existing subscription on %q carries retain=1", c.name, got[i].topic))
						return false
					}
				}
				var desc []string
				if sig := c01Check(c.name, c.subs, topic, q, got, uid, &desc); sig != "" {
					fail("c08:live:"+strings.TrimPrefix(sig, "c01:"), strings.Join(desc, "; "))
					return false
				}
			}
			got := ip.fresh()
			for i := range got {
				if empty && got[i].n == 0 {
					got[i].uid, got[i].ok = uid, true
				}
			}
			var desc []string
			if sig := c01Check("inproc", ip.subs, topic, q, got, uid, &desc); sig != "" {
				fail("c08:live:"+strings.TrimPrefix(sig, "c01:"), strings.Join(desc, "; "))
				return false
			}
			return true
		}
		// expected retained copies for a set of (filter, granted) pairs
		expectRetained := func(filters []string, granted []byte) []string {
			var want []string
			for i, f := range filters {
				if granted[i] > 2 {
					continue
				}
				for tn, v := range model {
					if spec.Match(f, tn) {
						want = append(want, fmt.Sprintf("%s uid%d q%d", tn, v.uid, minQ(v.qos, granted[i])))
					}
				}
			}
			sort.Strings(want)
			return want
		}
		for s := 0; s < steps; s++ {
			c := clients[r.Intn(nclients)]
			switch op := r.Intn(20); {
			case op < 6: // retained publish
				topic := c08Topics[r.Intn(len(c08Topics))]
				q := byte(r.Intn(3))
				size := []int{spec.PayloadMin, 100, 1000, 5000}[r.Intn(4)]
				uid := uids.next()
				pl := spec.MakePayload(uid, uint32(s), size)
				if r.Intn(5) == 0 {
					ops = append(ops, fmt.Sprintf("Server.Publish retained %q q%d %dB uid%d", topic, q, size, uid))
					m := message.NewPublishMessage()
					m.SetTopic([]byte(topic))
					m.SetQoS(q)
					m.SetRetain(true)
					m.SetPayload(pl)
					if err := w.svr.Publish(m); err != nil {
						fail("c08:server-publish", err.Error())
						return
					}
					settle()
				} else {
					ops = append(ops, fmt.Sprintf("%s publish retained %q q%d %dB uid%d", c.name, topic, q, size, uid))
					c.publishB(topic, q, true, pl)
				}
				model[topic] = retainedVal{uid, q, size}
				if !checkLive(topic, q, uid, false) {
					return
				}
				out.Count("c08.retained_publishes", 1)
			case op < 8: // plain publish on a retained topic
				topic := c08Topics[r.Intn(len(c08Topics))]
				q := byte(r.Intn(3))
				uid := uids.next()
				ops = append(ops, fmt.Sprintf("%s publish plain %q q%d uid%d", c.name, topic, q, uid))
				c.publishB(topic, q, false, spec.MakePayload(uid, uint32(s), 60))
				if !checkLive(topic, q, uid, false) {
					return
				}
			case op < 10: // clear
				topic := c08Topics[r.Intn(len(c08Topics))]
				q := byte(r.Intn(3))
				uid := uids.next()
				ops = append(ops, fmt.Sprintf("%s clear %q q%d", c.name, topic, q))
				c.publishB(topic, q, true, nil)
				delete(model, topic)
				if !checkLive(topic, q, uid, true) {
					return
				}
				out.Count("c08.clears", 1)
			case op < 12: // filler: more than two ring sizes through one connection
				ops = append(ops, c.name+" filler")
				sent := int64(0)
				for sent < 2*bufSize+1000 {
					uid := uids.next()
					c.SendPacket(&rc.Packet{Type: rc.PUBLISH, Topic: []byte("filler/x"), Payload: spec.MakePayload(uid, 0, 3000)})
					sent += 3012
				}
				settle()
				for _, cj := range clients {
					if len(publishesIn(cj.fresh())) > 0 && !matchesAny(cj.subs, "filler/x") {
						fail("c08:live:unexpected-delivery", cj.name+" received filler traffic")
						return
					}
				}
				ip.fresh()
				out.Count("c08.filler_rounds", 1)
			case op < 13: // unsubscribe
				var fs []string
				for f := range c.subs {
					fs = append(fs, f)
				}
				if len(fs) == 0 {
					continue
				}
				sort.Strings(fs)
				f := fs[r.Intn(len(fs))]
				ops = append(ops, fmt.Sprintf("%s unsubscribe %q", c.name, f))
				if ack, _ := c.unsubscribeB([]string{f}); ack == nil {
					fail("c08:unsuback", "no UNSUBACK")
					return
				}
				delete(c.subs, f)
			case op < 14: // in-process subscription
				f := c08Filters[r.Intn(len(c08Filters))]
				q := byte(r.Intn(3))
				ops = append(ops, fmt.Sprintf("Server.Subscribe %q q%d", f, q))
				if err := w.svr.Subscribe(f, q, &ip.fn); err != nil {
					fail("c08:inproc-subscribe", err.Error())
					return
				}
				settle()
				ip.subs[f] = q
				var got []string
				for _, d := range ip.fresh() {
					if !d.ok {
						fail("c08:retained-payload", fmt.Sprintf("in-process subscriber: retained message on %q has a corrupted payload", d.topic))
						return
					}
					if !d.retain {
						fail("c08:retained-flag", fmt.Sprintf("in-process subscriber: retained message on %q delivered with retain=0", d.topic))
						return
					}
					got = append(got, fmt.Sprintf("%s uid%d q%d", d.topic, d.uid, d.qos))
				}
				sort.Strings(got)
				want := expectRetained([]string{f}, []byte{q})
				if strings.Join(got, ";") != strings.Join(want, ";") {
					fail("c08:retained-set", fmt.Sprintf("Server.Subscribe(%q,%d): retained delivered [%s], expected [%s]", f, q, strings.Join(got, "; "), strings.Join(want, "; ")))
					return
				}
				out.Count("c08.subscriptions", 1)
			default: // new subscription by a wire client
				nf := 1 + r.Intn(3)
				var fs []string
				var qs []byte
				for i := 0; i < nf; i++ {
					fs = append(fs, c08Filters[r.Intn(len(c08Filters))])
					qs = append(qs, byte(r.Intn(3)))
				}
				ops = append(ops, fmt.Sprintf("%s subscribe %q %v", c.name, fs, qs))
				before := c.mark
				ack, rest := c.subscribeB(fs, qs)
				if ack == nil || len(ack.Codes) != nf {
					fail("c08:suback", fmt.Sprintf("no proper SUBACK (%v)", ack))
					return
				}
				// SUBACK must precede the retained messages
				evs := c.Since(before)
				seenAck := false
				for _, e := range evs {
					if e.P.Type == rc.SUBACK {
						seenAck = true
					} else if e.P.Type == rc.PUBLISH && !seenAck {
						fail("c08:retained-before-suback", "a retained message arrived before the SUBACK")
						return
					}
				}
				// the last grant wins for a filter repeated in the request
				for i, f := range fs {
					if ack.Codes[i] <= 2 {
						c.subs[f] = ack.Codes[i]
					}
				}
				var got []string
				for _, d := range publishesIn(rest) {
					if !d.ok {
						fail("c08:retained-payload", fmt.Sprintf("%s: retained message on %q has a corrupted payload (%d bytes)", c.name, d.topic, d.n))
						return
					}
					if !d.retain {
						fail("c08:retained-flag", fmt.Sprintf("%s: retained message on %q delivered with retain=0", c.name, d.topic))
						return
					}
					if v, ok := model[d.topic]; ok && v.uid == d.uid && v.n != d.n {
						fail("c08:retained-payload", fmt.Sprintf("%s: retained message on %q has %d bytes, original %d", c.name, d.topic, d.n, v.n))
						return
					}
					got = append(got, fmt.Sprintf("%s uid%d q%d", d.topic, d.uid, d.qos))
				}
				sort.Strings(got)
				want := expectRetained(fs, ack.Codes)
				if strings.Join(got, ";") != strings.Join(want, ";") {
					fail("c08:retained-set", fmt.Sprintf("%s SUBSCRIBE %q granted %v: retained delivered [%s], expected [%s]", c.name, fs, ack.Codes, strings.Join(got, "; "), strings.Join(want, "; ")))
					return
				}
				out.Count("c08.subscriptions", 1)
				out.Count("c08.retained_deliveries", int64(len(got)))
				for i, f := range fs {
					out.Class(fmt.Sprintf("sub/%s/g%d/stored%d", shape(f), ack.Codes[i], len(model)))
				}
			}
		}
		out.Count("c08.histories", 1)
		if idx%60 == 0 {
			o := ops
			if len(o) > 12 {
				o = o[:12]
			}
			out.Sample("c08", 3, map[string]interface{}{"params": params, "ops": o})
		}
	})
}

func matchesAny(subs map[string]byte, topic string) bool {
	for f := range subs {
		if spec.Match(f, topic) {
			return true
		}
	}
	return false
}

func TestC08(t *testing.T) {
	n := pick(1200, 40000)
	for h := 0; h < n; h++ {
		id := fmt.Sprintf("c08/%d", h)
		if !mine(h) || !out.Only(id) {
			continue
		}
		seed := caseSeed("c08", h)
		out.Begin(id, seed, nil)
		c08History(t, h, seed)
		out.End()
	}
}
