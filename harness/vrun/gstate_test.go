package vrun

import (
	"regexp"
	"runtime"
	"strconv"
	"strings"
	"time"
)

// Goroutine-state based deadlock and leak detection (DESIGN 2.8).

type gInfo struct {
	id     int
	state  string // e.g. "sync.Cond.Wait", "sync.Mutex.Lock", "chan receive", "running", "IO wait"
	stack  string // full text of the goroutine's stack
	frames []string
}

var gHeader = regexp.MustCompile(`^goroutine (\d+)(?: gp=\S+ m=\S+(?: mp=\S+)?)? \[([^\],]+)(?:, [^\]]*)?\]:`)

// snapshot parses runtime.Stack(all).
func snapshot() map[int]*gInfo {
	buf := make([]byte, 1<<20)
	for {
		n := runtime.Stack(buf, true)
		if n < len(buf) {
			buf = buf[:n]
			break
		}
		buf = make([]byte, 2*len(buf))
	}
	res := map[int]*gInfo{}
	for _, blk := range strings.Split(string(buf), "\n\n") {
		lines := strings.Split(strings.TrimSpace(blk), "\n")
		if len(lines) == 0 {
			continue
		}
		m := gHeader.FindStringSubmatch(lines[0])
		if m == nil {
			continue
		}
		id, _ := strconv.Atoi(m[1])
		g := &gInfo{id: id, state: m[2], stack: blk}
		for _, l := range lines[1:] {
			if !strings.HasPrefix(l, "\t") && !strings.HasPrefix(l, "created by") {
				g.frames = append(g.frames, l)
			}
		}
		res[id] = g
	}
	return res
}

// goid returns the calling goroutine's id.
func goid() int {
	var b [64]byte
	n := runtime.Stack(b[:], false)
	f := strings.Fields(string(b[:n]))
	if len(f) >= 2 {
		id, _ := strconv.Atoi(f[1])
		return id
	}
	return -1
}

// parkedForever reports whether a goroutine state is one in which the
// goroutine can only be woken by another goroutine's action on a sync
// primitive or channel (not by time or I/O).
func parkedState(s string) bool {
	switch s {
	case "sync.Cond.Wait", "sync.Mutex.Lock", "sync.RWMutex.Lock", "sync.RWMutex.RLock", "semacquire", "sync.WaitGroup.Wait", "chan receive", "chan send", "select", "select (no cases)",
		"chan receive (nil chan)", "chan send (nil chan)", "chan receive (durable)", "chan send (durable)", "select (durable)", "sync.Cond.Wait (durable)", "sync.WaitGroup.Wait (durable)",
		"synctest.Wait (durable)", "synctest.Run (durable)", "synctest.Wait", "synctest.Run":
		return true
	}
	return false
}

const libPath = "github.com/mdzio/go-mqtt/"

// hasLibFrame reports whether any frame of g is inside the library.
func (g *gInfo) hasLibFrame() bool {
	for _, f := range g.frames {
		if strings.HasPrefix(f, libPath) {
			return true
		}
	}
	return false
}

// libTop returns the innermost library frame (function name without arguments).
func (g *gInfo) libTop() string {
	for _, f := range g.frames {
		if strings.HasPrefix(f, libPath) {
			f = strings.TrimPrefix(f, libPath)
			if i := strings.LastIndex(f, "("); i > 0 {
				f = f[:i]
			}
			return f
		}
	}
	return ""
}

// stuckVerdict decides, for a closed scenario whose driver has performed all of
// its actions, whether the goroutines in ids are stuck: every one of them that
// still exists is parked on a sync primitive or channel with an identical stack
// in two snapshots taken apart, and settled() (hook counters etc.) did not
// change in between. It returns the stuck goroutines, or nil if all finished,
// or inconclusive=true when something is still moving at the watchdog.
func stuckVerdict(ids func() []int, finished func() bool, watchdog time.Duration) (stuck []*gInfo, inconclusive bool) {
	deadline := time.Now().Add(watchdog)
	var prev map[int]string
	for spin := 0; spin < 100; spin++ {
		if finished() {
			return nil, false
		}
		time.Sleep(50 * time.Microsecond)
	}
	for {
		if finished() {
			return nil, false
		}
		time.Sleep(60 * time.Millisecond)
		if finished() {
			return nil, false
		}
		snap := snapshot()
		cur := map[int]string{}
		allParked := true
		var gs []*gInfo
		for _, id := range ids() {
			g := snap[id]
			if g == nil {
				continue // finished
			}
			if !parkedState(g.state) {
				allParked = false
			}
			cur[id] = g.state + "\n" + strings.Join(g.frames, "\n")
			gs = append(gs, g)
		}
		if len(gs) == 0 {
			// all goroutines gone but finished() false: let the caller's flag catch up
			if time.Now().After(deadline) {
				return nil, true
			}
			continue
		}
		if allParked && prev != nil && sameMap(prev, cur) {
			return gs, false
		}
		if allParked {
			prev = cur
		} else {
			prev = nil
		}
		if time.Now().After(deadline) {
			return gs, true
		}
	}
}

func sameMap(a, b map[int]string) bool {
	if len(a) != len(b) {
		return false
	}
	for k, v := range a {
		if b[k] != v {
			return false
		}
	}
	return true
}

// libGoroutines returns the goroutines that have a frame inside the library,
// excluding the caller's own goroutine.
func libGoroutines() []*gInfo {
	me := goid()
	var res []*gInfo
	for id, g := range snapshot() {
		if id != me && g.hasLibFrame() {
			res = append(res, g)
		}
	}
	return res
}
