package vrun

import (
	"bytes"
	"fmt"
	"testing"

	"github.com/mdzio/go-mqtt/message"
	"github.com/mdzio/go-mqtt/sessions"

	"verif/harness/out"
	rc "verif/harness/refcodec"
	"verif/harness/spec"
)

// queue kinds
type qkind struct {
	name     string
	reqType  byte
	reqQoS   byte
	acks     []byte // ack kinds the service routes to this queue
	terminal byte
	get      func(*sessions.Session) *sessions.Ackqueue
}

var qkinds = []qkind{
	{"Pub1ack", rc.PUBLISH, 1, []byte{rc.PUBACK}, rc.PUBACK, func(s *sessions.Session) *sessions.Ackqueue { return s.Pub1ack }},
	{"Pub2out", rc.PUBLISH, 2, []byte{rc.PUBREC, rc.PUBCOMP}, rc.PUBCOMP, func(s *sessions.Session) *sessions.Ackqueue { return s.Pub2out }},
	{"Pub2in", rc.PUBLISH, 2, []byte{rc.PUBREL}, rc.PUBREL, func(s *sessions.Session) *sessions.Ackqueue { return s.Pub2in }},
	{"Suback", rc.SUBSCRIBE, 0, []byte{rc.SUBACK}, rc.SUBACK, func(s *sessions.Session) *sessions.Ackqueue { return s.Suback }},
	{"Unsuback", rc.UNSUBSCRIBE, 0, []byte{rc.UNSUBACK}, rc.UNSUBACK, func(s *sessions.Session) *sessions.Ackqueue { return s.Unsuback }},
}

func newQueue(k qkind) *sessions.Ackqueue {
	cm := message.NewConnectMessage()
	cm.SetVersion(4)
	cm.SetClientID([]byte("q"))
	cm.SetCleanSession(true)
	s := &sessions.Session{}
	if err := s.Init(cm); err != nil {
		panic(err)
	}
	return k.get(s)
}

// model entry
type mEntry struct {
	id    uint16
	req   []byte
	ack   []byte
	state byte // 0 = none
	token int
}

type qop struct {
	op   byte // 'r' register, 'a' ack, 'c' collect
	id   uint16
	kind byte // ack kind
	ver  int  // content version for registrations
}

func (o qop) String() string {
	switch o.op {
	case 'r':
		return fmt.Sprintf("reg(%d,v%d)", o.id, o.ver)
	case 'a':
		return fmt.Sprintf("%s(%d)", rc.TypeName(o.kind), o.id)
	}
	return "collect"
}

// reqRecord builds the request record for (kind,id,version).
func reqRecord(k qkind, id uint16, ver int) *rc.Packet {
	switch k.reqType {
	case rc.PUBLISH:
		return &rc.Packet{Type: rc.PUBLISH, QoS: k.reqQoS, ID: id, Topic: []byte(fmt.Sprintf("t/%d", id)), Payload: []byte(fmt.Sprintf("payload-%d-v%d", id, ver)), Dup: ver > 0 && ver%2 == 0}
	case rc.SUBSCRIBE:
		return &rc.Packet{Type: rc.SUBSCRIBE, ID: id, Filters: [][]byte{[]byte(fmt.Sprintf("f/%d/v%d", id, ver))}, QoSs: []byte{byte(ver % 3)}}
	}
	return &rc.Packet{Type: rc.UNSUBSCRIBE, ID: id, Filters: [][]byte{[]byte(fmt.Sprintf("f/%d/v%d", id, ver))}}
}

func ackRecord(kind byte, id uint16) *rc.Packet { return ackRecordN(kind, id, 0) }

// ackRecordN: acknowledgements of one kind differ in length with n (a SUBACK with 1..3 return
// codes), so that a later, shorter acknowledgement of an entry shows what an earlier one left behind.
func ackRecordN(kind byte, id uint16, n int) *rc.Packet {
	p := &rc.Packet{Type: kind, ID: id}
	if kind == rc.SUBACK {
		p.Codes = []byte{byte(id % 3)}
		for i := 0; i < (3-n%3)%3; i++ {
			p.Codes = append(p.Codes, byte((n+i)%3))
		}
	}
	return p
}

// runQueueSeq executes a sequence against a fresh queue and the list model.
// It returns a violation signature ("" if it held) and a description.
func runQueueSeq(k qkind, ops []qop) (sig, desc string) {
	q := newQueue(k)
	var model []*mEntry
	token := 0
	// the entry an identifier stands for is the newest one registered under it
	find := func(id uint16) *mEntry {
		for i := len(model) - 1; i >= 0; i-- {
			if model[i].id == id {
				return model[i]
			}
		}
		return nil
	}
	// every list Acked handed back is kept as it was returned, next to a deep copy taken at that
	// moment: what was handed back stays what it was, whatever the queue does afterwards (the service
	// goes through the list after the queue's lock is released)
	type handedBack struct {
		step int
		list []sessions.AckMsg
		copy []sessions.AckMsg
	}
	var handed []handedBack
	checkHanded := func(step int) (string, string) {
		for _, h := range handed {
			for i := range h.copy {
				g, w := h.list[i], h.copy[i]
				if g.Pktid != w.Pktid || g.State != w.State || g.Mtype != w.Mtype || !bytes.Equal(g.Msgbuf, w.Msgbuf) || !bytes.Equal(g.Ackbuf, w.Ackbuf) {
					return "c13:handed-back-changed:" + k.name, fmt.Sprintf("step %d: entry %d of the list handed back at step %d was id %d (request %s), it now reads id %d (request %s)", step, i, h.step, w.Pktid, hex(w.Msgbuf), g.Pktid, hex(g.Msgbuf))
				}
			}
		}
		return "", ""
	}
	for step, o := range ops {
		switch o.op {
		case 'r':
			rec := reqRecord(k, o.id, o.ver)
			m, err := libBuild(rec, false)
			if err != nil {
				return "c13:harness", err.Error()
			}
			token++
			if err := q.Wait(m, token); err != nil {
				return "c13:wait-error:" + k.name, fmt.Sprintf("step %d %v: %v", step, o, err)
			}
			// mutate the request object afterwards: the queue must hold a copy
			switch mm := m.(type) {
			case *message.PublishMessage:
				mm.SetPayload([]byte("MUTATED-AFTER-WAIT"))
				mm.SetTopic([]byte("mutated"))
			case *message.SubscribeMessage:
				mm.AddTopic([]byte("mutated"), 0)
			case *message.UnsubscribeMessage:
				mm.AddTopic([]byte("mutated"))
			}
			// a registration under an identifier that is in flight repeats that request and changes nothing;
			// once the entry has had its final acknowledgement the exchange is over, the identifier is free
			// again and a registration under it is a new request, whether or not the finished entry has
			// been collected yet
			if e := find(o.id); e == nil || e.state == k.terminal {
				model = append(model, &mEntry{id: o.id, req: rc.Encode(rec), token: token})
			}
		case 'a':
			rec := ackRecordN(o.kind, o.id, step)
			m, err := libBuild(rec, false)
			if err != nil {
				return "c13:harness", err.Error()
			}
			if err := q.Ack(m); err != nil {
				return "c13:ack-error:" + k.name, fmt.Sprintf("step %d %v: %v", step, o, err)
			}
			if e := find(o.id); e != nil {
				e.state = o.kind
				e.ack = rc.Encode(rec)
			}
		case 'c':
			got := q.Acked()
			var want []*mEntry
			for len(model) > 0 && model[0].state == k.terminal {
				want = append(want, model[0])
				model = model[1:]
			}
			if len(got) != len(want) {
				return "c13:collect-count:" + k.name, fmt.Sprintf("step %d: collect returned %d entries, model %d", step, len(got), len(want))
			}
			for i, w := range want {
				g := got[i]
				if g.Pktid != w.id {
					return "c13:collect-order:" + k.name, fmt.Sprintf("step %d: entry %d has id %d, model %d", step, i, g.Pktid, w.id)
				}
				if byte(g.State) != w.state || byte(g.Mtype) != k.reqType {
					return "c13:collect-state:" + k.name, fmt.Sprintf("step %d: entry id %d state %v type %v", step, g.Pktid, g.State, g.Mtype)
				}
				if !bytes.Equal(g.Msgbuf, w.req) {
					return "c13:request-bytes:" + k.name, fmt.Sprintf("step %d: id %d request bytes %s, original %s", step, w.id, hex(g.Msgbuf), hex(w.req))
				}
				if !bytes.Equal(g.Ackbuf, w.ack) {
					return "c13:ack-bytes:" + k.name, fmt.Sprintf("step %d: id %d ack bytes %s, last ack %s", step, w.id, hex(g.Ackbuf), hex(w.ack))
				}
				if tk, ok := g.OnComplete.(int); !ok || tk != w.token {
					return "c13:completion-token:" + k.name, fmt.Sprintf("step %d: id %d completion token %v, registered %d", step, w.id, g.OnComplete, w.token)
				}
			}
			if len(got) > 0 {
				cp := make([]sessions.AckMsg, len(got))
				for i, g := range got {
					cp[i] = g
					cp[i].Msgbuf = append([]byte{}, g.Msgbuf...)
					cp[i].Ackbuf = append([]byte{}, g.Ackbuf...)
				}
				handed = append(handed, handedBack{step: step, list: got, copy: cp})
				if len(handed) > 8 {
					handed = handed[1:]
				}
			}
			if sig, desc := checkHanded(step); sig != "" {
				return sig, desc
			}
		}
	}
	return checkHanded(len(ops))
}

func seqString(ops []qop) string {
	s := ""
	for i, o := range ops {
		if i > 0 {
			s += " "
		}
		s += o.String()
	}
	return s
}

// alphabet returns the operation alphabet of a queue kind over ids 1..nid.
func alphabet(k qkind, nid int) []qop {
	var a []qop
	for id := 1; id <= nid; id++ {
		a = append(a, qop{op: 'r', id: uint16(id)})
	}
	for _, kind := range k.acks {
		for id := 1; id <= nid; id++ {
			a = append(a, qop{op: 'a', id: uint16(id), kind: kind})
		}
	}
	a = append(a, qop{op: 'a', id: 99, kind: k.acks[0]}) // unknown identifier
	a = append(a, qop{op: 'c'})
	return a
}

func TestC13(t *testing.T) {
	c13Sizes()
	// -------- exhaustive sequences
	type scope struct{ nid, depth int }
	scopes := []scope{{2, 6}, {3, 5}}
	if thorough() {
		scopes = []scope{{2, 7}, {3, 6}}
	}
	for _, sc := range scopes {
		for ki, k := range qkinds {
			id := fmt.Sprintf("c13/exh/%s/ids%d/depth%d", k.name, sc.nid, sc.depth)
			if !mine(ki+sc.nid) || !out.Only(id) {
				continue
			}
			out.Begin(id, 0, nil)
			alpha := alphabet(k, sc.nid)
			idx := make([]int, sc.depth)
			ops := make([]qop, sc.depth+1)
			var count int64
			for {
				vers := map[uint16]int{}
				for i, x := range idx {
					ops[i] = alpha[x]
					if ops[i].op == 'r' {
						ops[i].ver = vers[ops[i].id]
						vers[ops[i].id]++
					}
				}
				ops[sc.depth] = qop{op: 'c'} // always finish with a collect
				if sig, desc := runQueueSeq(k, ops); sig != "" {
					out.Violation(sig, desc, map[string]string{"queue": k.name, "sequence": seqString(ops)})
				}
				count++
				// class: multiset signature of the sequence
				if count%97 == 0 {
					out.Class(fmt.Sprintf("exh/%s/%d/%s", k.name, sc.nid, opShape(ops)))
				}
				// next
				i := sc.depth - 1
				for i >= 0 {
					idx[i]++
					if idx[i] < len(alpha) {
						break
					}
					idx[i] = 0
					i--
				}
				if i < 0 {
					break
				}
			}
			out.Count("c13.exh.sequences", count)
			out.Count("c13.exh.scopes_complete", 1)
			out.Sample("c13.exh", 2, map[string]interface{}{"queue": k.name, "ids": sc.nid, "depth": sc.depth, "alphabet": len(alpha), "sequences": count, "last": seqString(ops)})
			out.End()
		}
	}
	// -------- two outstanding pings
	if mine(0) && out.Only("c13/ping") {
		out.Begin("c13/ping", 0, nil)
		pingQueue()
		out.End()
	}
	// -------- long random histories
	nh := pick(40, 1200)
	for g := 0; g < nh; g++ {
		id := fmt.Sprintf("c13/random/%d", g)
		if !mine(g) || !out.Only(id) {
			continue
		}
		seed := caseSeed("c13r", g)
		out.Begin(id, seed, nil)
		r := spec.NewRand(seed)
		k := qkinds[g%len(qkinds)]
		n := 10000
		ops := make([]qop, 0, n)
		type gen struct {
			id   uint16
			term bool
		}
		var fl []gen // the generator's own mirror of the in-flight list
		pos := func(id uint16) int {
			for i := range fl {
				if fl[i].id == id {
					return i
				}
			}
			return -1
		}
		vers := map[uint16]int{}
		target := 20 + r.Intn(600)
		maxIn, collects, released := 0, 0, 0
		fill := true
		for len(ops) < n {
			if len(fl) >= target {
				fill = false
			} else if len(fl) < target/4 {
				fill = true
			}
			x := r.Intn(100)
			switch {
			case (fill && x < 60) || x < 15:
				id := uint16(1 + r.Intn(3000))
				if r.Intn(10) == 0 && len(fl) > 0 {
					id = fl[r.Intn(len(fl))].id // duplicate registration of an in-flight id
				}
				ops = append(ops, qop{op: 'r', id: id, ver: vers[id]})
				vers[id]++
				if pos(id) < 0 {
					fl = append(fl, gen{id: id})
				}
			case x < 90 && len(fl) > 0:
				var id uint16
				switch r.Intn(10) {
				case 0:
					id = uint16(4000 + r.Intn(100)) // unknown
				case 1, 2, 3:
					id = fl[r.Intn(len(fl))].id // anywhere
				default:
					id = fl[r.Intn(1+len(fl)/8)].id // near the head
				}
				kind := k.acks[r.Intn(len(k.acks))]
				ops = append(ops, qop{op: 'a', id: id, kind: kind})
				if p := pos(id); p >= 0 {
					fl[p].term = kind == k.terminal
				}
			default:
				ops = append(ops, qop{op: 'c'})
				collects++
				for len(fl) > 0 && fl[0].term {
					fl = fl[1:]
					released++
				}
			}
			if len(fl) > maxIn {
				maxIn = len(fl)
			}
		}
		ops = append(ops, qop{op: 'c'})
		if sig, desc := runQueueSeq(k, ops); sig != "" {
			tail := ops
			out.Violation(sig, desc, map[string]interface{}{"queue": k.name, "ops": len(tail)})
		}
		out.Count("c13.rand.ops", int64(len(ops)))
		out.Max("max:c13.rand.inflight", int64(maxIn))
		out.Count("c13.rand.released", int64(released))
		if maxIn > 256 {
			out.Count("c13.rand.grew_past_256", 1)
		}
		out.Class(fmt.Sprintf("rand/%s/max%d", k.name, maxIn/64))
		out.End()
	}
}

func opShape(ops []qop) string {
	b := make([]byte, len(ops))
	for i, o := range ops {
		switch {
		case o.op == 'a' && o.id == 99:
			b[i] = 'u'
		default:
			b[i] = o.op
		}
	}
	return string(b)
}

// pingQueue checks the PINGREQ path of the queue: every registered ping must
// be handed back exactly once after a PINGRESP.
func pingQueue() {
	k := qkind{name: "Pingack", get: func(s *sessions.Session) *sessions.Ackqueue { return s.Pingack }}
	for n := 1; n <= 3; n++ {
		q := newQueue(k)
		for i := 1; i <= n; i++ {
			if err := q.Wait(message.NewPingreqMessage(), i); err != nil {
				out.Violation("c13:wait-error:Pingack", err.Error(), nil)
			}
		}
		var tokens []int
		for i := 1; i <= n; i++ {
			q.Ack(message.NewPingrespMessage())
			for _, a := range q.Acked() {
				tk, _ := a.OnComplete.(int)
				tokens = append(tokens, tk)
				if !bytes.Equal(a.Msgbuf, []byte{0xc0, 0}) || !bytes.Equal(a.Ackbuf, []byte{0xd0, 0}) {
					out.Violation("c13:ping-bytes", fmt.Sprintf("ping entry bytes %x / %x", a.Msgbuf, a.Ackbuf), nil)
				}
			}
		}
		want := fmt.Sprint(seqInts(n))
		if fmt.Sprint(tokens) != want {
			out.Violation("c13:ping-outstanding", fmt.Sprintf("%d PINGREQ registered, %d PINGRESP acknowledged: handed back %v, expected %v", n, n, tokens, want), map[string]int{"outstanding": n})
		}
		// unknown: a PINGRESP with nothing outstanding changes nothing
		q2 := newQueue(k)
		q2.Ack(message.NewPingrespMessage())
		if got := q2.Acked(); len(got) != 0 {
			out.Violation("c13:ping-unknown", fmt.Sprintf("PINGRESP without PINGREQ handed back %d entries", len(got)), nil)
		}
		out.Class(fmt.Sprintf("ping/%d", n))
		out.Count("c13.ping.cases", 1)
	}
}

func seqInts(n int) []int {
	s := make([]int, n)
	for i := range s {
		s[i] = i + 1
	}
	return s
}

// c13Sizes: requests whose encoded size sits on the boundaries of the remaining-length field (127/128,
// 16383/16384, 2097151/2097152 bytes) and around them, registered, acknowledged in reverse order and
// collected: every request handed back must be byte-identical to the reference encoding of what was
// registered. (The queue keeps an encoded copy: a length slip in the codec shortens the copy silently.)
func c13Sizes() {
	for ki, k := range qkinds {
		id := "c13/sizes/" + k.name
		if !mine(ki) || !out.Only(id) {
			continue
		}
		out.Begin(id, uint64(ki), nil)
		q := newQueue(k)
		var remlens []int
		for _, c := range []int{127, 128, 16383, 16384, 2097151, 2097152} {
			for d := -2; d <= 2; d++ {
				remlens = append(remlens, c+d)
			}
		}
		type reg struct {
			id   uint16
			wire []byte
		}
		var regs []reg
		bad := false
		for i, rl := range remlens {
			pid := uint16(i + 1)
			var rec *rc.Packet
			switch k.reqType {
			case rc.PUBLISH:
				// remaining length = 2 + len(topic) + 2 + len(payload)
				topic := []byte("t/s")
				rec = &rc.Packet{Type: rc.PUBLISH, QoS: k.reqQoS, ID: pid, Topic: topic, Payload: spec.MakePayload(uint64(pid), 0, rl-2-len(topic)-2)}
			case rc.SUBSCRIBE, rc.UNSUBSCRIBE:
				if rl > 70000 {
					continue // one filter carries at most 65535 bytes; the 2 MiB boundary is left to PUBLISH
				}
				// remaining length = 2 + (2 + len(filter) [+1])
				per := 2
				if k.reqType == rc.SUBSCRIBE {
					per = 3
				}
				f := make([]byte, rl-2-per)
				for j := range f {
					f[j] = 'a' + byte(j%26)
				}
				rec = &rc.Packet{Type: k.reqType, ID: pid, Filters: [][]byte{f}, QoSs: []byte{1}}
			}
			want := rc.Encode(rec)
			m, err := libBuild(rec, false)
			if err != nil {
				out.Violation("c13:harness", err.Error(), nil)
				bad = true
				break
			}
			if err := q.Wait(m, int(pid)); err != nil {
				out.Violation("c13:wait-error:"+k.name, fmt.Sprintf("request with remaining length %d: %v", rl, err), nil)
				bad = true
				break
			}
			regs = append(regs, reg{pid, want})
		}
		for i := len(regs) - 1; i >= 0 && !bad; i-- {
			for _, a := range k.acks {
				am, _ := libBuild(ackRecord(a, regs[i].id), false)
				if err := q.Ack(am); err != nil {
					out.Violation("c13:ack-error:"+k.name, err.Error(), nil)
					bad = true
				}
			}
		}
		if !bad {
			got := q.Acked()
			if len(got) != len(regs) {
				out.Violation("c13:collect-count:"+k.name, fmt.Sprintf("%d requests registered and acknowledged, %d handed back", len(regs), len(got)), nil)
			} else {
				for i, g := range got {
					if g.Pktid != regs[i].id || !bytes.Equal(g.Msgbuf, regs[i].wire) {
						out.Violation("c13:request-bytes:size-boundary:"+k.name, fmt.Sprintf("request %d (%d bytes on the wire): the copy handed back has %d bytes and differs from the original", regs[i].id, len(regs[i].wire), len(g.Msgbuf)), nil)
						break
					}
					out.Count("c13.size_boundary_requests", 1)
				}
			}
		}
		out.Class("sizes/" + k.name)
		out.End()
	}
}
