package vrun

import (
	"fmt"
	"strings"
	"testing"

	"verif/harness/out"
	"verif/harness/rawclient"
	rc "verif/harness/refcodec"
	"verif/harness/spec"
)

// TestC02Pipelined (broker role, synctest): the sender does not wait for answers.
// Phase 1 opens K QoS 2 exchanges (PUBRECs awaited, as the protocol demands before a
// PUBREL). Phase 2 is one burst of more than three ring sizes: QoS 1 publishes of
// mixed sizes with the K PUBRELs, repeated PUBRELs and retransmitted (DUP, other
// bytes) QoS 2 publishes of still open exchanges in between - written while the
// QoS 2 subscriber is not reading, so the broker's processor parks in the middle
// of a hand-over and the sender's inbound ring runs full behind it. Then the
// subscriber reads again. Oracle at quiescence: the sender's wire shows exactly
// one acknowledgement per packet, in packet order, with the packet's identifier;
// the subscriber got every QoS 1 message once and every QoS 2 exchange's first
// content once, in the order of the QoS 1 packets / PUBRELs, CRC intact.
func c02Pipelined(t *testing.T, idx int, seed uint64) {
	r := spec.NewRand(seed)
	K := 2 + r.Intn(9)
	params := map[string]interface{}{"case": idx, "open_exchanges": K}
	bubble(t, "c02", params, func(cl *cleanup) {
		fail := func(sig, desc string) { out.Violation(sig, desc, params) }
		w := newWorld(worldCfg{BufferSize: 16384})
		cl.add(w.shutdown)
		// The subscriber never acknowledges: an acknowledgement arriving while the burst is stalled would make
		// its processor queue on the connection's write mutex (held by the parked hand-over), and a goroutine
		// waiting for a mutex is not "durably blocked", so synctest.Wait could not return at the stall.
		sub, a1 := w.connectB("sub", connectOpts{Clean: true, KeepAlive: 6000, Policy: rawclient.AckNone})
		pub, a2 := w.connectB("pub", connectOpts{ClientID: "pub", Clean: true, KeepAlive: 6000, Policy: rawclient.AckNone})
		if a1 == nil || a2 == nil {
			fail("c02:connect", "no CONNACK")
			return
		}
		if sa, _ := sub.subscribeB([]string{"c02/#"}, []byte{2}); sa == nil {
			fail("c02:suback", "no SUBACK")
			return
		}
		var uids uidGen
		first := map[uint16]uint64{}
		for id := uint16(1); id <= uint16(K); id++ {
			u := uids.next()
			first[id] = u
			pub.SendPacket(&rc.Packet{Type: rc.PUBLISH, QoS: 2, ID: id, Topic: []byte("c02/q2"), Payload: spec.MakePayload(u, 0, 40+r.Intn(2000))})
		}
		settle()
		if n := countType(pub.fresh(), rc.PUBREC); n != K {
			fail("c02:acks", fmt.Sprintf("%d QoS 2 publishes, %d PUBREC", K, n))
			return
		}
		if got := publishesIn(sub.fresh()); len(got) != 0 {
			fail("c02:handover-before-pubrel", fmt.Sprintf("%d messages handed on before any PUBREL", len(got)))
			return
		}
		// ---- the burst
		var wantAcks []string
		var wantHand []uint64
		var burst []byte
		released := uint16(0)
		q1id := uint16(100)
		size := 0
		for size < 3*16384+r.Intn(16384) || released < uint16(K) {
			switch x := r.Intn(10); {
			case x < 6:
				q1id++
				u := uids.next()
				p := &rc.Packet{Type: rc.PUBLISH, QoS: 1, ID: q1id, Topic: []byte(fmt.Sprintf("c02/q1/%d", q1id)), Payload: spec.MakePayload(u, 0, []int{40, 300, 1200, 2500, 5000, 8100}[r.Intn(6)])}
				burst = append(burst, rc.Encode(p)...)
				wantAcks = append(wantAcks, fmt.Sprintf("PUBACK(%d)", q1id))
				wantHand = append(wantHand, u)
			case x < 8 && released < uint16(K):
				released++
				burst = append(burst, rc.Encode(&rc.Packet{Type: rc.PUBREL, ID: released})...)
				wantAcks = append(wantAcks, fmt.Sprintf("PUBCOMP(%d)", released))
				wantHand = append(wantHand, first[released])
			case x == 8 && released > 0:
				id := uint16(1 + r.Intn(int(released))) // repeated PUBREL of a completed exchange
				burst = append(burst, rc.Encode(&rc.Packet{Type: rc.PUBREL, ID: id})...)
				wantAcks = append(wantAcks, fmt.Sprintf("PUBCOMP(%d)", id))
			case x == 9 && released < uint16(K):
				id := released + 1 + uint16(r.Intn(K-int(released))) // retransmission of an exchange that is still open
				burst = append(burst, rc.Encode(&rc.Packet{Type: rc.PUBLISH, QoS: 2, ID: id, Dup: true, Topic: []byte("c02/q2"), Payload: spec.MakePayload(uids.next(), 0, 60)})...)
				wantAcks = append(wantAcks, fmt.Sprintf("PUBREC(%d)", id))
			}
			size = len(burst)
		}
		sub.PauseReading()
		pub.Send(burst)
		settle() // every goroutine parked: subscriber's ring full, processor parked on it, inbound ring full, writer blocked
		stalledAt := len(pub.Since(0))
		sub.ResumeReading()
		settle()
		if pub.Closed() || sub.Closed() {
			fail("c02:connection-lost", fmt.Sprintf("a connection was closed during the pipelined burst (publisher closed=%v, subscriber closed=%v)", pub.Closed(), sub.Closed()))
			return
		}
		if err := sub.FrameErr(); err != nil {
			fail("c02:framing", "the subscriber received a malformed stream: "+err.Error())
			return
		}
		var gotAcks []string
		for _, ev := range pub.fresh() {
			gotAcks = append(gotAcks, fmt.Sprintf("%s(%d)", rc.TypeName(ev.P.Type), ev.P.ID))
		}
		if strings.Join(gotAcks, ",") != strings.Join(wantAcks, ",") {
			k := 0
			for k < len(gotAcks) && k < len(wantAcks) && gotAcks[k] == wantAcks[k] {
				k++
			}
			g, wnt := "(nothing)", "(nothing)"
			if k < len(gotAcks) {
				g = gotAcks[k]
			}
			if k < len(wantAcks) {
				wnt = wantAcks[k]
			}
			fail("c02:acks", fmt.Sprintf("pipelined burst of %d packets (%d bytes): acknowledgement %d on the sender's wire is %s, the packet at that position calls for %s (%d received, %d expected)", len(wantAcks), len(burst), k, g, wnt, len(gotAcks), len(wantAcks)))
			return
		}
		got := publishesIn(sub.fresh())
		var gotU []uint64
		for _, d := range got {
			if !d.ok {
				fail("c02:payload", fmt.Sprintf("a message handed on during the pipelined burst is corrupted (topic %q, %d bytes)", d.topic, d.n))
				return
			}
			gotU = append(gotU, d.uid)
		}
		if fmt.Sprint(gotU) != fmt.Sprint(wantHand) {
			k := 0
			for k < len(gotU) && k < len(wantHand) && gotU[k] == wantHand[k] {
				k++
			}
			fail("c02:pipelined-handover", fmt.Sprintf("hand-overs differ from the packet order at position %d: %d handed on, %d expected (each QoS 1 message once, each QoS 2 exchange's first content once at its PUBREL)", k, len(gotU), len(wantHand)))
			return
		}
		out.Count("c02.pipelined_bursts", 1)
		out.Count("c02.pipelined_packets", int64(len(wantAcks)))
		if stalledAt < len(wantAcks) {
			out.Count("c02.pipelined_stalled", 1) // the burst really was held up before the subscriber resumed
		}
		out.Class(fmt.Sprintf("pipelined/k%d", K))
	})
}

func TestC02Pipelined(t *testing.T) {
	n := pick(120, 3000)
	for g := 0; g < n; g++ {
		id := fmt.Sprintf("c02/pipe/%d", g)
		if !mine(g) || !out.Only(id) {
			continue
		}
		seed := caseSeed("c02p", g)
		out.Begin(id, seed, nil)
		c02Pipelined(t, g, seed)
		out.End()
	}
}
