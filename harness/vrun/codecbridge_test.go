package vrun

import (
	"bytes"
	"fmt"

	"github.com/mdzio/go-mqtt/message"

	rc "verif/harness/refcodec"
)

// libNew returns an empty library message of the given type.
func libNew(t byte) message.Message {
	m, err := message.Type(t).New()
	if err != nil {
		return nil
	}
	return m
}

// errUnbuildable marks a record that the message API refuses to build (a setter
// returned an error): such records are outside "can be built through the API".
type errUnbuildable struct{ why string }

func (e errUnbuildable) Error() string { return "unbuildable: " + e.why }

// libBuild builds a library message from a field record using only the public
// setters. autoID leaves the packet identifier unset so the library assigns it.
// connectBuildVariant selects how libBuild drives the CONNECT setters (C03 only; everything else uses 0).
var connectBuildVariant int

// connectVariantApplies: the value setters set a flag only for a non-empty value, so a record is
// reachable through them alone when every present field that carries a flag is non-empty (for the will:
// the topic, which MQTT requires to be non-empty anyway; the message may be empty).
func connectVariantApplies(p *rc.Packet) bool {
	if p.Type != rc.CONNECT {
		return false
	}
	if p.HasWill && len(p.WillTopic) == 0 {
		return false
	}
	if p.HasUser && len(p.User) == 0 {
		return false
	}
	if p.HasPass && len(p.Pass) == 0 {
		return false
	}
	return p.HasWill || p.HasUser || p.HasPass
}

func libBuild(p *rc.Packet, autoID bool) (message.Message, error) {
	switch p.Type {
	case rc.CONNECT:
		m := message.NewConnectMessage()
		if err := m.SetVersion(p.Level); err != nil {
			return nil, errUnbuildable{err.Error()}
		}
		m.SetCleanSession(p.CleanSession)
		m.SetKeepAlive(p.KeepAlive)
		if err := m.SetClientID(p.ClientID); err != nil {
			return nil, errUnbuildable{err.Error()}
		}
		// connectBuildVariant 0: value setters followed by the raw flag setters. Variants 1 and 2 build
		// through the value setters alone, which manage the flags themselves, in two orders (applicable
		// when the values that carry the flag are non-empty: see connectVariantApplies).
		v := connectBuildVariant
		if p.HasWill {
			switch v {
			case 1:
				m.SetWillTopic(p.WillTopic)
				m.SetWillMessage(p.WillMsg)
			case 2:
				m.SetWillMessage(p.WillMsg)
				m.SetWillTopic(p.WillTopic)
			default:
				m.SetWillTopic(p.WillTopic)
				m.SetWillMessage(p.WillMsg)
				m.SetWillFlag(true)
			}
			if err := m.SetWillQos(p.WillQoS); err != nil {
				return nil, errUnbuildable{err.Error()}
			}
			m.SetWillRetain(p.WillRetain)
		}
		setUser := func() {
			if p.HasUser {
				m.SetUsername(p.User)
				if v == 0 {
					m.SetUsernameFlag(true)
				}
			}
		}
		setPass := func() {
			if p.HasPass {
				m.SetPassword(p.Pass)
				if v == 0 {
					m.SetPasswordFlag(true)
				}
			}
		}
		if v == 2 {
			setPass()
			setUser()
		} else {
			setUser()
			setPass()
		}
		return m, nil
	case rc.CONNACK:
		m := message.NewConnackMessage()
		m.SetSessionPresent(p.SessionPresent)
		m.SetReturnCode(message.ConnackCode(p.ReturnCode))
		return m, nil
	case rc.PUBLISH:
		m := message.NewPublishMessage()
		if err := m.SetTopic(p.Topic); err != nil {
			return nil, errUnbuildable{err.Error()}
		}
		if err := m.SetQoS(p.QoS); err != nil {
			return nil, errUnbuildable{err.Error()}
		}
		m.SetDup(p.Dup)
		m.SetRetain(p.Retain)
		m.SetPayload(p.Payload)
		if p.QoS > 0 && !autoID {
			m.SetPacketID(p.ID)
		}
		return m, nil
	case rc.PUBACK, rc.PUBREC, rc.PUBREL, rc.PUBCOMP, rc.UNSUBACK:
		m := libNew(p.Type)
		m.(interface{ SetPacketID(uint16) }).SetPacketID(p.ID)
		return m, nil
	case rc.SUBSCRIBE:
		m := message.NewSubscribeMessage()
		for i, f := range p.Filters {
			if err := m.AddTopic(f, p.QoSs[i]); err != nil {
				return nil, errUnbuildable{err.Error()}
			}
		}
		if !autoID {
			m.SetPacketID(p.ID)
		}
		return m, nil
	case rc.SUBACK:
		m := message.NewSubackMessage()
		if err := m.AddReturnCodes(p.Codes); err != nil {
			return nil, errUnbuildable{err.Error()}
		}
		m.SetPacketID(p.ID)
		return m, nil
	case rc.UNSUBSCRIBE:
		m := message.NewUnsubscribeMessage()
		for _, f := range p.Filters {
			m.AddTopic(f)
		}
		if !autoID {
			m.SetPacketID(p.ID)
		}
		return m, nil
	case rc.PINGREQ, rc.PINGRESP, rc.DISCONNECT:
		return libNew(p.Type), nil
	}
	return nil, fmt.Errorf("no such type %d", p.Type)
}

// canonical applies to a record what the message API itself documents it does
// while building: duplicate filters in one SUBSCRIBE/UNSUBSCRIBE are merged
// (AddTopic updates the QoS of an existing entry).
func canonical(p *rc.Packet) *rc.Packet {
	q := p.Clone()
	switch p.Type {
	case rc.SUBSCRIBE, rc.UNSUBSCRIBE:
		q.Filters, q.QoSs = nil, nil
		for i, f := range p.Filters {
			found := -1
			for j, g := range q.Filters {
				if bytes.Equal(f, g) {
					found = j
				}
			}
			if found >= 0 {
				if p.Type == rc.SUBSCRIBE {
					q.QoSs[found] = p.QoSs[i]
				}
				continue
			}
			q.Filters = append(q.Filters, f)
			if p.Type == rc.SUBSCRIBE {
				q.QoSs = append(q.QoSs, p.QoSs[i])
			}
		}
	}
	return q
}

// libFields reads the fields of a library message back into a record.
func libFields(m message.Message) *rc.Packet {
	p := &rc.Packet{Type: byte(m.Type())}
	switch m := m.(type) {
	case *message.ConnectMessage:
		p.Level = m.Version()
		p.ProtoName = message.SupportedVersions[m.Version()]
		p.CleanSession = m.CleanSession()
		p.KeepAlive = m.KeepAlive()
		p.ClientID = m.ClientID()
		p.HasWill = m.WillFlag()
		p.WillQoS = m.WillQos()
		p.WillRetain = m.WillRetain()
		p.WillTopic = m.WillTopic()
		p.WillMsg = m.WillMessage()
		p.HasUser = m.UsernameFlag()
		p.User = m.Username()
		p.HasPass = m.PasswordFlag()
		p.Pass = m.Password()
	case *message.ConnackMessage:
		p.SessionPresent = m.SessionPresent()
		p.ReturnCode = byte(m.ReturnCode())
	case *message.PublishMessage:
		p.Dup, p.QoS, p.Retain = m.Dup(), m.QoS(), m.Retain()
		p.Topic, p.Payload = m.Topic(), m.Payload()
		if p.QoS > 0 {
			p.ID = m.PacketID()
		}
	case *message.SubscribeMessage:
		p.ID = m.PacketID()
		p.Filters = m.Topics()
		p.QoSs = m.Qos()
	case *message.SubackMessage:
		p.ID = m.PacketID()
		p.Codes = m.ReturnCodes()
	case *message.UnsubscribeMessage:
		p.ID = m.PacketID()
		p.Filters = m.Topics()
	case *message.PubackMessage, *message.PubrecMessage, *message.PubrelMessage, *message.PubcompMessage, *message.UnsubackMessage:
		p.ID = m.PacketID()
	}
	return p
}

// diffPackets describes the first difference between two records ("" if equal).
func diffPackets(w, g *rc.Packet) string {
	if w.Type != g.Type {
		return fmt.Sprintf("type %d != %d", w.Type, g.Type)
	}
	b := func(name string, x, y []byte) string {
		if !bytes.Equal(x, y) {
			return fmt.Sprintf("%s: want %s got %s", name, hex(x), hex(y))
		}
		return ""
	}
	first := func(ss ...string) string {
		for _, s := range ss {
			if s != "" {
				return s
			}
		}
		return ""
	}
	v := func(name string, x, y interface{}) string {
		if x != y {
			return fmt.Sprintf("%s: want %v got %v", name, x, y)
		}
		return ""
	}
	switch w.Type {
	case rc.CONNECT:
		s := first(v("level", w.Level, g.Level), v("clean", w.CleanSession, g.CleanSession), v("keepalive", w.KeepAlive, g.KeepAlive),
			b("clientid", w.ClientID, g.ClientID), v("willflag", w.HasWill, g.HasWill), v("userflag", w.HasUser, g.HasUser), v("passflag", w.HasPass, g.HasPass))
		if s != "" {
			return s
		}
		if w.HasWill {
			s = first(v("willqos", w.WillQoS, g.WillQoS), v("willretain", w.WillRetain, g.WillRetain), b("willtopic", w.WillTopic, g.WillTopic), b("willmsg", w.WillMsg, g.WillMsg))
		}
		if s == "" && w.HasUser {
			s = b("user", w.User, g.User)
		}
		if s == "" && w.HasPass {
			s = b("pass", w.Pass, g.Pass)
		}
		return s
	case rc.CONNACK:
		return first(v("sessionpresent", w.SessionPresent, g.SessionPresent), v("returncode", w.ReturnCode, g.ReturnCode))
	case rc.PUBLISH:
		s := first(v("dup", w.Dup, g.Dup), v("qos", w.QoS, g.QoS), v("retain", w.Retain, g.Retain), b("topic", w.Topic, g.Topic), b("payload", w.Payload, g.Payload))
		if s == "" && w.QoS > 0 {
			s = v("id", w.ID, g.ID)
		}
		return s
	case rc.SUBSCRIBE, rc.UNSUBSCRIBE:
		if s := v("id", w.ID, g.ID); s != "" {
			return s
		}
		if len(w.Filters) != len(g.Filters) {
			return fmt.Sprintf("filters: want %d got %d", len(w.Filters), len(g.Filters))
		}
		for i := range w.Filters {
			if s := b(fmt.Sprintf("filter[%d]", i), w.Filters[i], g.Filters[i]); s != "" {
				return s
			}
		}
		if w.Type == rc.SUBSCRIBE {
			return b("qoss", w.QoSs, g.QoSs)
		}
	case rc.SUBACK:
		return first(v("id", w.ID, g.ID), b("codes", w.Codes, g.Codes))
	case rc.PUBACK, rc.PUBREC, rc.PUBREL, rc.PUBCOMP, rc.UNSUBACK:
		return v("id", w.ID, g.ID)
	}
	return ""
}

// libDecode decodes b with a fresh library message of type t under recover.
func libDecode(t byte, b []byte) (m message.Message, n int, err error, pan interface{}, site, class string) {
	m = libNew(t)
	defer func() {
		if r := recover(); r != nil {
			pan = r
			site, class = panicSite(r)
		}
	}()
	n, err = m.Decode(b)
	return
}

// libEncode encodes m into an exact-size buffer under recover.
func libEncode(m message.Message) (b []byte, ln, n int, err error, pan interface{}) {
	defer func() {
		if r := recover(); r != nil {
			pan = r
		}
	}()
	ln = m.Len()
	sz := ln
	if sz < 0 {
		sz = 0
	}
	b = make([]byte, sz)
	// the destination is not assumed to be zeroed (the service encodes into ring-buffer slices that hold
	// old traffic): every byte Encode reports as written must have been written
	for i := range b {
		b[i] = 0xa5
	}
	n, err = m.Encode(b)
	return
}
