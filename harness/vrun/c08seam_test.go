package vrun

import (
	"fmt"
	"sync"
	"sync/atomic"
	"testing"
	"time"

	"github.com/mdzio/go-mqtt/message"

	"verif/harness/out"
	"verif/harness/rawclient"
	rc "verif/harness/refcodec"
	"verif/harness/spec"
)

// TestC08Seam: the seam between "retained at subscription time" and "forwarded from
// then on". One writer per topic publishes retained versions 1,2,3,... (through a
// network connection or through Server.Publish, the in-process API) while
// subscribers subscribe, stay for a moment and unsubscribe. What one subscription
// receives between its SUBSCRIBE and its UNSUBACK: the live forwards are a
// consecutive run of versions, and if a retained copy of version k was handed out
// the run starts at k+1 or earlier - a new subscription that was handed retained
// version k has, by that very fact, subscribed before k+1 was accepted, so k+1 is
// due as a forward. (Where the retained copy sits on the wire relative to the
// forwards is not constrained: forwards are written by the publisher's goroutine.)
func c08Seam(idx int, seed uint64) {
	r := spec.NewRand(seed)
	inproc := idx%2 == 0
	nsub := 2 + r.Intn(4)
	nver := 150 + r.Intn(250)
	hold := 1500 // microseconds a subscription stands at most
	tight := idx%4 >= 2
	if tight {
		// many short subscriptions against a writer that does not pause: the steps of one publish and of
		// one subscription interleave as finely as the scheduler allows
		nsub = 6 + r.Intn(8)
		nver = 2000 + r.Intn(2000)
		hold = 150
	}
	params := map[string]interface{}{"case": idx, "writer_in_process": inproc, "tight": tight, "subscribers": nsub, "versions": nver}
	
	w := newWorld(worldCfg{BufferSize: 65536})
	defer w.unregister()
	var all []*rawclient.Client
	var amu sync.Mutex
	dial := func(name string) *rawclient.Client {
		c := w.dial(name, connectOpts{ClientID: name, Clean: true, KeepAlive: 600})
		amu.Lock()
		all = append(all, c)
		amu.Unlock()
		if c.WaitFor(func(l []rawclient.Event, closed bool) bool { return len(l) > 0 && l[0].P.Type == rc.CONNACK }, 20*time.Second) != nil {
			return nil
		}
		return c
	}
	defer func() {
		amu.Lock()
		for _, c := range all {
			c.Close()
		}
		amu.Unlock()
		func() { defer func() { recover() }(); w.svr.Close() }()
		noLibGoroutines(5 * time.Second)
	}()
	var failed atomic.Bool
	var incon atomic.Bool
	fail := func(sig, desc string) {
		if failed.CompareAndSwap(false, true) {
			out.Violation(sig, desc, params)
		}
	}
	const topic = "seam/t"
	var wg sync.WaitGroup
	stop := make(chan struct{})
	var subsDone sync.WaitGroup
	var intervals, seams int64
	for s := 0; s < nsub; s++ {
		wg.Add(1)
		subsDone.Add(1)
		go func(s int) {
			defer wg.Done()
			defer subsDone.Done()
			sr := spec.NewRand(spec.Mix(seed, uint64(50+s)))
			c := dial(fmt.Sprintf("seams%d", s))
			if c == nil {
				incon.Store(true)
				return
			}
			var id idGen
			pings := 0
			for !failed.Load() {
				select {
				case <-stop:
					return
				default:
				}
				mark := c.LogLen()
				c.SendPacket(&rc.Packet{Type: rc.SUBSCRIBE, ID: id.next(), Filters: [][]byte{[]byte(topic)}, QoSs: []byte{byte(sr.Intn(2))}})
				time.Sleep(time.Duration(sr.Intn(hold)) * time.Microsecond)
				c.SendPacket(&rc.Packet{Type: rc.UNSUBSCRIBE, ID: id.next(), Filters: [][]byte{[]byte(topic)}})
				c.SendPacket(&rc.Packet{Type: rc.PINGREQ})
				pings++
				want := pings
				if c.WaitFor(func(l []rawclient.Event, closed bool) bool { return countType(l, rc.PINGRESP) >= want }, 20*time.Second) != nil {
					incon.Store(true)
					return
				}
				var fw []uint32 // live forwards, in arrival order
				retained, rver := 0, uint32(0)
				for _, e := range c.Since(mark) {
					if e.P.Type != rc.PUBLISH {
						continue
					}
					_, v, ok := spec.ParsePayload(e.P.Payload)
					if !ok {
						fail("c08:retained-payload", fmt.Sprintf("subscriber %d: PUBLISH (retain=%v, %d bytes) fails its CRC", s, e.P.Retain, len(e.P.Payload)))
						return
					}
					if e.P.Retain {
						retained++
						rver = v
					} else {
						fw = append(fw, v)
					}
				}
				if retained > 1 {
					fail("c08:retained-duplicate", fmt.Sprintf("subscriber %d: %d retained copies for one subscription", s, retained))
					return
				}
				// No live forward twice. (Forwards are not required to be consecutive across the whole
				// interval: a forward of the PREVIOUS subscription may still be on its way when the
				// UNSUBACK/PINGRESP of that interval has been read - the publisher took its list before the
				// unsubscribe - and shows up at the start of this one.)
				seen := map[uint32]bool{}
				top := uint32(0)
				for _, v := range fw {
					if seen[v] {
						fail("c08:seam-repeat", fmt.Sprintf("subscriber %d, one subscription: live forwards %v contain version %d twice", s, fw, v))
						return
					}
					seen[v] = true
					if v > top {
						top = v
					}
				}
				// no update lost behind the retained copy: having been handed retained version k, the
				// subscription stood before k+1 was accepted, so every version from k+1 up to the newest
				// one received must have come as a live forward
				if retained == 1 {
					for v := rver + 1; v <= top; v++ {
						if !seen[v] {
							fail("c08:seam-gap", fmt.Sprintf("subscriber %d, one subscription: retained copy is version %d, live forwards %v: version %d was accepted while the subscription stood and never arrived", s, rver, fw, v))
							return
						}
					}
				}
				vers := fw
				atomic.AddInt64(&intervals, 1)
				if retained == 1 && len(vers) > 1 {
					atomic.AddInt64(&seams, 1)
				}
			}
		}(s)
	}
	// the writer
	wg.Add(1)
	go func() {
		defer wg.Done()
		defer close(stop)
		wr := spec.NewRand(spec.Mix(seed, 7))
		var c *rawclient.Client
		if !inproc {
			if c = dial("seamw"); c == nil {
				incon.Store(true)
				return
			}
		}
		for v := 1; v <= nver && !failed.Load(); v++ {
			pl := spec.MakePayload(1, uint32(v), spec.PayloadMin+wr.Intn(300))
			q := byte(wr.Intn(2))
			if inproc {
				m := message.NewPublishMessage()
				m.SetTopic([]byte(topic))
				m.SetQoS(q)
				m.SetRetain(true)
				m.SetPayload(pl)
				if err := w.svr.Publish(m); err != nil {
					fail("c08:server-publish-error", err.Error())
					return
				}
			} else {
				c.SendPacket(&rc.Packet{Type: rc.PUBLISH, QoS: 1, ID: uint16(v), Retain: true, Topic: []byte(topic), Payload: pl})
				want := v
				if c.WaitFor(func(l []rawclient.Event, closed bool) bool { return countType(l, rc.PUBACK) >= want }, 20*time.Second) != nil {
					incon.Store(true)
					return
				}
			}
			if !tight {
				time.Sleep(time.Duration(wr.Intn(200)) * time.Microsecond)
			} else if v%64 == 0 {
				time.Sleep(20 * time.Microsecond)
			}
		}
	}()
	wg.Wait()
	if failed.Load() {
		return
	}
	if incon.Load() {
		out.Inconclusive("c08seam: a client did not get its answer in time", params)
		return
	}
	out.Count("c08.seam.cases", 1)
	out.Count("c08.seam.subscriptions", atomic.LoadInt64(&intervals))
	out.Count("c08.seam.retained_then_forwards", atomic.LoadInt64(&seams))
	out.Class(fmt.Sprintf("seam/inproc%v/tight%v/s%d", inproc, tight, nsub/4))
}

func TestC08Seam(t *testing.T) {
	if raceEnabled {
		return
	}
	n := pick(48, 1200)
	for g := 0; g < n; g++ {
		id := fmt.Sprintf("c08/seam/%d", g)
		if !mine(g) || !out.Only(id) {
			continue
		}
		seed := caseSeed("c08s", g)
		out.Begin(id, seed, nil)
		c08Seam(g, seed)
		out.End()
	}
}
