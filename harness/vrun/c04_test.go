package vrun

import (
	"bytes"
	"fmt"
	"testing"
	"unsafe"

	"github.com/mdzio/go-mqtt/message"

	"verif/harness/out"
	rc "verif/harness/refcodec"
	"verif/harness/spec"
)

// inside reports whether slice f lies inside in[0:n] (or does not alias in at all).
func inside(f, in []byte, n int) bool {
	if len(f) == 0 || len(in) == 0 {
		return true
	}
	fs := uintptr(unsafe.Pointer(&f[0]))
	fe := fs + uintptr(len(f))
	is := uintptr(unsafe.Pointer(&in[0]))
	ie := is + uintptr(len(in))
	if fe <= is || fs >= ie {
		return true // a copy
	}
	return fs >= is && fe <= is+uintptr(n)
}

// fieldSlices lists every byte-slice field a decoded message exposes.
func fieldSlices(m message.Message) map[string][]byte {
	fs := map[string][]byte{}
	switch m := m.(type) {
	case *message.ConnectMessage:
		fs["clientid"], fs["willtopic"], fs["willmsg"], fs["user"], fs["pass"] = m.ClientID(), m.WillTopic(), m.WillMessage(), m.Username(), m.Password()
	case *message.PublishMessage:
		fs["topic"], fs["payload"] = m.Topic(), m.Payload()
	case *message.SubscribeMessage:
		for i, t := range m.Topics() {
			fs[fmt.Sprintf("filter%d", i)] = t
		}
	case *message.UnsubscribeMessage:
		for i, t := range m.Topics() {
			fs[fmt.Sprintf("filter%d", i)] = t
		}
	case *message.SubackMessage:
		fs["codes"] = m.ReturnCodes()
	}
	return fs
}

// checkTotal is the C04 oracle for one input and one decoder.
// trailerCheck: the packet is decoded from a buffer in which other bytes follow it (as in a stream or a
// ring) and the message is then changed through its setters: whatever the setters do, the bytes after
// the packet belong to the caller. A decoded field whose capacity reaches beyond the packet lets an
// appending setter write there.
func trailerCheck(t byte, pkt []byte, detail map[string]interface{}) {
	canary := []byte{0xee, 0xdd, 0xcc, 0xbb, 0xaa, 0x99, 0x88, 0x77}
	buf := make([]byte, len(pkt)+len(canary))
	copy(buf, pkt)
	copy(buf[len(pkt):], canary)
	m, n, err, pan, _, _ := libDecode(t, buf)
	if pan != nil || err != nil || n != len(pkt) {
		return // trailing bytes after an accepted packet are the codec check's business
	}
	what, pan := applySetters(m, pkt)
	if what == "" || pan != nil {
		return
	}
	out.Count("c04.trailer_checks", 1)
	if !bytes.Equal(buf[len(pkt):], canary) {
		out.Violation("c04:write-beyond-packet:"+rc.TypeName(t), fmt.Sprintf("decoded from a buffer in which 8 other bytes follow the packet, then changed through %s: the bytes after the packet now read %s (were %s)", what, hex(buf[len(pkt):]), hex(canary)), detail)
	}
}

func checkTotal(t byte, b []byte, kind string) {
	tn := rc.TypeName(t)
	in := make([]byte, len(b)) // cap == len
	copy(in, b)
	out.Count("c04.decodes", 1)
	m, n, err, pan, site, class := libDecode(t, in)
	detail := map[string]interface{}{"decoder": tn, "kind": kind, "input": hex(in), "len": len(in)}
	if pan != nil {
		out.Count("c04.panics", 1)
		out.Violation("c04:panic:"+site+":"+class, fmt.Sprintf("%s.Decode panics: %v", tn, pan), detail)
		return
	}
	if n < 0 || n > len(in) {
		out.Violation("c04:count:"+tn, fmt.Sprintf("Decode returned n=%d for %d input bytes (err=%v)", n, len(in), err), detail)
		return
	}
	accepted := err == nil
	if accepted {
		out.Count("c04.accepted", 1)
		if n == 0 {
			out.Violation("c04:count-zero:"+tn, "Decode succeeded but consumed 0 bytes", detail)
			return
		}
		for name, f := range fieldSlices(m) {
			if !inside(f, in, n) {
				out.Violation("c04:field-outside:"+tn, fmt.Sprintf("field %s (%d bytes) reaches outside the %d bytes of the decoded packet", name, len(f), n), detail)
				return
			}
		}
		if n == len(in) {
			trailerCheck(t, in, detail)
		}
	} else {
		out.Count("c04.rejected", 1)
	}
	// well-formed packets must be accepted with the right fields
	if p, tot, derr := rc.Decode(in); derr == nil && p.Type == t {
		out.Count("c04.strict_valid", 1)
		if _, policy := err.(message.ConnackCode); err != nil && policy {
			// a well-formed CONNECT refused for policy reasons (identifier,
			// protocol level): reported through the error value by design
			out.Count("c04.policy_refusal", 1)
		} else if err != nil {
			out.Violation("c04:reject-valid:"+tn, "a well-formed packet is rejected: "+err.Error(), detail)
		} else if n != tot {
			out.Violation("c04:valid-count:"+tn, fmt.Sprintf("well-formed packet of %d bytes, Decode consumed %d", tot, n), detail)
		} else if d := diffPackets(p, libFields(m)); d != "" {
			out.Violation("c04:valid-fields:"+tn, "well-formed packet decoded to wrong fields: "+d, detail)
		}
	}
	res := "rej"
	if accepted {
		res = "acc"
	}
	out.Class("total/" + tn + "/" + kind + "/" + res)
	// the same input once more, into a message object that has been decoded into before (whatever the
	// outcome was then): same verdict, same count, same fields, and again nothing outside the input
	ro := c04Reused[t]
	if ro == nil {
		ro = libNew(t)
		c04Reused[t] = ro
	}
	prevIn := c04ReusedPrev[t]
	c04ReusedPrev[t] = hex(in)
	in2 := make([]byte, len(b))
	copy(in2, b)
	var n2 int
	var err2 error
	var pan2 interface{}
	func() {
		defer func() {
			if r := recover(); r != nil {
				pan2 = r
				site, class = panicSite(r)
			}
		}()
		n2, err2 = ro.Decode(in2)
	}()
	out.Count("c04.reuse_decodes", 1)
	detail2 := map[string]interface{}{"decoder": tn, "kind": kind, "input": hex(in), "len": len(in), "previous input of the same object": prevIn}
	switch {
	case pan2 != nil:
		delete(c04Reused, t)
		out.Violation("c04:reuse-panic:"+site+":"+class, fmt.Sprintf("%s.Decode into a message object that was decoded into before panics: %v", tn, pan2), detail2)
	case n2 < 0 || n2 > len(in2):
		out.Violation("c04:reuse-count:"+tn, fmt.Sprintf("Decode into a used message object returned n=%d for %d input bytes (err=%v)", n2, len(in2), err2), detail2)
	case accepted && err2 != nil:
		out.Violation("c04:reuse-reject:"+tn, "a packet a fresh message object accepts is rejected by one that was decoded into before: "+err2.Error(), detail2)
	case accepted && n2 != n:
		out.Violation("c04:reuse-count:"+tn, fmt.Sprintf("fresh object consumed %d bytes, used object %d", n, n2), detail2)
	case accepted:
		if d := diffPackets(libFields(m), libFields(ro)); d != "" {
			out.Violation("c04:reuse-fields:"+tn, "decoded into a message object that was decoded into before: fields differ from those a fresh object reports: "+d, detail2)
			break
		}
		if pm, ok := ro.(*message.PublishMessage); ok && pm.QoS() == 0 && pm.PacketID() != 0 {
			out.Violation("c04:reuse-stale-identifier:PUBLISH", fmt.Sprintf("a QoS 0 PUBLISH decoded into a message object that was decoded into before: PacketID() reports %d, which is no part of this packet (it belongs to %s)", pm.PacketID(), prevIn), detail2)
			break
		}
		for name, f := range fieldSlices(ro) {
			if !inside(f, in2, n2) {
				out.Violation("c04:reuse-field-outside:"+tn, fmt.Sprintf("field %s (%d bytes) reaches outside the %d bytes of the decoded packet", name, len(f), n2), detail2)
				break
			}
		}
		out.Count("c04.reuse_accepted", 1)
	}
}

// c04Reused holds one long-lived message object per packet type: every input is decoded into it too.
var (
	c04Reused     = map[byte]message.Message{}
	c04ReusedPrev = map[byte]string{}
)

// mutations calls emit for every mutated variant of a valid wire image.
func mutations(r *spec.Rand, w []byte, emit func(kind string, b []byte)) {
	// every prefix
	lim := len(w)
	if lim > 300 {
		// long packets: all prefixes of the first 200 bytes, then sampled
		for i := 0; i < 200; i++ {
			emit("prefix", w[:i])
		}
		for i := 0; i < 40; i++ {
			emit("prefix", w[:200+r.Intn(len(w)-200)])
		}
	} else {
		for i := 0; i < lim; i++ {
			emit("prefix", w[:i])
		}
	}
	// every single-bit flip of short packets
	if len(w) <= 64 {
		for i := range w {
			for bit := 0; bit < 8; bit++ {
				m := append([]byte{}, w...)
				m[i] ^= 1 << uint(bit)
				emit("bitflip", m)
			}
		}
	}
	// flag nibbles
	for f := 0; f < 16; f++ {
		m := append([]byte{}, w...)
		m[0] = m[0]&0xf0 | byte(f)
		emit("flags", m)
	}
	// every byte in the first 48 set to boundary values (covers each length field)
	n := len(w)
	if n > 48 {
		n = 48
	}
	for i := 1; i < n; i++ {
		for _, v := range []int{int(w[i]) + 1, int(w[i]) - 1, int(w[i]) + 2, 0, 0x7f, 0x80, 0xff} {
			m := append([]byte{}, w...)
			m[i] = byte(v)
			emit("bytevalue", m)
		}
	}
	// remaining-length rewrites
	hdr, remlen, err := rc.FrameLen(w)
	if err == nil {
		body := w[hdr:]
		re := func(kind string, lenbytes []byte) {
			m := append([]byte{w[0]}, lenbytes...)
			m = append(m, body...)
			emit(kind, m)
		}
		for _, d := range []int{-3, -2, -1, 1, 2, 3, 127, 128} {
			if remlen+d >= 0 {
				re("remlen-off", rc.AppendVarint(nil, remlen+d))
			}
		}
		// a remaining length larger than the body, with that many extra bytes supplied (the packet is
		// complete as far as its length field goes, but longer than its type allows)
		for _, d := range []int{1, 2, 3} {
			m := append([]byte{w[0]}, rc.AppendVarint(nil, remlen+d)...)
			m = append(m, body...)
			for k := 0; k < d; k++ {
				m = append(m, byte(k))
			}
			emit("remlen-off-padded", m)
		}
		re("remlen-zero", []byte{0})
		re("remlen-5byte", []byte{0xff, 0xff, 0xff, 0xff, 0x01})
		re("remlen-5byte", []byte{0x80, 0x80, 0x80, 0x80, 0x01})
		re("remlen-unterminated", []byte{0xff, 0xff, 0xff, 0xff})
		re("remlen-unterminated", []byte{0x80})
		re("remlen-10byte", []byte{0xff, 0xff, 0xff, 0xff, 0xff, 0xff, 0xff, 0xff, 0xff, 0x7f})
		re("remlen-10byte", []byte{0x80, 0x80, 0x80, 0x80, 0x80, 0x80, 0x80, 0x80, 0x80, 0x01})
		re("remlen-nonminimal", append([]byte{byte(remlen&0x7f) | 0x80}, rc.AppendVarint(nil, remlen>>7)...))
		// padded (non-minimal) remaining lengths, complete and with the last 1..4 bytes missing:
		// the fixed header is then longer than the canonical one for the same value
		min := rc.AppendVarint(nil, remlen)
		for pad := 1; len(min)+pad <= 4; pad++ {
			lb := append([]byte{}, min...)
			lb[len(lb)-1] |= 0x80
			for k := 1; k < pad; k++ {
				lb = append(lb, 0x80)
			}
			lb = append(lb, 0x00)
			re("remlen-padded", lb)
			full := append(append([]byte{w[0]}, lb...), body...)
			for cut := 1; cut <= 4 && cut < len(full); cut++ {
				emit("remlen-padded-truncated", full[:len(full)-cut])
			}
		}
		// header only, nothing after it
		emit("header-only", w[:hdr])
		emit("type-only", w[:1])
	}
	// trailing bytes
	emit("trailing", append(append([]byte{}, w...), 0xff, 0xff, 0xff, 0xff))
}

func TestC04(t *testing.T) {
	// (1) mutations of the boundary corpus and of random valid packets
	groups := pick(40, 2000)
	per := 60
	for g := 0; g < groups; g++ {
		id := fmt.Sprintf("c04/mut/%d", g)
		if !mine(g) || !out.Only(id) {
			continue
		}
		seed := caseSeed("c04m", g)
		out.Begin(id, seed, nil)
		r := spec.NewRand(seed)
		var recs []*rc.Packet
		if g == 0 {
			for _, p := range boundaryRecords(r, false) {
				if n := len(p.Payload) + len(p.Topic) + len(p.WillMsg) + len(p.User) + len(p.Pass) + len(p.WillTopic); n < 20000 {
					recs = append(recs, p)
				}
			}
		}
		for i := 0; i < per; i++ {
			p := genRecord(r, allTypes[(i+g)%len(allTypes)])
			if len(p.Payload) > 2000 {
				p.Payload = p.Payload[:r.Intn(2000)]
			}
			recs = append(recs, p)
		}
		for i, p := range recs {
			w := rc.Encode(canonical(p))
			if i == 0 {
				out.Sample("c04.mut", 2, map[string]interface{}{"valid": hex(w), "type": rc.TypeName(p.Type)})
			}
			checkTotal(p.Type, w, "valid")
			mutations(r, w, func(kind string, b []byte) {
				checkTotal(p.Type, b, kind)
				if r.Intn(16) == 0 {
					// the same bytes through a decoder of another type
					checkTotal(allTypes[r.Intn(len(allTypes))], b, kind+"-othertype")
				}
			})
		}
		out.End()
	}
	// (2) random byte strings of length 0..64 through every decoder
	rgroups := pick(8, 400)
	for g := 0; g < rgroups; g++ {
		id := fmt.Sprintf("c04/rand/%d", g)
		if !mine(g+1) || !out.Only(id) {
			continue
		}
		seed := caseSeed("c04r", g)
		out.Begin(id, seed, nil)
		r := spec.NewRand(seed)
		for i := 0; i < 4000; i++ {
			n := r.Intn(65)
			b := r.Bytes(n)
			for _, ty := range allTypes {
				bb := append([]byte{}, b...)
				if n > 0 && r.Intn(4) != 0 {
					bb[0] = ty<<4 | rc.FixedFlags(ty) // plausible first byte so the body is reached
					if ty == rc.PUBLISH {
						bb[0] = ty<<4 | byte(r.Intn(16))
					}
				}
				if n > 1 && r.Intn(2) == 0 {
					bb[1] = byte(r.Intn(n + 2)) // plausible short remaining length
				}
				checkTotal(ty, bb, "random")
			}
		}
		if g == 0 {
			for _, ty := range allTypes {
				checkTotal(ty, nil, "empty")
				checkTotal(ty, []byte{}, "empty")
			}
		}
		out.End()
	}
}
