package vrun

import (
	"fmt"
	"sync"
	"testing"
	"time"

	"github.com/mdzio/go-mqtt/message"
	"github.com/mdzio/go-mqtt/service"

	"verif/harness/out"
	"verif/harness/rawclient"
	rc "verif/harness/refcodec"
	"verif/harness/spec"
)

// TestC12Oversize: a client with a small buffer (Client.BufferSize 16 KiB) issues
// 10..25 requests, every fourth of which is larger than that buffer (a PUBLISH
// of 17..60 KiB at QoS 0/1/2, a SUBSCRIBE / UNSUBSCRIBE whose filters add up to
// more). Such a call cannot be sent; whatever it returns, it must return (not
// block), its completion must not fire without an acknowledgement, and every
// other request - before and behind it - must complete as C12 says once the peer
// has acknowledged it. Scripted TCP peer, PINGREQ/PINGRESP barrier.
func c12Oversize(idx int, seed uint64) {
	r := spec.NewRand(seed)
	n := 10 + r.Intn(16)
	params := map[string]interface{}{"case": idx, "requests": n}
	var mu sync.Mutex
	var trace []string
	fail := func(sig, desc string) {
		mu.Lock()
		out.Violation(sig, desc, map[string]interface{}{"params": params, "trace": trace})
		mu.Unlock()
	}
	s, err := openSession(nil, 16384)
	if err != nil {
		out.Inconclusive("session: "+err.Error(), nil)
		return
	}
	defer s.closeAll()
	type req struct {
		kind  string
		big   bool
		fired int
		err   error
	}
	reqs := make([]*req, n)
	kinds := []string{"pub0", "pub1", "pub2", "sub", "unsub"}
	for i := 0; i < n; i++ {
		q := &req{kind: kinds[r.Intn(len(kinds))], big: i > 0 && r.Intn(4) == 0}
		reqs[i] = q
		i := i
		var cb service.OnCompleteFunc = func(msg, ack message.Message, err error) error {
			mu.Lock()
			q.fired++
			trace = append(trace, fmt.Sprintf("completion #%d %s", i, q.kind))
			mu.Unlock()
			return nil
		}
		call := func() error {
			switch q.kind {
			case "pub0", "pub1", "pub2":
				m := message.NewPublishMessage()
				m.SetTopic([]byte(fmt.Sprintf("o/%d", i)))
				m.SetQoS(byte(q.kind[3] - '0'))
				sz := 30 + r.Intn(3000)
				if q.big {
					sz = 17000 + r.Intn(43000)
				}
				m.SetPayload(spec.MakePayload(uint64(i+1), 0, sz))
				return s.cln.Publish(m, cb)
			case "sub":
				m := message.NewSubscribeMessage()
				m.AddTopic([]byte(fmt.Sprintf("o/s/%d", i)), 1)
				if q.big {
					for k := 0; k < 40; k++ {
						m.AddTopic([]byte(fmt.Sprintf("o/s/%d/%d/%s", i, k, string(make([]byte, 500)))), 0)
					}
				}
				return s.cln.Subscribe(m, cb, func(*message.PublishMessage) error { return nil })
			default:
				m := message.NewUnsubscribeMessage()
				m.AddTopic([]byte(fmt.Sprintf("o/s/%d", i)))
				if q.big {
					for k := 0; k < 40; k++ {
						m.AddTopic([]byte(fmt.Sprintf("o/s/%d/%d/%s", i, k, string(make([]byte, 500)))))
					}
				}
				return s.cln.Unsubscribe(m, cb)
			}
		}
		mu.Lock()
		trace = append(trace, fmt.Sprintf("issue #%d %s big=%v", i, q.kind, q.big))
		mu.Unlock()
		done := make(chan error, 1)
		go func() { done <- call() }()
		select {
		case q.err = <-done:
		case <-time.After(10 * time.Second):
			var tops []string
			for _, g := range libGoroutines() {
				tops = append(tops, g.libTop()+":"+g.state)
			}
			fail("c12:call-blocked", fmt.Sprintf("request #%d %s (larger than the client's 16 KiB buffer: %v) has not returned; library goroutines: %v", i, q.kind, q.big, uniq(tops)))
			return
		}
		if q.err != nil && !q.big {
			fail("c12:request-error", fmt.Sprintf("request #%d %s: %v", i, q.kind, q.err))
			return
		}
		if q.big {
			out.Count("c12.oversize_requests", 1)
			if q.err == nil {
				out.Count("c12.oversize_accepted", 1)
			}
		}
	}
	// the peer acknowledges everything that reached the wire, in order of arrival
	if !s.barrier(10 * time.Second) {
		fail("c12:barrier", "the client did not answer the peer's PINGREQ")
		return
	}
	if ferr := s.srv.FrameErr(); ferr != nil {
		fail("c12:framing", ferr.Error())
		return
	}
	for _, e := range s.srv.Log()[1:] {
		switch e.P.Type {
		case rc.PUBLISH:
			switch e.P.QoS {
			case 1:
				s.srv.SendPacket(&rc.Packet{Type: rc.PUBACK, ID: e.P.ID})
			case 2:
				s.srv.SendPacket(&rc.Packet{Type: rc.PUBREC, ID: e.P.ID})
			}
		case rc.SUBSCRIBE:
			s.srv.SendPacket(&rc.Packet{Type: rc.SUBACK, ID: e.P.ID, Codes: make([]byte, len(e.P.Filters))})
		case rc.UNSUBSCRIBE:
			s.srv.SendPacket(&rc.Packet{Type: rc.UNSUBACK, ID: e.P.ID})
		}
	}
	// PUBRELs come back for the PUBRECs: answer them
	nrel := 0
	for _, q := range reqs {
		if q.kind == "pub2" && q.err == nil {
			nrel++
		}
	}
	if s.srv.WaitFor(func(l []rawclient.Event, closed bool) bool { return countType(l, rc.PUBREL) >= nrel }, 10*time.Second) != nil {
		fail("c12:pubrel-missing", fmt.Sprintf("%d QoS 2 publishes were received with PUBREC, %d PUBRELs came back", nrel, countType(s.srv.Log(), rc.PUBREL)))
		return
	}
	for _, e := range s.srv.Log() {
		if e.P.Type == rc.PUBREL {
			s.srv.SendPacket(&rc.Packet{Type: rc.PUBCOMP, ID: e.P.ID})
		}
	}
	if !s.barrier(10 * time.Second) {
		fail("c12:barrier", "the client did not answer the peer's PINGREQ")
		return
	}
	mu.Lock()
	defer mu.Unlock()
	for i, q := range reqs {
		switch {
		case q.err != nil && q.fired != 0 && q.kind != "pub0":
			out.Violation("c12:completion-without-ack", fmt.Sprintf("request #%d %s was refused (%v), yet its completion fired %d times", i, q.kind, q.err, q.fired), map[string]interface{}{"params": params, "trace": trace})
			return
		case q.err == nil && q.fired != 1:
			out.Violation("c12:completion-missing:behind-refused", fmt.Sprintf("request #%d %s was sent and acknowledged, its completion fired %d times (requests larger than the buffer had been refused before or after it)", i, q.kind, q.fired), map[string]interface{}{"params": params, "trace": trace})
			return
		}
	}
	out.Count("c12.oversize_cases", 1)
	out.Class("oversize")
}

func TestC12Oversize(t *testing.T) {
	n := pick(40, 400)
	for g := 0; g < n; g++ {
		id := fmt.Sprintf("c12/oversize/%d", g)
		if !mine(g) || !out.Only(id) {
			continue
		}
		seed := caseSeed("c12ov", g)
		out.Begin(id, seed, nil)
		c12Oversize(g, seed)
		out.End()
	}
}
