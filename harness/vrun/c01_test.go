package vrun

import (
	"fmt"
	"sort"
	"strings"
	"testing"

	"github.com/mdzio/go-mqtt/message"
	"github.com/mdzio/go-mqtt/service"

	"verif/harness/out"
	rc "verif/harness/refcodec"
	"verif/harness/spec"
)

// level alphabets for C01 topics and filters (never a leading '$')
var c01Lits = []string{"a", "b", "longlevel-0123456789012345678901234567890123456789", "ünï", "$d"}

// c01Lit picks a literal level; '$' is only special at the very beginning of a topic, so
// a level that starts with it is used everywhere except as the first one.
func c01Lit(r *spec.Rand, first bool) string {
	l := c01Lits[r.Intn(2+r.Intn(4))%len(c01Lits)]
	if first && l[0] == '$' {
		l = "a"
	}
	return l
}

func genName(r *spec.Rand, emptyOK bool) string {
	n := 1 + r.Intn(4)
	ls := make([]string, n)
	for i := range ls {
		if emptyOK && r.Intn(6) == 0 {
			ls[i] = ""
		} else {
			ls[i] = c01Lit(r, i == 0)
		}
	}
	s := strings.Join(ls, "/")
	if s == "" {
		s = "a"
	}
	return s
}

func genFilterC01(r *spec.Rand, emptyOK bool) string {
	n := 1 + r.Intn(4)
	ls := make([]string, n)
	for i := range ls {
		switch x := r.Intn(10); {
		case x < 2:
			ls[i] = "+"
		case x == 2 && i == n-1:
			ls[i] = "#"
		case x == 3 && emptyOK:
			ls[i] = ""
		default:
			ls[i] = c01Lit(r, i == 0)
		}
	}
	s := strings.Join(ls, "/")
	if s == "" {
		s = "+"
	}
	return s
}

// inproc is an in-process subscriber registered through Server.Subscribe.
type inproc struct {
	fn   service.OnPublishFunc
	got  []delivered
	subs map[string]byte
}

func newInproc() *inproc {
	ip := &inproc{subs: map[string]byte{}}
	ip.fn = func(m *message.PublishMessage) error {
		d := delivered{qos: m.QoS(), retain: m.Retain(), topic: string(m.Topic()), n: len(m.Payload())}
		d.uid, d.seq, d.ok = spec.ParsePayload(m.Payload())
		ip.got = append(ip.got, d)
		return nil
	}
	return ip
}

func (ip *inproc) fresh() []delivered {
	g := ip.got
	ip.got = nil
	return g
}

// c01Check compares the copies of one publish a subscriber got with its model
// subscriptions. got = QoS of each copy received.
func c01Check(who string, subs map[string]byte, topic string, pubQ byte, got []delivered, uid uint64, desc *[]string) (sig string) {
	return c01CheckImpl(who, subs, nil, topic, pubQ, got, uid, desc)
}

// implKey is the node of the subscription tree a filter lands on under the
// empty-level encoding (known finding F-C06-1): filters with the same key are
// one and the same subscription to the implementation.
func implKey(f string) string {
	ls := strings.Split(f, "/")
	if len(ls) > 1 && ls[len(ls)-1] == "" {
		ls = ls[:len(ls)-1]
	}
	for i := range ls {
		if ls[i] == "" {
			ls[i] = "+"
		}
	}
	return strings.Join(ls, "/")
}

// c01CheckImpl: isubs, if not nil, is the implementation-level view of the
// subscriber's subscriptions (tree key -> granted QoS, maintained along the
// history) used by the classifier of the empty-level finding.
func c01CheckImpl(who string, subs map[string]byte, isubs map[string]byte, topic string, pubQ byte, got []delivered, uid uint64, desc *[]string) (sig string) {
	var want, wantImpl []byte
	emptyInvolved := hasEmptyLevel(topic)
	for f, g := range subs {
		if hasEmptyLevel(f) {
			emptyInvolved = true
		}
		if spec.Match(f, topic) {
			want = append(want, minQ(pubQ, g))
		}
		if isubs == nil && implEmptyLevelMatch(f, topic) {
			wantImpl = append(wantImpl, minQ(pubQ, g))
		}
	}
	for k, g := range isubs {
		// keys contain no empty levels any more; the name keeps its own encoding
		if implEmptyLevelMatch(k, topic) {
			wantImpl = append(wantImpl, minQ(pubQ, g))
		}
	}
	if isubs != nil && len(isubs) != len(subs) {
		emptyInvolved = true // aliased filters of this subscriber collapsed into one subscription
	}
	var gq []byte
	for _, d := range got {
		if d.uid != uid {
			continue
		}
		if !d.ok {
			*desc = append(*desc, fmt.Sprintf("%s: payload of uid %d corrupted", who, uid))
			return "c01:payload"
		}
		if d.topic != topic {
			*desc = append(*desc, fmt.Sprintf("%s: topic %q instead of %q", who, d.topic, topic))
			return "c01:topic"
		}
		gq = append(gq, d.qos)
	}
	okFor := func(w []byte) bool {
		if len(w) == 0 {
			return len(gq) == 0
		}
		return len(gq) >= 1 && len(gq) <= len(w) && submultiset(gq, w)
	}
	if okFor(want) {
		return ""
	}
	if emptyInvolved && okFor(wantImpl) {
		*desc = append(*desc, fmt.Sprintf("%s: topic %q, subscriptions %v: got QoS %v, MQTT 4.7 expects %v (empty-level encoding)", who, topic, subs, gq, want))
		return "c01:empty-level"
	}
	kind := "c01:wrong-qos"
	switch {
	case len(want) == 0:
		kind = "c01:unexpected-delivery"
	case len(gq) == 0:
		kind = "c01:missing-delivery"
	case len(gq) > len(want):
		kind = "c01:too-many-copies"
	}
	*desc = append(*desc, fmt.Sprintf("%s: topic %q pubQoS %d, subscriptions %v: received copies with QoS %v, expected between 1 and %d copies with QoS from %v", who, topic, pubQ, subs, gq, len(want), want))
	return kind
}

func subsString(m map[string]byte) string {
	var ks []string
	for k, v := range m {
		ks = append(ks, fmt.Sprintf("%s:%d", k, v))
	}
	sort.Strings(ks)
	return strings.Join(ks, ",")
}

// isubsMap holds the implementation-level subscription view per client (see implKey).
var isubsMap = map[*bclient]map[string]byte{}

func isubsOf(c *bclient) map[string]byte {
	m := isubsMap[c]
	if m == nil {
		m = map[string]byte{}
		isubsMap[c] = m
	}
	return m
}

// c01History runs one sequential history in a bubble.
func c01History(t *testing.T, idx int, seed uint64) {
	r := spec.NewRand(seed)
	bufSize := []int64{16384, 65536, 0}[r.Intn(3)]
	emptyOK := idx%8 == 7 // a marked subset uses empty levels (known finding classifier)
	nclients := 3 + r.Intn(4)
	steps := 15 + r.Intn(25)
	var ops []string
	params := map[string]interface{}{"buffer": bufSize, "clients": nclients, "steps": steps, "empty_levels": emptyOK}
	bubble(t, "c01", params, func(cl *cleanup) {
		isubsMap = map[*bclient]map[string]byte{}
		w := newWorld(worldCfg{BufferSize: bufSize})
		cl.add(w.shutdown)
		var uids uidGen
		clients := make([]*bclient, nclients)
		inprocs := []*inproc{newInproc(), newInproc()}
		limit := int(bufSize)
		if limit == 0 {
			limit = 256 << 10
		}
		limit -= 8192
		fail := func(sig, desc string) {
			o := ops
			if len(o) > 30 {
				o = o[len(o)-30:]
			}
			out.Violation(sig, desc, map[string]interface{}{"history": idx, "params": params, "last_ops": o})
		}
		sizes := []int{spec.PayloadMin, 127, 128, 129, 1000, 4000}
		stored, storedI := map[int]map[string]byte{}, map[int]map[string]byte{} // subscriptions of the persistent clients while they are away
		for s := 0; s < steps; s++ {
			ci := r.Intn(nclients)
			c := clients[ci]
			switch op := r.Intn(20); {
			case c == nil || !c.up:
				if c != nil {
					c.Close()
				}
				name := fmt.Sprintf("c%d", ci)
				// every second client keeps its session (CleanSession=0): the subscriptions it held when its
				// previous connection ended are held again once the new connection is up
				persistent := ci%2 == 1 && !emptyOK // (not in the empty-level subset: see F-C01-1)
				ops = append(ops, fmt.Sprintf("connect %s (CleanSession=%v)", name, !persistent))
				nc, ack := w.connectB(name, connectOpts{ClientID: name, Clean: !persistent, KeepAlive: 600})
				if ack == nil || ack.ReturnCode != 0 {
					fail("c01:connect", fmt.Sprintf("%s: no CONNACK 0 (got %v)", name, ack))
					return
				}
				if st := stored[ci]; persistent && st != nil {
					for f, q := range st {
						nc.subs[f] = q
					}
					for k, q := range storedI[ci] {
						isubsOf(nc)[k] = q
					}
					if len(st) > 0 {
						out.Count("c01.seq.resumed_with_subscriptions", 1)
					}
				}
				clients[ci] = nc
			case op < 6: // subscribe
				nf := 1 + r.Intn(3)
				var fs []string
				var qs []byte
				for i := 0; i < nf; i++ {
					fs = append(fs, genFilterC01(r, emptyOK))
					qs = append(qs, byte(r.Intn(3)))
				}
				ops = append(ops, fmt.Sprintf("%s subscribe %q %v", c.name, fs, qs))
				ack, _ := c.subscribeB(fs, qs)
				if ack == nil || len(ack.Codes) != nf {
					fail("c01:suback", fmt.Sprintf("%s: no proper SUBACK for %q (got %v)", c.name, fs, ack))
					return
				}
				for i, f := range fs {
					if ack.Codes[i] <= 2 {
						c.subs[f] = ack.Codes[i]
						isubsOf(c)[implKey(f)] = ack.Codes[i]
					}
				}
			case op < 8: // unsubscribe
				var fs []string
				for f := range c.subs {
					fs = append(fs, f)
				}
				sort.Strings(fs)
				if len(fs) == 0 || r.Intn(4) == 0 {
					fs = []string{genFilterC01(r, false)}
				} else {
					fs = fs[:1+r.Intn(len(fs))]
					if len(fs) > 3 {
						fs = fs[:3]
					}
					// now and then a filter the client does not hold (or the same filter twice) somewhere
					// in the list: the others are removed all the same
					if r.Intn(3) == 0 {
						extra := genFilterC01(r, false)
						if r.Intn(3) == 0 {
							extra = fs[r.Intn(len(fs))]
						}
						at := r.Intn(len(fs) + 1)
						fs = append(fs[:at:at], append([]string{extra}, fs[at:]...)...)
						out.Count("c01.unsubscribe_mixed", 1)
					}
				}
				ops = append(ops, fmt.Sprintf("%s unsubscribe %q", c.name, fs))
				ack, _ := c.unsubscribeB(fs)
				if ack == nil {
					fail("c01:unsuback", fmt.Sprintf("%s: no UNSUBACK for %q", c.name, fs))
					return
				}
				for _, f := range fs {
					delete(c.subs, f)
					delete(isubsOf(c), implKey(f))
				}
			case op < 9: // in-process subscribe / unsubscribe
				ip := inprocs[r.Intn(2)]
				if len(ip.subs) > 0 && r.Bool() {
					var fs []string
					for f := range ip.subs {
						fs = append(fs, f)
					}
					sort.Strings(fs)
					f := fs[r.Intn(len(fs))]
					ops = append(ops, fmt.Sprintf("inproc unsubscribe %q", f))
					if err := w.svr.Unsubscribe(f, &ip.fn); err != nil {
						fail("c01:inproc-unsubscribe", err.Error())
						return
					}
					delete(ip.subs, f)
				} else {
					f := genFilterC01(r, false)
					q := byte(r.Intn(3))
					ops = append(ops, fmt.Sprintf("inproc subscribe %q %d", f, q))
					if err := w.svr.Subscribe(f, q, &ip.fn); err != nil {
						fail("c01:inproc-subscribe", err.Error())
						return
					}
					ip.subs[f] = q
				}
				settle()
				ip.fresh()
			case op < 10: // end of connection
				if r.Bool() {
					ops = append(ops, c.name+" DISCONNECT")
					c.SendPacket(&rc.Packet{Type: rc.DISCONNECT})
					settle()
				} else {
					ops = append(ops, c.name+" abrupt close")
				}
				c.Close()
				settle()
				c.up = false
				if ci%2 == 1 && !emptyOK {
					stored[ci], storedI[ci] = c.subs, isubsOf(c)
				}
				c.subs = map[string]byte{}
				delete(isubsMap, c)
			default: // publish
				topic := genName(r, emptyOK)
				q := byte(r.Intn(3))
				size := sizes[r.Intn(len(sizes))]
				switch r.Intn(12) {
				case 0:
					size = limit - 16 - len(topic) // at the packet limit
				case 1:
					size = 8192 - 7 - len(topic) - r.Intn(8)
				case 2:
					// the delivered packet (re-encoded when a subscription's grant lowers the QoS) has a remaining
					// length right at an edge of the length encoding; with or without a packet identifier
					rl := []int{127, 128, 16383, 16384}[r.Intn(4)]
					if rl+16 > limit {
						rl -= 16256 // 127 / 128 on the small rings
					}
					size = rl - 2 - len(topic) - 2*r.Intn(2)
					out.Count("c01.seq.length_edge_publishes", 1)
				}
				if size < spec.PayloadMin {
					size = spec.PayloadMin
				}
				uid := uids.next()
				payload := spec.MakePayload(uid, uint32(s), size)
				viaServer := r.Intn(6) == 0
				if viaServer {
					ops = append(ops, fmt.Sprintf("Server.Publish %q q%d %dB uid%d", topic, q, size, uid))
					m := message.NewPublishMessage()
					m.SetTopic([]byte(topic))
					m.SetQoS(q)
					m.SetPayload(payload)
					if err := w.svr.Publish(m); err != nil {
						fail("c01:server-publish", err.Error())
						return
					}
					settle()
				} else {
					ops = append(ops, fmt.Sprintf("%s publish %q q%d %dB uid%d", c.name, topic, q, size, uid))
					c.publishB(topic, q, false, payload)
				}
				// every connection must still be open, and the deliveries exact
				var desc []string
				sigs := map[string]bool{}
				for _, cj := range clients {
					if cj == nil || !cj.up {
						continue
					}
					if cj.Closed() {
						fail("c01:connection-lost", fmt.Sprintf("%s was disconnected by the broker after a publish (frame error: %v)", cj.name, cj.FrameErr()))
						return
					}
					if err := cj.FrameErr(); err != nil {
						fail("c01:framing", fmt.Sprintf("%s received a malformed stream: %v", cj.name, err))
						return
					}
					got := publishesIn(cj.fresh())
					for _, d := range got {
						if d.uid != uid {
							desc = append(desc, fmt.Sprintf("%s received a message that is not the current publish: %+v", cj.name, d))
							sigs["c01:stray-delivery"] = true
						}
					}
					if sig := c01CheckImpl(cj.name, cj.subs, isubsOf(cj), topic, q, got, uid, &desc); sig != "" {
						sigs[sig] = true
					}
					if len(cj.subs) > 0 {
						out.Count("c01.seq.obligations", 1)
					}
				}
				for k, ip := range inprocs {
					got := ip.fresh()
					if sig := c01Check(fmt.Sprintf("inproc%d", k), ip.subs, topic, q, got, uid, &desc); sig != "" {
						sigs[sig] = true
					}
				}
				out.Count("c01.seq.publishes", 1)
				for sig := range sigs {
					fail(sig, strings.Join(desc, "; "))
				}
				if len(sigs) > 0 {
					return
				}
				// class: shapes of what was decided
				for _, cj := range clients {
					if cj == nil || !cj.up {
						continue
					}
					for f, g := range cj.subs {
						m := spec.Match(f, topic)
						if strings.ContainsAny(f, "+#") {
							if m {
								out.Count("c01.seq.wildcard_must", 1)
							} else {
								out.Count("c01.seq.wildcard_mustnot", 1)
							}
						}
						out.Class(fmt.Sprintf("seq/%s|%s|%v|p%dg%d", shape(f), shape(topic), m, q, g))
					}
				}
			}
		}
		out.Count("c01.seq.histories", 1)
		if idx%50 == 0 {
			o := ops
			if len(o) > 14 {
				o = o[:14]
			}
			out.Sample("c01.seq", 3, map[string]interface{}{"params": params, "ops": o})
		}
	})
}

func TestC01Seq(t *testing.T) {
	n := pick(1600, 40000)
	for h := 0; h < n; h++ {
		id := fmt.Sprintf("c01/seq/%d", h)
		if !mine(h) || !out.Only(id) {
			continue
		}
		seed := caseSeed("c01s", h)
		out.Begin(id, seed, nil)
		c01History(t, h, seed)
		out.End()
	}
}
