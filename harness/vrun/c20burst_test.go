package vrun

import (
	"fmt"
	"sync"
	"testing"
	"time"

	"github.com/mdzio/go-mqtt/message"

	"verif/harness/out"
	"verif/harness/rawclient"
	rc "verif/harness/refcodec"
	"verif/harness/spec"
)

// TestC20BurstClose: after a completed Subscribe the scripted server delivers a
// burst of matching messages in one write and closes the connection at once,
// while the client's callback is still busy with the first message. Every
// message of the burst arrived completely before the end of the stream, so the
// callback must be invoked for each, once, in order. The verdict is taken when
// the client's teardown-finished event has fired (no deadline decides).
func c20BurstClose(idx int, seed uint64) {
	r := spec.NewRand(seed)
	n := 5 + r.Intn(60)
	dwell := time.Duration(r.Intn(40)) * time.Millisecond
	params := map[string]interface{}{"case": idx, "messages": n, "first_callback_dwell_ms": dwell.Milliseconds()}
	sink := newSink()
	defer curSink.Store(nil)
	s, err := openSession(nil, 1<<20)
	if err != nil {
		out.Inconclusive("session: "+err.Error(), nil)
		return
	}
	defer s.closeAll()
	var mu sync.Mutex
	var got []uint64
	var bad int
	done := make(chan error, 1)
	sm := message.NewSubscribeMessage()
	sm.AddTopic([]byte("c20b/#"), 0)
	err = s.cln.Subscribe(sm, func(msg, ack message.Message, err error) error { done <- err; return nil },
		func(m *message.PublishMessage) error {
			d := decodeDelivery(&rc.Packet{Type: rc.PUBLISH, Topic: m.Topic(), Payload: m.Payload(), QoS: m.QoS()})
			mu.Lock()
			first := len(got) == 0
			if d.ok {
				got = append(got, d.uid)
			} else {
				bad++
			}
			mu.Unlock()
			if first {
				time.Sleep(dwell)
			}
			return nil
		})
	if err != nil {
		out.Violation("c20:subscribe-error", err.Error(), params)
		return
	}
	if s.srv.WaitFor(func(l []rawclient.Event, closed bool) bool { return countType(l, rc.SUBSCRIBE) == 1 }, 10*time.Second) != nil {
		out.Inconclusive("c20burst: no SUBSCRIBE on the wire", params)
		return
	}
	var sid uint16
	for _, e := range s.srv.Log() {
		if e.P.Type == rc.SUBSCRIBE {
			sid = e.P.ID
		}
	}
	s.srv.SendPacket(&rc.Packet{Type: rc.SUBACK, ID: sid, Codes: []byte{0}})
	select {
	case <-done:
	case <-time.After(10 * time.Second):
		out.Inconclusive("c20burst: Subscribe did not complete", params)
		return
	}
	var burst []byte
	for k := 0; k < n; k++ {
		burst = append(burst, rc.Encode(&rc.Packet{Type: rc.PUBLISH, Topic: []byte(fmt.Sprintf("c20b/%d", k)), Payload: spec.MakePayload(uint64(k+1), 0, 20+r.Intn(900))})...)
	}
	s.srv.Send(burst)
	s.srv.Flush()
	s.srv.Close() // end of stream right behind the last complete packet
	if !sink.waitCount("stop.done", s.cid, 1, 20*time.Second) {
		out.Inconclusive("c20burst: the client's teardown was not observed", params)
		return
	}
	mu.Lock()
	defer mu.Unlock()
	if bad > 0 {
		out.Violation("c20:callback-corrupt", fmt.Sprintf("%d callbacks with a corrupted message", bad), params)
		return
	}
	okOrder := len(got) == n
	for i := 0; okOrder && i < n; i++ {
		okOrder = got[i] == uint64(i+1)
	}
	if !okOrder {
		out.Violation("c20:callback-missing-at-close", fmt.Sprintf("the server delivered %d matching messages in one write after the completed Subscribe and then closed the connection; the callback was invoked for %d of them (first %v)", n, len(got), head(got, 8)), params)
		return
	}
	out.Count("c20.burst_close_cases", 1)
	out.Count("c20.burst_close_messages", int64(n))
	out.Class(fmt.Sprintf("burstclose/n%d", n/16))
}

func head(v []uint64, k int) []uint64 {
	if len(v) > k {
		return v[:k]
	}
	return v
}

func TestC20BurstClose(t *testing.T) {
	if raceEnabled {
		return
	}
	n := pick(40, 1000)
	for g := 0; g < n; g++ {
		id := fmt.Sprintf("c20/burstclose/%d", g)
		if !mine(g) || !out.Only(id) {
			continue
		}
		seed := caseSeed("c20b", g)
		out.Begin(id, seed, nil)
		c20BurstClose(g, seed)
		out.End()
	}
}
