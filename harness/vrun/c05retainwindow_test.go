package vrun

import (
	"fmt"
	"sync"
	"testing"
	"time"

	"verif/harness/out"
	"verif/harness/rawclient"
	rc "verif/harness/refcodec"
	"verif/harness/spec"
)

// TestC05RetainWindow: a subscriber's sudden disconnect must not cost other clients a message. The
// only subscriber of a topic stops reading and closes; the broker's write to it fails and its
// outgoing ring is closed, while its teardown - held at its very beginning by the event hook, a
// delay at a point where it holds no lock - has not removed its subscription yet. In that window
// another client publishes a retained message (QoS 0/1/2, sometimes an empty one that clears) on
// the topic: the delivery to the dying subscriber fails. The publisher must be acknowledged and stay
// connected, and the retained message is the broker's to keep: a client that subscribes after the
// teardown has finished must get exactly the last retained message (or none after a clearing one).
func c05RetainWindow(idx int, seed uint64) {
	if raceEnabled {
		return
	}
	r := spec.NewRand(seed)
	rounds := pick(12, 60)
	params := map[string]interface{}{"case": idx, "rounds": rounds}
	fail := func(sig, desc string) { out.Violation(sig, desc, params) }
	w := newWorld(worldCfg{BufferSize: 16384})
	defer w.shutdown()
	defer eventHold.Store(nil)
	const wait = 15 * time.Second
	connect := func(name string, pol rawclient.AckPolicy) *rawclient.Client {
		c := w.dial(name, connectOpts{ClientID: name, Clean: true, KeepAlive: 6000, Policy: pol})
		if c.WaitFor(func(l []rawclient.Event, closed bool) bool { return len(l) > 0 }, wait) != nil || c.Log()[0].P.Type != rc.CONNACK {
			return nil
		}
		return c
	}
	P := connect(fmt.Sprintf("rw-pub-%d", idx), nil)
	if P == nil {
		out.Inconclusive("c05retainwindow: publisher", params)
		return
	}
	pings := 0
	barrier := func() bool {
		pings++
		n := pings
		P.SendPacket(&rc.Packet{Type: rc.PINGREQ})
		return P.WaitFor(func(l []rawclient.Event, closed bool) bool { return countType(l, rc.PINGRESP) >= n || closed }, wait) == nil && !P.Closed()
	}
	var pid idGen
	nack := 0
	uid := uint64(0)
	for rd := 0; rd < rounds; rd++ {
		topic := fmt.Sprintf("rw/%d/%d", idx, rd)
		vname := fmt.Sprintf("rw-v-%d-%d", idx, rd)
		held := make(chan struct{})
		release := make(chan struct{})
		var once sync.Once
		h := func(kind, cid string) {
			if kind == "stop.begin" && cid == vname {
				once.Do(func() {
					close(held)
					select {
					case <-release:
					case <-time.After(5 * time.Second):
					}
				})
			}
		}
		eventHold.Store(&h)
		V := connect(vname, rawclient.AckNone)
		if V == nil {
			out.Inconclusive("c05retainwindow: victim", params)
			close(release)
			return
		}
		V.SendPacket(&rc.Packet{Type: rc.SUBSCRIBE, ID: 1, Filters: [][]byte{[]byte(topic)}, QoSs: []byte{byte(r.Intn(3))}})
		if V.WaitFor(func(l []rawclient.Event, closed bool) bool { return countType(l, rc.SUBACK) == 1 }, wait) != nil {
			out.Inconclusive("c05retainwindow: victim SUBACK", params)
			close(release)
			return
		}
		// an earlier retained value, delivered to V while it is alive
		uid++
		old := uid
		P.SendPacket(&rc.Packet{Type: rc.PUBLISH, Topic: []byte(topic), Retain: true, Payload: spec.MakePayload(old, 0, 60)})
		if !barrier() {
			fail("c05:bystander-stuck", "the publisher is not answered")
			close(release)
			return
		}
		// V stops reading; one more message makes the broker's sender sit in a write V does not take
		V.PauseReading()
		P.SendPacket(&rc.Packet{Type: rc.PUBLISH, Topic: []byte(topic), Payload: spec.MakePayload(9000, 0, 60)})
		if !barrier() {
			fail("c05:bystander-stuck", "the publisher is not answered")
			close(release)
			return
		}
		V.Close() // the sudden disconnect: the pending write fails, the outgoing ring closes, the teardown starts
		select {
		case <-held:
		case <-time.After(wait):
			out.Inconclusive("c05retainwindow: the victim's teardown was not seen to start", params)
			close(release)
			return
		}
		// the window: subscription still in the tree, connection dead
		q := byte(r.Intn(3))
		clearing := r.Intn(4) == 0
		uid++
		latest := uid
		pk := &rc.Packet{Type: rc.PUBLISH, QoS: q, Topic: []byte(topic), Retain: true, Payload: spec.MakePayload(latest, 0, 40+r.Intn(400))}
		if clearing {
			pk.Payload = nil
		}
		if q > 0 {
			pk.ID = pid.next()
		}
		P.SendPacket(pk)
		// a QoS 1/2 publish is the broker's only once its exchange is through (PUBACK, or PUBREL sent on
		// the PUBREC and PUBCOMP back): a PINGRESP alone can overtake the PUBREL
		acked := true
		if q > 0 {
			nack++
			n := nack
			acked = P.WaitFor(func(l []rawclient.Event, closed bool) bool {
				return countType(l, rc.PUBACK)+countType(l, rc.PUBCOMP) >= n || closed
			}, wait) == nil && !P.Closed()
		}
		ok := acked && barrier()
		close(release)
		if !ok {
			sig, how := "c05:bystander-stuck", "is not answered any more"
			if P.Closed() {
				sig, how = "c05:bystander-disconnected", "was disconnected by the broker"
			}
			fail(sig, fmt.Sprintf("round %d: a client published a retained message to a topic whose only subscriber had just dropped its connection (teardown not finished): the publisher %s", rd, how))
			return
		}
		if w.sink != nil && !w.sink.waitCount("stop.done", vname, 1, wait) {
			fail("c16:teardown-incomplete:retain-window", fmt.Sprintf("round %d: the teardown of the dropped subscriber did not finish", rd))
			return
		}
		// a client that comes later gets what the broker was given to keep
		F := connect(fmt.Sprintf("rw-f-%d-%d", idx, rd), nil)
		if F == nil {
			out.Inconclusive("c05retainwindow: late subscriber", params)
			return
		}
		F.SendPacket(&rc.Packet{Type: rc.SUBSCRIBE, ID: 1, Filters: [][]byte{[]byte(topic)}, QoSs: []byte{2}})
		F.SendPacket(&rc.Packet{Type: rc.PINGREQ})
		if F.WaitFor(func(l []rawclient.Event, closed bool) bool { return countType(l, rc.PINGRESP) >= 1 || closed }, wait) != nil || F.Closed() {
			fail("c05:bystander-stuck", "a later subscriber is not served")
			return
		}
		var got []uint64
		for _, e := range F.Log() {
			if e.P.Type == rc.PUBLISH {
				d := decodeDelivery(e.P)
				if !d.ok {
					fail("c05:bystander-corrupt", "a later subscriber received a corrupted retained message")
					return
				}
				got = append(got, d.uid)
			}
		}
		want := []uint64{latest}
		if clearing {
			want = nil
		}
		if fmt.Sprint(got) != fmt.Sprint(want) {
			fail("c05:retained-lost-at-disconnect", fmt.Sprintf("round %d: the only subscriber of %q dropped its connection; while its teardown had not finished another client published a retained message (QoS %d, clearing=%v, uid %d; the value before was uid %d) and was acknowledged. A client subscribing afterwards received retained %v, expected %v", rd, topic, q, clearing, latest, old, got, want))
			return
		}
		F.SendPacket(&rc.Packet{Type: rc.DISCONNECT})
		F.Flush()
		F.Close()
		out.Count("c05.retain_window_rounds", 1)
	}
	P.Close()
	out.Class("retain-window")
}

func TestC05RetainWindow(t *testing.T) {
	n := pick(4, 16)
	for g := 0; g < n; g++ {
		id := fmt.Sprintf("c05/retainwindow/%d", g)
		if !mine(g) || !out.Only(id) {
			continue
		}
		seed := caseSeed("c05rw", g)
		out.Begin(id, seed, nil)
		c05RetainWindow(g, seed)
		out.End()
	}
}
