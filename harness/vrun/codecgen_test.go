package vrun

import (
	"fmt"

	rc "verif/harness/refcodec"
	"verif/harness/spec"
)

var allTypes = []byte{rc.CONNECT, rc.CONNACK, rc.PUBLISH, rc.PUBACK, rc.PUBREC, rc.PUBREL, rc.PUBCOMP, rc.SUBSCRIBE, rc.SUBACK, rc.UNSUBSCRIBE, rc.UNSUBACK, rc.PINGREQ, rc.PINGRESP, rc.DISCONNECT}

var lenEdges = []int{0, 1, 127, 128, 16383, 16384, 65535}

const printable = "abcdefghijklmnopqrstuvwxyzABCDEFGHIJKLMNOPQRSTUVWXYZ0123456789-_.:/ "

func genPrintable(r *spec.Rand, n int) []byte {
	b := make([]byte, n)
	for i := range b {
		b[i] = printable[r.Intn(len(printable)-2)] // no '/' or ' ' unless asked
	}
	return b
}

// genTopicName returns a valid topic name of exactly n bytes (n >= 1).
func genTopicName(r *spec.Rand, n int) []byte {
	b := make([]byte, n)
	for i := range b {
		switch {
		case i > 0 && i < n-1 && r.Intn(6) == 0:
			b[i] = '/'
		case r.Intn(40) == 0:
			b[i] = byte(0x80 + r.Intn(0x40)) // arbitrary non-ASCII byte: the library does not check UTF-8
		default:
			b[i] = printable[r.Intn(62)]
		}
	}
	return b
}

// genFilter returns a valid topic filter of about n bytes.
func genFilter(r *spec.Rand, n int) []byte {
	if n <= 0 {
		n = 1
	}
	var b []byte
	for len(b) < n {
		switch r.Intn(8) {
		case 0:
			b = append(b, '+')
		default:
			k := 1 + r.Intn(5)
			b = append(b, genPrintable(r, k)...)
		}
		if len(b) < n {
			b = append(b, '/')
		}
	}
	if len(b) > n {
		b = b[:n]
	}
	// repair: wildcards must occupy a whole level
	for i := range b {
		if b[i] == '+' || b[i] == '#' {
			l := i == 0 || b[i-1] == '/'
			rr := i == len(b)-1 || b[i+1] == '/'
			if !l || !rr {
				b[i] = 'w'
			}
		}
	}
	if r.Intn(5) == 0 && len(b) >= 2 && b[len(b)-2] == '/' {
		b[len(b)-1] = '#'
	}
	if !spec.ValidFilter(string(b)) {
		for i := range b {
			if b[i] == '+' || b[i] == '#' {
				b[i] = 'x'
			}
		}
	}
	return b
}

// sizeClass buckets a length for class keys.
func sizeClass(n int) string {
	switch {
	case n == 0:
		return "0"
	case n == 1:
		return "1"
	case n <= 127:
		return "<=127"
	case n == 128:
		return "128"
	case n <= 16383:
		return "<=16383"
	case n == 16384:
		return "16384"
	case n < 65535:
		return "<65535"
	case n == 65535:
		return "65535"
	case n <= 2097151:
		return "<=2097151"
	}
	return ">2097151"
}

// remlenClass buckets a remaining length by the size of its varint.
func remlenClass(n int) string {
	switch {
	case n <= 127:
		return "v1"
	case n <= 16383:
		return "v2"
	case n <= 2097151:
		return "v3"
	}
	return "v4"
}

// genRecord returns a random, API-buildable, valid field record of type t.
func genRecord(r *spec.Rand, t byte) *rc.Packet {
	p := &rc.Packet{Type: t}
	edge := func(max int) int {
		switch r.Intn(10) {
		case 0:
			e := lenEdges[r.Intn(len(lenEdges))]
			if e > max {
				e = max
			}
			return e
		case 1:
			return r.Intn(max + 1)
		}
		return r.Intn(40)
	}
	switch t {
	case rc.CONNECT:
		if r.Intn(5) == 0 {
			p.Level, p.ProtoName = 3, "MQIsdp"
		} else {
			p.Level, p.ProtoName = 4, "MQTT"
		}
		p.CleanSession = r.Bool()
		p.KeepAlive = uint16(r.Intn(65536))
		n := r.Intn(33)
		if n == 0 {
			p.CleanSession = true
		}
		p.ClientID = genPrintable(r, n)
		if r.Bool() {
			p.HasWill = true
			p.WillQoS = byte(r.Intn(3))
			p.WillRetain = r.Bool()
			p.WillTopic = genTopicName(r, 1+edge(65534))
			p.WillMsg = r.Bytes(edge(65535))
		}
		if r.Bool() {
			p.HasUser = true
			p.User = genPrintable(r, 1+edge(65534))
			if r.Intn(12) == 0 {
				p.User = nil // user name flag set through SetUsernameFlag, zero-length user name
			}
			if r.Bool() {
				p.HasPass = true
				p.Pass = r.Bytes(1 + edge(65534))
				if r.Intn(12) == 0 {
					p.Pass = nil
				}
			}
		}
	case rc.CONNACK:
		p.ReturnCode = byte(r.Intn(6))
		p.SessionPresent = r.Bool()
	case rc.PUBLISH:
		p.QoS = byte(r.Intn(3))
		p.Dup = p.QoS > 0 && r.Bool()
		p.Retain = r.Bool()
		p.Topic = genTopicName(r, 1+edge(65534))
		p.Payload = r.Bytes(edge(70000))
		if p.QoS > 0 {
			p.ID = uint16(1 + r.Intn(65535))
		}
	case rc.PUBACK, rc.PUBREC, rc.PUBREL, rc.PUBCOMP, rc.UNSUBACK:
		p.ID = uint16(1 + r.Intn(65535))
	case rc.SUBSCRIBE, rc.UNSUBSCRIBE:
		p.ID = uint16(1 + r.Intn(65535))
		n := 1 + r.Intn(8)
		if r.Intn(10) == 0 {
			n = 1 + r.Intn(70)
		}
		for i := 0; i < n; i++ {
			var f []byte
			if r.Intn(3) == 0 {
				f = genFilter(r, 1+r.Intn(3)) // short filters (the n-1 arithmetic)
			} else {
				f = genFilter(r, 1+edge(300))
			}
			if r.Intn(8) == 0 && len(p.Filters) > 0 {
				f = p.Filters[r.Intn(len(p.Filters))] // repeated filter
			}
			p.Filters = append(p.Filters, f)
			if t == rc.SUBSCRIBE {
				p.QoSs = append(p.QoSs, byte(r.Intn(3)))
			}
		}
	case rc.SUBACK:
		p.ID = uint16(1 + r.Intn(65535))
		n := 1 + r.Intn(8)
		for i := 0; i < n; i++ {
			p.Codes = append(p.Codes, []byte{0, 1, 2, 0x80}[r.Intn(4)])
		}
	}
	return p
}

func classOf(p *rc.Packet) string {
	switch p.Type {
	case rc.CONNECT:
		return fmt.Sprintf("CONNECT/l%d/c%v/id%s/w%v%d%v/t%s/m%s/u%v%s/p%v%s", p.Level, p.CleanSession, sizeClass(len(p.ClientID)), p.HasWill, p.WillQoS, p.WillRetain,
			sizeClass(len(p.WillTopic)), sizeClass(len(p.WillMsg)), p.HasUser, sizeClass(len(p.User)), p.HasPass, sizeClass(len(p.Pass)))
	case rc.CONNACK:
		return fmt.Sprintf("CONNACK/%v/%d", p.SessionPresent, p.ReturnCode)
	case rc.PUBLISH:
		rl := 2 + len(p.Topic) + len(p.Payload)
		if p.QoS > 0 {
			rl += 2
		}
		return fmt.Sprintf("PUBLISH/q%d/d%v/r%v/t%s/p%s/%s", p.QoS, p.Dup, p.Retain, sizeClass(len(p.Topic)), sizeClass(len(p.Payload)), remlenClass(rl))
	case rc.SUBSCRIBE, rc.UNSUBSCRIBE:
		tot, short := 0, 0
		for _, f := range p.Filters {
			tot += len(f)
			if len(f) <= 2 {
				short++
			}
		}
		nb := len(p.Filters)
		if nb > 8 {
			nb = 8 + nb/16
		}
		return fmt.Sprintf("%s/n%d/short%d/%s", rc.TypeName(p.Type), nb, short, remlenClass(tot))
	case rc.SUBACK:
		return fmt.Sprintf("SUBACK/n%d/%x", len(p.Codes), p.Codes)
	}
	idc := "mid"
	switch p.ID {
	case 0:
		idc = "0"
	case 1:
		idc = "1"
	case 255, 256:
		idc = "byteedge"
	case 65535:
		idc = "max"
	}
	return fmt.Sprintf("%s/id%s", rc.TypeName(p.Type), idc)
}

// boundaryRecords enumerates the boundary cross product of the design: string
// and payload lengths at the LP-string edges, remaining lengths at every
// varint edge, topic counts, all flag combinations, explicit ids.
func boundaryRecords(r *spec.Rand, big bool) []*rc.Packet {
	var recs []*rc.Packet
	ids := []uint16{1, 255, 256, 65535}
	// CONNACK: all codes x session present
	for c := 0; c < 6; c++ {
		for sp := 0; sp < 2; sp++ {
			recs = append(recs, &rc.Packet{Type: rc.CONNACK, ReturnCode: byte(c), SessionPresent: sp == 1})
		}
	}
	// id-only packets
	for _, t := range []byte{rc.PUBACK, rc.PUBREC, rc.PUBREL, rc.PUBCOMP, rc.UNSUBACK} {
		for _, id := range append([]uint16{0}, ids...) {
			recs = append(recs, &rc.Packet{Type: t, ID: id})
		}
	}
	for _, t := range []byte{rc.PINGREQ, rc.PINGRESP, rc.DISCONNECT} {
		recs = append(recs, &rc.Packet{Type: t})
	}
	// PUBLISH: dup x qos x retain x topic edge x payload edge
	for q := 0; q < 3; q++ {
		for d := 0; d < 2; d++ {
			for rt := 0; rt < 2; rt++ {
				for _, tl := range []int{1, 127, 128, 16383, 16384, 65535} {
					for _, pl := range lenEdges {
						if !big && tl > 128 && pl > 128 {
							continue
						}
						p := &rc.Packet{Type: rc.PUBLISH, QoS: byte(q), Dup: d == 1, Retain: rt == 1, Topic: genTopicName(r, tl), Payload: r.Bytes(pl)}
						if q > 0 {
							p.ID = ids[(tl+pl+q)%len(ids)]
						}
						recs = append(recs, p)
					}
				}
			}
		}
	}
	// PUBLISH remaining length at each varint edge (payload sized to hit it)
	edges := []int{127, 128, 16383, 16384, 2097151, 2097152}
	if big {
		edges = append(edges, rc.MaxRemLen)
	}
	for _, e := range edges {
		for q := 0; q < 3; q++ {
			if e == rc.MaxRemLen && q != 1 {
				continue
			}
			topic := []byte("t/e")
			pl := e - 2 - len(topic)
			if q > 0 {
				pl -= 2
			}
			p := &rc.Packet{Type: rc.PUBLISH, QoS: byte(q), Topic: topic, ID: 7}
			if e > 1<<22 {
				p.Payload = make([]byte, pl) // zero filled: 256 MiB of PRNG output is not worth the time
				p.Payload[0], p.Payload[pl-1] = 0xAA, 0x55
			} else {
				p.Payload = r.Bytes(pl)
			}
			recs = append(recs, p)
		}
	}
	// SUBSCRIBE / UNSUBSCRIBE / SUBACK: topic counts
	for _, n := range []int{1, 2, 3, 4, 5, 8, 64, 1000} {
		for _, fl := range []int{1, 2, 3, 20} {
			s := &rc.Packet{Type: rc.SUBSCRIBE, ID: ids[n%4]}
			u := &rc.Packet{Type: rc.UNSUBSCRIBE, ID: ids[(n+1)%4]}
			for i := 0; i < n; i++ {
				// distinct short filters: base-62 counter of fl characters
				f := make([]byte, 0, fl)
				x := i
				for k := 0; k < fl || x > 0; k++ {
					f = append(f, printable[x%62])
					x /= 62
				}
				s.Filters = append(s.Filters, f)
				s.QoSs = append(s.QoSs, byte(i%3))
				u.Filters = append(u.Filters, f)
			}
			recs = append(recs, s, u)
		}
		a := &rc.Packet{Type: rc.SUBACK, ID: ids[n%4]}
		for i := 0; i < n; i++ {
			a.Codes = append(a.Codes, []byte{0, 1, 2, 0x80}[i%4])
		}
		recs = append(recs, a)
	}
	for _, fl := range lenEdges[1:] {
		recs = append(recs, &rc.Packet{Type: rc.SUBSCRIBE, ID: 9, Filters: [][]byte{genFilter(r, fl)}, QoSs: []byte{1}})
		recs = append(recs, &rc.Packet{Type: rc.UNSUBSCRIBE, ID: 9, Filters: [][]byte{genFilter(r, fl)}})
	}
	// CONNECT: the valid flag set exhaustively x a few length edges
	for lvl := 3; lvl <= 4; lvl++ {
		for clean := 0; clean < 2; clean++ {
			for will := 0; will < 2; will++ {
				for wq := 0; wq < 3; wq++ {
					for wr := 0; wr < 2; wr++ {
						if will == 0 && (wq > 0 || wr > 0) {
							continue
						}
						for up := 0; up < 3; up++ { // none, user, user+pass
							for _, le := range []int{1, 128, 65535} {
								if !big && le == 65535 && (wq > 0 || clean == 0) {
									continue
								}
								p := &rc.Packet{Type: rc.CONNECT, Level: byte(lvl), ProtoName: map[int]string{3: "MQIsdp", 4: "MQTT"}[lvl], CleanSession: clean == 1,
									KeepAlive: uint16(le), ClientID: genPrintable(r, 1+le%32)}
								if will == 1 {
									p.HasWill, p.WillQoS, p.WillRetain = true, byte(wq), wr == 1
									p.WillTopic = genTopicName(r, le)
									p.WillMsg = r.Bytes(le - 1) // includes the empty will message
								}
								if up >= 1 {
									p.HasUser, p.User = true, genPrintable(r, le)
								}
								if up == 2 {
									p.HasPass, p.Pass = true, r.Bytes(le)
								}
								recs = append(recs, p)
							}
						}
					}
				}
			}
		}
	}
	// empty client id (clean session required)
	recs = append(recs, &rc.Packet{Type: rc.CONNECT, Level: 4, ProtoName: "MQTT", CleanSession: true, KeepAlive: 10})
	return recs
}
