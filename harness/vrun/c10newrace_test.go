package vrun

import (
	"fmt"
	"sync"
	"testing"
	"time"

	"verif/harness/out"
	"verif/harness/rawclient"
	rc "verif/harness/refcodec"
	"verif/harness/spec"
)

// TestC10NewRace: two CONNECTs (CleanSession=0) with one brand-new client identifier, the second
// arriving while the broker is between creating the session of the first and initialising it. The
// yield point "session.new" (after the store's New, before Init) holds the first connection there -
// it holds no lock of the library at that point - until the second one has been answered or a grace
// time has passed; delays only. Nothing was kept for the identifier from an earlier connection, so
// a CONNACK that reaches the second client while the first is still held must say SessionPresent=0;
// both CONNECTs are acceptable: both must be answered with CONNACK 0, and the newer connection must
// then work (a broker may end the older of two connections that use one identifier, not the one it
// has just accepted). Real time over net.Pipe, non-race build (the hook table is synchronised).
func c10NewRace(idx int, seed uint64) {
	r := spec.NewRand(seed)
	rounds := pick(20, 120)
	params := map[string]interface{}{"case": idx, "rounds": rounds}
	fail := func(sig, desc string) { out.Violation(sig, desc, params) }
	w := newWorld(worldCfg{BufferSize: 16384})
	defer w.shutdown()
	defer svcYield.Store(nil)
	const wait = 10 * time.Second
	for rd := 0; rd < rounds; rd++ {
		id := fmt.Sprintf("newrace-%d-%d", idx, rd)
		parked := make(chan struct{})
		release := make(chan struct{})
		var once sync.Once
		h := func(point string) {
			if point != "session.new" {
				return
			}
			first := false
			once.Do(func() { first = true })
			if first {
				close(parked)
				select {
				case <-release:
				case <-time.After(5 * time.Second):
				}
			}
		}
		svcYield.Store(&h)
		// the CONNECTs of one client differ in length (a will on the second one in half of the rounds)
		oa := connectOpts{ClientID: id, Clean: false, KeepAlive: 6000}
		ob := oa
		if r.Bool() {
			ob.Will = &rc.Packet{Topic: []byte("newrace/will"), Payload: r.Bytes(1 + r.Intn(60))}
		}
		a := rawclient.New("first", w.pipe(), nil)
		a.SendPacket(connectPacket(oa))
		select {
		case <-parked:
		case <-time.After(wait):
			out.Inconclusive("the yield point session.new was not reached", params)
			close(release)
			return
		}
		b := rawclient.New("second", w.pipe(), nil)
		b.SendPacket(connectPacket(ob))
		// the second CONNECT may be answered while the first is held (no mutual exclusion) or only afterwards
		b.WaitFor(func(l []rawclient.Event, closed bool) bool { return len(l) > 0 || closed }, 300*time.Millisecond)
		early := b.Log()
		earlyClosed := b.Closed()
		close(release)
		d := fmt.Sprintf("round %d: client identifier %q is new; its first CONNECT (CleanSession=0) is between the creation of its session and the initialisation when a second CONNECT with the identifier arrives", rd, id)
		if len(early) > 0 && early[0].P.Type == rc.CONNACK && early[0].P.SessionPresent {
			fail("c10:session-present:new-identifier", d+": the second CONNECT was answered SessionPresent=1 while the first had not been answered yet - no state was kept for the identifier from an earlier connection")
			return
		}
		if earlyClosed && len(early) == 0 {
			fail("c10:new-race:no-connack", d+": the second connection was closed without a CONNACK")
			return
		}
		for i, c := range []*rawclient.Client{a, b} {
			c.WaitFor(func(l []rawclient.Event, closed bool) bool { return len(l) > 0 || closed }, wait)
			l := c.Log()
			if len(l) == 0 || l[0].P.Type != rc.CONNACK || l[0].P.ReturnCode != 0 {
				fail("c10:new-race:no-connack", d+fmt.Sprintf(": connection %d (0 = first) got no CONNACK 0 (closed=%v, packets=%d)", i, c.Closed(), len(l)))
				return
			}
		}
		// the connection accepted last must work
		b.SendPacket(&rc.Packet{Type: rc.PINGREQ})
		if b.WaitFor(func(l []rawclient.Event, closed bool) bool { return countType(l, rc.PINGRESP) >= 1 || closed }, wait) != nil || countType(b.Log(), rc.PINGRESP) < 1 {
			fail("c10:new-race:accepted-then-dropped", d+fmt.Sprintf(": the second connection was answered CONNACK 0 (SessionPresent=%v) and then ended by the broker without having sent anything else", b.Log()[0].P.SessionPresent))
			return
		}
		if len(early) > 0 {
			out.Count("c10.newrace_answered_while_first_held", 1)
		}
		for _, c := range []*rawclient.Client{a, b} {
			c.SendPacket(&rc.Packet{Type: rc.DISCONNECT})
			c.Flush()
			c.Close()
		}
		out.Count("c10.newrace_rounds", 1)
	}
	out.Class("newrace")
}

func TestC10NewRace(t *testing.T) {
	if raceEnabled {
		return
	}
	n := pick(4, 16)
	for g := 0; g < n; g++ {
		id := fmt.Sprintf("c10/newrace/%d", g)
		if !mine(g) || !out.Only(id) {
			continue
		}
		seed := caseSeed("c10nr", g)
		out.Begin(id, seed, nil)
		c10NewRace(g, seed)
		out.End()
	}
}
