package vrun

import (
	"fmt"
	"testing"

	"verif/harness/out"
	"verif/harness/rawclient"
	rc "verif/harness/refcodec"
	"verif/harness/spec"
)

// TestC17Qos2Burst (broker role, synctest): one publisher, one topic, QoS 2. After h
// exchanges completed one at a time, n > 16 PUBLISH packets are sent in a row, their
// PUBRECs collected, then the PUBRELs sent in order (so more exchanges are open at once
// than the receiver's queue holds initially, with its ring wrapped). Every subscriber of
// the topic - one at QoS 2, one at QoS 0 - must receive the messages in the order they
// were published, each once, CRC intact, in a well-formed stream.
func c17Qos2Burst(t *testing.T, idx int, seed uint64) {
	r := spec.NewRand(seed)
	h := r.Intn(40)
	n := 17 + r.Intn(60)
	params := map[string]interface{}{"case": idx, "completed_first": h, "burst": n}
	bubble(t, "c17", params, func(cl *cleanup) {
		fail := func(sig, desc string) { out.Violation(sig, desc, params) }
		w := newWorld(worldCfg{BufferSize: 65536})
		cl.add(w.shutdown)
		s2, a1 := w.connectB("sub2", connectOpts{Clean: true, KeepAlive: 6000})
		s0, a2 := w.connectB("sub0", connectOpts{Clean: true, KeepAlive: 6000})
		pub, a3 := w.connectB("pub", connectOpts{Clean: true, KeepAlive: 6000, Policy: rawclient.AckNone})
		if a1 == nil || a2 == nil || a3 == nil {
			fail("c17:connect", "no CONNACK")
			return
		}
		if sa, _ := s2.subscribeB([]string{"burst/t"}, []byte{2}); sa == nil {
			fail("c17:suback", "sub2")
			return
		}
		if sa, _ := s0.subscribeB([]string{"burst/#"}, []byte{0}); sa == nil {
			fail("c17:suback", "sub0")
			return
		}
		seq := uint32(0)
		id := uint16(0)
		send := func() uint16 {
			seq++
			id++
			pub.SendPacket(&rc.Packet{Type: rc.PUBLISH, QoS: 2, ID: id, Topic: []byte("burst/t"), Payload: spec.MakePayload(77, seq, 20+r.Intn(200))})
			return id
		}
		for k := 0; k < h; k++ {
			pid := send()
			settle()
			pub.SendPacket(&rc.Packet{Type: rc.PUBREL, ID: pid})
			settle()
		}
		var ids []uint16
		for k := 0; k < n; k++ {
			ids = append(ids, send())
		}
		settle()
		for _, pid := range ids {
			pub.SendPacket(&rc.Packet{Type: rc.PUBREL, ID: pid})
		}
		settle()
		evs := pub.fresh()
		if got := countType(evs, rc.PUBREC); got != h+n {
			fail("c17:burst-acks", fmt.Sprintf("%d QoS 2 publishes, %d PUBREC", h+n, got))
			return
		}
		if got := countType(evs, rc.PUBCOMP); got != h+n {
			fail("c17:burst-acks", fmt.Sprintf("%d PUBREL, %d PUBCOMP", h+n, got))
			return
		}
		for _, c := range []*bclient{s2, s0} {
			if err := c.FrameErr(); err != nil {
				fail("c17:framing", c.name+": "+err.Error())
				return
			}
			var got []uint32
			for _, e := range c.fresh() {
				if e.P.Type != rc.PUBLISH {
					continue
				}
				uid, s, ok := spec.ParsePayload(e.P.Payload)
				if !ok || uid != 77 {
					fail("c17:payload", c.name+" received a corrupted or foreign message")
					return
				}
				got = append(got, s)
			}
			okOrder := len(got) == h+n
			for i := 0; okOrder && i < len(got); i++ {
				okOrder = got[i] == uint32(i+1)
			}
			if !okOrder {
				first := len(got)
				for i := range got {
					if got[i] != uint32(i+1) {
						first = i
						break
					}
				}
				fail("c17:order-qos2-burst", fmt.Sprintf("%s: %d exchanges completed one by one, then %d QoS 2 publishes open at once, released in order: %d messages arrived, the first out of place at position %d (sequence %v...)", c.name, h, n, len(got), first, got[min(first, len(got)):min(first+6, len(got))]))
				return
			}
		}
		out.Count("c17.qos2_bursts", 1)
		out.Count("c17.qos2_burst_messages", int64(h+n))
		out.Class(fmt.Sprintf("qos2burst/h%d/n%d", h%16, n/16))
	})
}

func TestC17Qos2Burst(t *testing.T) {
	n := pick(200, 6000)
	for g := 0; g < n; g++ {
		id := fmt.Sprintf("c17/qos2burst/%d", g)
		if !mine(g) || !out.Only(id) {
			continue
		}
		seed := caseSeed("c17q", g)
		out.Begin(id, seed, nil)
		c17Qos2Burst(t, g, seed)
		out.End()
	}
}
