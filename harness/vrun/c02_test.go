package vrun

import (
	"fmt"
	"strings"
	"testing"
	"time"

	"github.com/mdzio/go-mqtt/message"

	"verif/harness/out"
	"verif/harness/rawclient"
	rc "verif/harness/refcodec"
	"verif/harness/spec"
)

type c02Tok struct {
	kind byte // '1' QoS1 publish, '2' QoS2 publish (or DUP), 'R' PUBREL, 'F' filler
	id   uint16
}

func (t c02Tok) String() string {
	switch t.kind {
	case '1':
		return fmt.Sprintf("PUB1(%d)", t.id)
	case '2':
		return fmt.Sprintf("PUB2(%d)", t.id)
	case 'R':
		return fmt.Sprintf("PUBREL(%d)", t.id)
	case 'X':
		return "RECONNECT"
	}
	return "FILLER"
}

// c02Script runs one script against a broker (receiver role) in a bubble.
// strictOrder: the first PUBREL of every exchange is sent in the order the
// exchanges were opened, as MQTT-4.6.0 requires of a sender; then hand-over is
// demanded at PUBREL time. Otherwise only never-before / exactly-once are.
// c02Env abstracts the two roles: the broker (raw publisher and raw subscriber
// over net.Pipe in a bubble) and the client library (scripted TCP peer, message
// callback).
type c02Env interface {
	send(p *rc.Packet)   // from the sender under test's peer
	quiesce() bool       // everything sent so far has been processed
	acks() []string      // acknowledgements received since the last call
	handed() []delivered // messages handed on since the last call
	alive() bool
	reconnect() bool // the sender drops its connection and resumes its persistent session
}

type c02BrokerEnv struct {
	pub, sub *bclient
	w        *world
}

func (e *c02BrokerEnv) reconnect() bool {
	e.pub.Close()
	settle()
	p, ack := e.w.connectB("pub", connectOpts{ClientID: "pub", Clean: false, KeepAlive: 6000, Policy: rawclient.AckNone})
	if ack == nil || ack.ReturnCode != 0 || !ack.SessionPresent {
		return false
	}
	e.pub = p
	return true
}

func (e *c02BrokerEnv) send(p *rc.Packet) { e.pub.SendPacket(p) }
func (e *c02BrokerEnv) quiesce() bool     { settle(); return true }
func (e *c02BrokerEnv) alive() bool       { return !e.pub.Closed() && !e.sub.Closed() }
func (e *c02BrokerEnv) acks() []string {
	var a []string
	for _, ev := range e.pub.fresh() {
		a = append(a, fmt.Sprintf("%s(%d)", rc.TypeName(ev.P.Type), ev.P.ID))
	}
	return a
}
func (e *c02BrokerEnv) handed() []delivered { return publishesIn(e.sub.fresh()) }

func c02Script(t *testing.T, script []c02Tok, strictOrder bool, seed uint64, idx int) {
	var names []string
	for _, tk := range script {
		names = append(names, tk.String())
	}
	params := map[string]interface{}{"role": "broker", "script": strings.Join(names, " "), "strict_order": strictOrder}
	bubble(t, "c02", params, func(cl *cleanup) {
		w := newWorld(worldCfg{BufferSize: 16384})
		cl.add(w.shutdown)
		sub, ack := w.connectB("sub", connectOpts{Clean: true, KeepAlive: 6000})
		pub, ack2 := w.connectB("pub", connectOpts{ClientID: "pub", Clean: false, KeepAlive: 6000, Policy: rawclient.AckNone})
		if ack == nil || ack2 == nil {
			out.Violation("c02:connect", "no CONNACK", params)
			return
		}
		if sa, _ := sub.subscribeB([]string{"c02/#"}, []byte{2}); sa == nil {
			out.Violation("c02:suback", "no SUBACK", params)
			return
		}
		c02Run(&c02BrokerEnv{pub: pub, sub: sub, w: w}, script, strictOrder, seed, idx, params, 16384)
	})
}

// c02Run executes a script against an environment and applies the receiver-side oracle.
func c02Run(env c02Env, script []c02Tok, strictOrder bool, seed uint64, idx int, params map[string]interface{}, ring int) {
	fail := func(sig, desc string) { out.Violation(sig, desc, params) }
	{
		var uids uidGen
		type exch struct {
			uid      uint64
			released bool
			handed   bool
			order    int
			id       uint16
		}
		open := map[uint16]*exch{} // exchanges whose first PUBREL has not been sent yet
		var pending []*exch        // released, hand-over still owed (it may wait for older exchanges)
		var all []*exch
		nOpen := 0
		handedCount := map[uint64]int{}
		r := spec.NewRand(seed)
		// owed reports a released exchange that is older than every exchange still unreleased and has not been handed on
		owed := func() *exch {
			oldestOpen := 1 << 30
			for _, e := range open {
				if e.order < oldestOpen {
					oldestOpen = e.order
				}
			}
			for _, e := range pending {
				if !e.handed && e.order < oldestOpen {
					return e
				}
			}
			return nil
		}
		for step, tk := range script {
			var wantAcks []string
			var wantHand []uint64 // must be handed over in this step (strict)
			switch tk.kind {
			case '1':
				uid := uids.next()
				env.send(&rc.Packet{Type: rc.PUBLISH, QoS: 1, ID: 10 + tk.id, Dup: r.Intn(4) == 0, Topic: []byte("c02/q1"), Payload: spec.MakePayload(uid, uint32(step), 40+r.Intn(200))})
				wantAcks = []string{fmt.Sprintf("PUBACK(%d)", 10+tk.id)}
				wantHand = []uint64{uid}
			case '2':
				// a PUBLISH whose identifier belongs to an exchange without PUBREL yet is a repetition; after the
				// PUBREL the identifier is free again and a PUBLISH with it opens a new exchange (MQTT 4.3.3),
				// whether or not the released message has been handed on yet
				e := open[tk.id]
				dup := e != nil
				uid := uids.next() // a DUP deliberately carries different bytes: the first content must win
				if e == nil {
					nOpen++
					e = &exch{uid: uid, order: nOpen, id: tk.id}
					open[tk.id] = e
					all = append(all, e)
					// the first copy the receiver sees may itself be flagged DUP (the original was lost on the way)
					if r.Intn(4) == 0 {
						dup = true
						out.Count("c02.first_copy_flagged_dup", 1)
					}
				}
				env.send(&rc.Packet{Type: rc.PUBLISH, QoS: 2, ID: tk.id, Dup: dup, Topic: []byte("c02/q2"), Payload: spec.MakePayload(uid, uint32(step), 40+r.Intn(3000))})
				wantAcks = []string{fmt.Sprintf("PUBREC(%d)", tk.id)}
			case 'R':
				env.send(&rc.Packet{Type: rc.PUBREL, ID: tk.id})
				wantAcks = []string{fmt.Sprintf("PUBCOMP(%d)", tk.id)}
				if e := open[tk.id]; e != nil {
					e.released = true
					delete(open, tk.id)
					pending = append(pending, e)
					if len(pending) > 1 || len(open) > 0 {
						out.Count("c02.released_with_others_open", 1)
					}
					if strictOrder {
						wantHand = []uint64{e.uid}
					}
				}
			case 'X':
				// the sender loses its connection and resumes its session (CleanSession=0): open exchanges survive
				if !env.reconnect() {
					fail("c02:reconnect", fmt.Sprintf("step %d: the persistent session could not be resumed", step))
					return
				}
				out.Count("c02.reconnects", 1)
			case 'F':
				sent := 0
				for sent < 2*ring+500 {
					env.send(&rc.Packet{Type: rc.PUBLISH, Topic: []byte("fill/x"), Payload: spec.MakePayload(uids.next(), 0, 2500)})
					sent += 2510
				}
			}
			if !env.quiesce() {
				fail("c02:barrier", fmt.Sprintf("step %d %v: no quiescence", step, tk))
				return
			}
			if !env.alive() {
				fail("c02:connection-lost", fmt.Sprintf("step %d %v: a connection was closed", step, tk))
				return
			}
			// acknowledgements on the sender's wire
			gotAcks := env.acks()
			if strings.Join(gotAcks, ",") != strings.Join(wantAcks, ",") {
				fail("c02:acks", fmt.Sprintf("step %d %v: sender received [%s], expected [%s]", step, tk, strings.Join(gotAcks, ","), strings.Join(wantAcks, ",")))
				return
			}
			// hand-overs
			got := env.handed()
			for _, d := range got {
				if !d.ok {
					fail("c02:payload", fmt.Sprintf("step %d %v: forwarded payload corrupted", step, tk))
					return
				}
				handedCount[d.uid]++
			}
			if tk.kind == '1' {
				if len(got) != 1 || got[0].uid != wantHand[0] {
					fail("c02:qos1-handover", fmt.Sprintf("step %d %v: %d messages handed on, expected exactly the one just published", step, tk, len(got)))
					return
				}
				continue
			}
			// QoS 2 bookkeeping
			for _, d := range got {
				var owner *exch
				for _, e := range all {
					if e.uid == d.uid {
						owner = e
					}
				}
				switch {
				case owner == nil:
					fail("c02:handover-content", fmt.Sprintf("step %d %v: handed on uid %d which is not the first PUBLISH of any exchange (a duplicate's content)", step, tk, d.uid))
					return
				case !owner.released:
					fail("c02:handover-before-pubrel", fmt.Sprintf("step %d %v: the QoS 2 message of id %d was handed on before its PUBREL", step, tk, owner.id))
					return
				case owner.handed:
					fail("c02:handover-twice", fmt.Sprintf("step %d %v: the QoS 2 message of id %d was handed on a second time", step, tk, owner.id))
					return
				}
				owner.handed = true
				if d.qos != 2 {
					fail("c02:handover-qos", fmt.Sprintf("QoS %d on the subscriber's wire for a QoS 2 publish to a QoS 2 subscription", d.qos))
					return
				}
			}
			if strictOrder {
				for _, u := range wantHand {
					if handedCount[u] != 1 {
						fail("c02:handover-at-pubrel", fmt.Sprintf("step %d %v: PUBREL did not hand the message on (count %d)", step, tk, handedCount[u]))
						return
					}
				}
			}
			// a released exchange may wait for older ones that are not released yet, for nothing else
			if e := owed(); e != nil {
				fail("c02:exactly-once", fmt.Sprintf("step %d %v: the exchange with id %d (opened as number %d) has had its PUBREL, so have all exchanges opened before it, and its message has not been handed on", step, tk, e.id, e.order))
				return
			}
			// forget exchanges that are done
			k := 0
			for _, e := range pending {
				if !e.handed {
					pending[k] = e
					k++
				}
			}
			pending = pending[:k]
		}
		// end of script: release everything still open, oldest first; then every exchange was handed on exactly once
		for len(open) > 0 {
			var oldest uint16
			best := 1 << 30
			for id, e := range open {
				if e.order < best {
					best, oldest = e.order, id
				}
			}
			e := open[oldest]
			env.send(&rc.Packet{Type: rc.PUBREL, ID: oldest})
			env.quiesce()
			env.acks()
			for _, d := range env.handed() {
				handedCount[d.uid]++
				for _, x := range all {
					if x.uid == d.uid {
						x.handed = true
					}
				}
			}
			e.released = true
			delete(open, oldest)
			pending = append(pending, e)
			if o := owed(); o != nil {
				// with out-of-order releases the hand-over may wait for older exchanges; after releasing the oldest it must be there
				fail("c02:exactly-once", fmt.Sprintf("exchange id %d: handed on %d times after its PUBREL and those of all older exchanges", o.id, handedCount[o.uid]))
				return
			}
		}
		for _, e := range all {
			if n := handedCount[e.uid]; n != 1 {
				fail("c02:exactly-once", fmt.Sprintf("exchange number %d (id %d): its message was handed on %d times by the end of the script, when every exchange has had its PUBREL", e.order, e.id, n))
				return
			}
		}
		for u, n := range handedCount {
			if n != 1 {
				fail("c02:exactly-once", fmt.Sprintf("uid %d handed on %d times", u, n))
				return
			}
		}
		out.Count("c02.scripts", 1)
		out.Count("c02.steps", int64(len(script)))
		sh := make([]byte, len(script))
		for i, tk := range script {
			sh[i] = tk.kind
		}
		out.Class(fmt.Sprintf("script/%s/strict%v", string(sh), strictOrder))
		if idx%500 == 0 {
			out.Sample("c02", 3, params)
		}
	}
}

// genScript builds a random script over nid packet identifiers.
func genScriptX(r *spec.Rand, nid, length int, strict bool) []c02Tok {
	s := genScript(r, nid, length, strict)
	// insert one or two reconnects of the sender
	for k := 0; k < 1+r.Intn(2); k++ {
		i := r.Intn(len(s) + 1)
		s = append(s[:i], append([]c02Tok{{'X', 0}}, s[i:]...)...)
	}
	return s
}

func genScript(r *spec.Rand, nid, length int, strict bool) []c02Tok {
	var s []c02Tok
	var openOrder []uint16
	isOpen := map[uint16]bool{}
	for len(s) < length {
		id := uint16(1 + r.Intn(nid))
		switch x := r.Intn(10); {
		case x < 2:
			s = append(s, c02Tok{'1', id})
		case x < 6:
			s = append(s, c02Tok{'2', id})
			if !isOpen[id] {
				isOpen[id] = true
				openOrder = append(openOrder, id)
			}
		case x < 9:
			if strict && len(openOrder) > 0 && r.Intn(4) != 0 {
				id = openOrder[0] // first release of the oldest open exchange
			}
			if strict && isOpen[id] && len(openOrder) > 0 && openOrder[0] != id {
				continue // would release out of order
			}
			s = append(s, c02Tok{'R', id})
			if isOpen[id] {
				delete(isOpen, id)
				for i, o := range openOrder {
					if o == id {
						openOrder = append(openOrder[:i], openOrder[i+1:]...)
						break
					}
				}
			}
		default:
			s = append(s, c02Tok{'F', 0})
		}
	}
	return s
}

func TestC02Broker(t *testing.T) {
	i := 0
	// exhaustive: all scripts up to length 5 over 2 ids with alphabet {P2(1),P2(2),R(1),R(2),P1(1),F}
	alpha := []c02Tok{{'2', 1}, {'2', 2}, {'R', 1}, {'R', 2}, {'1', 1}, {'F', 0}}
	maxLen := pick(5, 7)
	var rec func(prefix []c02Tok)
	rec = func(prefix []c02Tok) {
		if len(prefix) > 0 {
			i++
			id := fmt.Sprintf("c02/exh/%d", i)
			if mine(i) && out.Only(id) {
				// strict applies when first releases happen in opening order
				strict := true
				var order []uint16
				op := map[uint16]bool{}
				for _, tk := range prefix {
					if tk.kind == '2' && !op[tk.id] {
						op[tk.id] = true
						order = append(order, tk.id)
					}
					if tk.kind == 'R' && op[tk.id] {
						if order[0] != tk.id {
							strict = false
						}
						delete(op, tk.id)
						for k, o := range order {
							if o == tk.id {
								order = append(order[:k], order[k+1:]...)
								break
							}
						}
					}
				}
				out.Begin(id, 0, nil)
				c02Script(t, prefix, strict, caseSeed("c02e", i), i)
				out.End()
			}
		}
		if len(prefix) == maxLen {
			return
		}
		for _, a := range alpha {
			if a.kind == 'F' && len(prefix) > 0 && prefix[len(prefix)-1].kind == 'F' {
				continue
			}
			rec(append(append([]c02Tok{}, prefix...), a))
		}
	}
	rec(nil)
	out.Count("c02.exhaustive_scripts_total", 0)
	// sampled: longer scripts over 3-4 ids
	n := pick(3000, 100000)
	for g := 0; g < n; g++ {
		id := fmt.Sprintf("c02/rand/%d", g)
		if !mine(g) || !out.Only(id) {
			continue
		}
		seed := caseSeed("c02r", g)
		r := spec.NewRand(seed)
		strict := g%4 != 0
		sc := genScript(r, 3+r.Intn(2), 6+r.Intn(10), strict)
		if g%3 == 0 {
			sc = genScriptX(r, 3+r.Intn(2), 6+r.Intn(10), strict)
		}
		if g%10 == 9 {
			sc, strict = genBurst(r), true
			out.Count("c02.burst_scripts", 1)
		}
		out.Begin(id, seed, nil)
		c02Script(t, sc, strict, seed, g)
		out.End()
	}
}

// genBurst: 17..48 QoS 2 exchanges open at once (the receiver's queue of unreleased
// exchanges grows past its initial capacity), with retransmissions in between, then
// released oldest first with some PUBRELs repeated and a few exchanges re-opened.
func genBurst(r *spec.Rand) []c02Tok {
	k := 17 + r.Intn(32)
	var s []c02Tok
	pre := r.Intn(6) // completed exchanges first, so the queue's ring is wrapped when it grows
	for i := 0; i < pre; i++ {
		s = append(s, c02Tok{'2', uint16(100 + i)}, c02Tok{'R', uint16(100 + i)})
	}
	for i := 1; i <= k; i++ {
		s = append(s, c02Tok{'2', uint16(i)})
		if r.Intn(5) == 0 {
			s = append(s, c02Tok{'2', uint16(1 + r.Intn(i))}) // retransmission of an open exchange
		}
		if r.Intn(9) == 0 {
			s = append(s, c02Tok{'1', uint16(200 + i)})
		}
	}
	s = append(s, c02Tok{'F', 0})
	for i := 1; i <= k; i++ {
		s = append(s, c02Tok{'R', uint16(i)})
		if r.Intn(6) == 0 {
			s = append(s, c02Tok{'R', uint16(i)}) // repeated PUBREL
		}
	}
	// identifiers are free again: new exchanges with old identifiers, released in opening order
	// (a release that overtakes older open exchanges would not be "strict", see c02Script)
	var again []uint16
	for i := 1; i <= k; i++ {
		if r.Intn(6) == 0 {
			again = append(again, uint16(i))
			s = append(s, c02Tok{'2', uint16(i)})
		}
	}
	for _, id := range again {
		s = append(s, c02Tok{'R', id})
	}
	return s
}

// ---------------------------------------------------------------------------
// client role: the library Client is the receiver, a scripted TCP peer sends.

type c02ClientEnv struct {
	s    *session
	log  *cbLog
	mark int
}

func (e *c02ClientEnv) send(p *rc.Packet) { e.s.srv.SendPacket(p) }
func (e *c02ClientEnv) quiesce() bool     { return e.s.barrier(10 * time.Second) }
func (e *c02ClientEnv) alive() bool       { return !e.s.srv.Closed() }
func (e *c02ClientEnv) acks() []string {
	var a []string
	evs := e.s.srv.Since(e.mark)
	e.mark += len(evs)
	for _, ev := range evs {
		switch ev.P.Type {
		case rc.PUBACK, rc.PUBREC, rc.PUBCOMP, rc.PUBREL:
			a = append(a, fmt.Sprintf("%s(%d)", rc.TypeName(ev.P.Type), ev.P.ID))
		}
	}
	return a
}
func (e *c02ClientEnv) reconnect() bool { return true } // not generated for the client role

func (e *c02ClientEnv) handed() []delivered {
	var ds []delivered
	for _, l := range e.log.take() {
		ds = append(ds, l...)
	}
	return ds
}

func c02ClientScript(script []c02Tok, strictOrder bool, seed uint64, idx int) {
	var names []string
	for _, tk := range script {
		names = append(names, tk.String())
	}
	params := map[string]interface{}{"role": "client", "script": strings.Join(names, " "), "strict_order": strictOrder}
	s, err := openSession(nil, 16384)
	if err != nil {
		out.Inconclusive("session: "+err.Error(), nil)
		return
	}
	defer s.closeAll()
	log := &cbLog{got: map[int][]delivered{}}
	m := message.NewSubscribeMessage()
	m.AddTopic([]byte("c02/#"), 2)
	done := make(chan struct{}, 1)
	if err := s.cln.Subscribe(m, func(msg, ack message.Message, err error) error { done <- struct{}{}; return nil },
		func(pm *message.PublishMessage) error { log.addQ(0, pm); return nil }); err != nil {
		out.Violation("c02:subscribe", err.Error(), params)
		return
	}
	var sub *rc.Packet
	if err := s.srv.WaitFor(func(l []rawclient.Event, closed bool) bool {
		for _, e := range l {
			if e.P.Type == rc.SUBSCRIBE {
				sub = e.P
				return true
			}
		}
		return false
	}, 5*time.Second); err != nil {
		out.Inconclusive("no SUBSCRIBE from the client", nil)
		return
	}
	s.srv.SendPacket(&rc.Packet{Type: rc.SUBACK, ID: sub.ID, Codes: []byte{2}})
	select {
	case <-done:
	case <-time.After(5 * time.Second):
		out.Inconclusive("Subscribe did not complete", nil)
		return
	}
	env := &c02ClientEnv{s: s, log: log, mark: s.srv.LogLen()}
	c02Run(env, script, strictOrder, seed, idx, params, 16384)
}

func TestC02Client(t *testing.T) {
	n := pick(400, 12000)
	for g := 0; g < n; g++ {
		id := fmt.Sprintf("c02/client/%d", g)
		if !mine(g) || !out.Only(id) {
			continue
		}
		seed := caseSeed("c02c", g)
		r := spec.NewRand(seed)
		strict := g%4 != 0
		sc := genScript(r, 2+r.Intn(3), 3+r.Intn(9), strict)
		if g%10 == 9 {
			sc, strict = genBurst(r), true
			out.Count("c02.client_burst_scripts", 1)
		}
		out.Begin(id, seed, nil)
		c02ClientScript(sc, strict, seed, g)
		out.Count("c02.client_scripts", 1)
		out.End()
	}
}
