package vrun

import (
	"fmt"
	"testing"

	"verif/harness/out"
	rc "verif/harness/refcodec"
	"verif/harness/spec"
)

// TestC10SubscribeStall: a subscription that has been acknowledged belongs to the
// session from then on, whatever the connection is busy with afterwards. A
// CleanSession=0 connection subscribes to a filter that matches more retained data
// than its outgoing ring holds and stops reading once the SUBACK has arrived: its
// processor is parked in the middle of the retained deliveries. The client comes
// back on a second connection (same identifier, CleanSession=0) before the broker
// has noticed anything; the first connection is then closed. The resumed session
// must hold the acknowledged subscription: a publication to the filter reaches
// the second connection. Synctest bubble, 16 KiB rings.
func c10Stall(t *testing.T, idx int, seed uint64) {
	r := spec.NewRand(seed)
	nret := 10 + r.Intn(8)
	gq := byte(r.Intn(3))
	endA := "abrupt" // (publishing before A is gone would park the publisher on A's write mutex: not a quiescent state synctest can wait for)
	params := map[string]interface{}{"case": idx, "retained_messages": nret, "granted": gq, "first_connection_ends": endA}
	bubble(t, "c10", params, func(cl *cleanup) {
		w := newWorld(worldCfg{BufferSize: 16384})
		cl.add(w.shutdown)
		fail := func(sig, desc string) { out.Violation(sig, desc, params) }
		pub, ack := w.connectB("pub", connectOpts{Clean: true, KeepAlive: 6000})
		if ack == nil {
			fail("c10:connect", "publisher")
			return
		}
		var uids uidGen
		for i := 0; i < nret; i++ {
			pub.publishB(fmt.Sprintf("st/%d/r/%d", idx, i), 0, true, spec.MakePayload(uids.next(), 0, 8000))
		}
		id := fmt.Sprintf("stall-%d", idx)
		A, a := w.connectB("A", connectOpts{ClientID: id, Clean: false, KeepAlive: 6000})
		if a == nil || a.ReturnCode != 0 || a.SessionPresent {
			fail("c10:connect", fmt.Sprintf("first connection: %v", a))
			return
		}
		// A reads until the SUBACK is there and then no more
		stop := false
		A.SetOnRead(func(n int) {
			if !stop && countType(A.Log(), rc.SUBACK) > 0 {
				stop = true
				A.PauseReading()
			}
		})
		cl.add(func() { A.ResumeReading(); A.Close() })
		filter := fmt.Sprintf("st/%d/#", idx)
		A.SendPacket(&rc.Packet{Type: rc.SUBSCRIBE, ID: 1, Filters: [][]byte{[]byte(filter)}, QoSs: []byte{gq}})
		settle()
		if countType(A.Log(), rc.SUBACK) != 1 {
			out.Inconclusive("c10stall: no SUBACK on the first connection", params)
			return
		}
		parked := false
		for _, g := range libGoroutines() {
			if g.libTop() == "service.(*buffer).waitForWriteSpace" {
				parked = true
			}
		}
		if !parked {
			out.Inconclusive("c10stall: the first connection's processor is not parked in the retained deliveries", params)
			return
		}
		out.Count("c10.stall_parked", 1)
		B, b := w.connectB("B", connectOpts{ClientID: id, Clean: false, KeepAlive: 6000})
		if b == nil || b.ReturnCode != 0 {
			fail("c10:connect", fmt.Sprintf("second connection: %v", b))
			return
		}
		if !b.SessionPresent {
			fail("c10:session-present", "second CleanSession=0 connection of a client whose first one is still open: SessionPresent=0")
			return
		}
		// first request of B answered
		B.SendPacket(&rc.Packet{Type: rc.PINGREQ})
		settle()
		if endA == "abrupt" {
			A.Close()
			settle()
		}
		B.fresh()
		uid := uids.next()
		pub.publishB(fmt.Sprintf("st/%d/live", idx), 1, false, spec.MakePayload(uid, 0, 40))
		n := 0
		for _, d := range publishesIn(B.fresh()) {
			if d.uid == uid && d.ok {
				n++
				if d.qos != minQ(1, gq) {
					fail("c10:subscriptions:qos", fmt.Sprintf("delivered with QoS %d, granted %d", d.qos, gq))
					return
				}
			}
		}
		if n != 1 {
			fail("c10:subscriptions:missing:acknowledged-on-stalled-connection", fmt.Sprintf("%q was acknowledged (SUBACK read) on the first connection, which then stalled in %d retained deliveries; the session was resumed on a second connection (SessionPresent=1, first PINGREQ answered) and the first one closed; a publication to the filter reached the second connection %d times", filter, nret, n))
			return
		}
		out.Count("c10.stall_cases", 1)
		out.Class(fmt.Sprintf("stall/%s/g%d", endA, gq))
	})
}

func TestC10SubscribeStall(t *testing.T) {
	n := pick(16, 160)
	for g := 0; g < n; g++ {
		id := fmt.Sprintf("c10/stall/%d", g)
		if !mine(g) || !out.Only(id) {
			continue
		}
		seed := caseSeed("c10st", g)
		out.Begin(id, seed, nil)
		c10Stall(t, g, seed)
		out.End()
	}
}
