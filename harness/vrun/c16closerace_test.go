package vrun

import (
	"fmt"
	"sort"
	"strings"
	"sync"
	"sync/atomic"
	"testing"
	"time"

	"verif/harness/out"
	"verif/harness/rawclient"
	rc "verif/harness/refcodec"
	"verif/harness/spec"
)

// TestC16CloseRace: Server.Close while clients are connecting. Every connection
// that was answered with CONNACK 0 is a connection of the broker, whenever that
// was relative to Close; after Close has returned, with the clients doing
// nothing (they keep their side open and idle), the broker must have ended all
// of them and no goroutine of the library may remain. The verdict is taken from
// goroutine snapshots, once two of them agree.
func c16CloseRace(idx int, seed uint64) {
	r := spec.NewRand(seed)
	nconn := 4 + r.Intn(9)
	params := map[string]interface{}{"case": idx, "connectors": nconn}
	w := newWorld(worldCfg{BufferSize: 16384})
	defer w.unregister()
	var mu sync.Mutex
	var accepted []*rawclient.Client
	var all []*rawclient.Client
	var wg sync.WaitGroup
	var stop atomic.Bool
	var gate sync.RWMutex
	start := make(chan struct{})
	for i := 0; i < nconn; i++ {
		wg.Add(1)
		go func(i int) {
			defer wg.Done()
			<-start
			for k := 0; k < 6; k++ {
				// a connection only counts if it reached the broker before Close was called (with a real
				// listener nothing is accepted afterwards): dialling and the stop flag share a lock
				gate.RLock()
				if stop.Load() {
					gate.RUnlock()
					return
				}
				c := w.dial(fmt.Sprintf("c%d-%d", i, k), connectOpts{ClientID: fmt.Sprintf("cr%d-%d-%d", idx, i, k), Clean: true, KeepAlive: 6000})
				gate.RUnlock()
				mu.Lock()
				all = append(all, c)
				mu.Unlock()
				if c.WaitFor(func(l []rawclient.Event, closed bool) bool { return len(l) > 0 }, 5*time.Second) != nil {
					continue // closed without an answer: never was a connection
				}
				if p := c.Log()[0].P; p.Type == rc.CONNACK && p.ReturnCode == 0 {
					mu.Lock()
					accepted = append(accepted, c)
					mu.Unlock()
				}
			}
		}(i)
	}
	// one established connection first: the server configures itself on its first connection (there is
	// no ListenAndServe here), and Close before that has nothing to close
	primer := w.dial("primer", connectOpts{ClientID: fmt.Sprintf("cr%d-primer", idx), Clean: true, KeepAlive: 6000})
	if primer.WaitFor(func(l []rawclient.Event, closed bool) bool { return len(l) > 0 }, 5*time.Second) != nil || primer.Log()[0].P.Type != rc.CONNACK {
		out.Inconclusive("c16closerace: primer connection", params)
		return
	}
	mu.Lock()
	all = append(all, primer)
	accepted = append(accepted, primer)
	mu.Unlock()
	close(start)
	time.Sleep(time.Duration(r.Intn(1500)) * time.Microsecond)
	gate.Lock()
	stop.Store(true)
	gate.Unlock()
	closed := make(chan struct{})
	go func() {
		defer close(closed)
		defer func() { recover() }()
		w.svr.Close()
	}()
	select {
	case <-closed:
	case <-time.After(20 * time.Second):
		out.Violation("c16:server-close-stuck", "Server.Close did not return while clients were connecting", params)
		stop.Store(true)
		return
	}
	stop.Store(true)
	wg.Wait()
	left := noLibGoroutines(3 * time.Second)
	// the clients notice the end of their connection asynchronously
	mu.Lock()
	acc := append([]*rawclient.Client{}, accepted...)
	mu.Unlock()
	for _, c := range acc {
		c.WaitFor(func(l []rawclient.Event, closed bool) bool { return closed }, 2*time.Second)
	}
	mu.Lock()
	nAcc := len(accepted)
	open := 0
	for _, c := range accepted {
		if !c.Closed() {
			open++
		}
	}
	mu.Unlock()
	defer func() {
		mu.Lock()
		for _, c := range all {
			c.Close()
		}
		mu.Unlock()
		noLibGoroutines(3 * time.Second)
	}()
	if len(left) > 0 {
		var tops []string
		for _, g := range left {
			tops = append(tops, g.libTop()+":"+g.state)
		}
		sort.Strings(tops)
		if out.EnvStr("VERIF_DEBUG", "") != "" {
			for _, g := range left {
				fmt.Println("=== G", g.id, g.state)
				fmt.Println(g.stack)
			}
		}
		out.Violation("c16:close-missed-connection:"+strings.Join(uniq(tops), "+"), fmt.Sprintf("Server.Close has returned, the clients are idle: %d of the %d connections that were answered with CONNACK 0 are still open and %d library goroutines remain: %v", open, nAcc, len(left), uniq(tops)), params)
		return
	}
	if open > 0 {
		out.Violation("c16:close-missed-connection", fmt.Sprintf("%d accepted connections still open after Server.Close returned", open), params)
		return
	}
	out.Count("c16.closerace_cases", 1)
	out.Count("c16.closerace_accepted", int64(nAcc))
	out.Class(fmt.Sprintf("closerace/n%d", nconn/4))
}

func TestC16CloseRace(t *testing.T) {
	if raceEnabled {
		return
	}
	n := pick(200, 4000)
	for g := 0; g < n; g++ {
		id := fmt.Sprintf("c16/closerace/%d", g)
		if !mine(g) || !out.Only(id) {
			continue
		}
		seed := caseSeed("c16r", g)
		out.Begin(id, seed, nil)
		c16CloseRace(g, seed)
		out.End()
	}
}
