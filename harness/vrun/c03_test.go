package vrun

import (
	"bytes"
	"fmt"
	"sync"
	"sync/atomic"
	"testing"

	"github.com/mdzio/go-mqtt/message"

	"verif/harness/out"
	rc "verif/harness/refcodec"
	"verif/harness/spec"
)

func recSummary(p *rc.Packet) map[string]interface{} {
	m := map[string]interface{}{"type": rc.TypeName(p.Type), "record": p.String(), "wire": hex(rc.Encode(p))}
	if p.Type == rc.SUBSCRIBE || p.Type == rc.UNSUBSCRIBE {
		m["nfilters"] = len(p.Filters)
	}
	return m
}

// idOffset returns the offset of the packet identifier in an encoded packet, or -1.
func idOffset(p *rc.Packet, wire []byte) int {
	hdr, _, err := rc.FrameLen(wire)
	if err != nil {
		return -1
	}
	switch p.Type {
	case rc.PUBLISH:
		if p.QoS == 0 {
			return -1
		}
		return hdr + 2 + len(p.Topic)
	case rc.SUBSCRIBE, rc.UNSUBSCRIBE:
		return hdr
	}
	return -1
}

// checkBuild is the C03 round-trip oracle for one field record.
func checkBuild(p *rc.Packet, autoID bool) {
	tn := rc.TypeName(p.Type)
	out.Count("c03.build", 1)
	if connectBuildVariant == 0 && connectVariantApplies(p) {
		// the same record through the value setters alone, in two orders
		for v := 1; v <= 2; v++ {
			connectBuildVariant = v
			checkBuild(p, autoID)
			out.Count("c03.build.connect_setter_orders", 1)
		}
		connectBuildVariant = 0
	}
	m, err := libBuild(p, autoID)
	if err != nil {
		if _, ok := err.(errUnbuildable); ok {
			out.Count("c03.unbuildable", 1)
			return
		}
		out.Violation("c03:build:"+tn, err.Error(), recSummary(p))
		return
	}
	cp := canonical(p)
	want := rc.Encode(cp)
	b, ln, n, err, pan := libEncode(m)
	if pan != nil {
		out.Violation("c03:encode-panic:"+tn, fmt.Sprint(pan), recSummary(p))
		return
	}
	if err != nil {
		cls := "other"
		if p.Type == rc.PUBLISH && len(p.Payload) == 0 {
			cls = "empty-payload"
		}
		out.Violation("c03:encode-error:"+tn+":"+cls, "Encode refused a valid message: "+err.Error(), recSummary(p))
		return
	}
	if autoID {
		off := idOffset(cp, want)
		if off >= 0 && n == len(want) {
			id := uint16(b[off])<<8 | uint16(b[off+1])
			if id == 0 {
				out.Violation("c03:autoid-zero:"+tn, "automatically assigned packet identifier is 0", recSummary(p))
				return
			}
			want[off], want[off+1] = b[off], b[off+1]
			cp.ID = id
		}
	}
	if ln != n || n != len(want) {
		sig := "c03:len:" + tn
		if autoID && n == len(want)-2 && idOffset(cp, want) >= 0 {
			sig = "c03:autoid-zero:" + tn
		}
		out.Violation(sig, fmt.Sprintf("Len()=%d, Encode wrote %d, MQTT encoding has %d bytes", ln, n, len(want)), recSummary(p))
		return
	}
	if !bytes.Equal(b[:n], want) {
		i := 0
		for i < n && b[i] == want[i] {
			i++
		}
		out.Violation("c03:bytes:"+tn, fmt.Sprintf("encoding differs from the MQTT 3.1.1 encoding at byte %d: got %s", i, hex(b[:n])), recSummary(p))
		return
	}
	// decode what was written
	in := append(make([]byte, 0, n), b[:n]...)
	m2, n2, err, pan, site, class := libDecode(p.Type, in)
	if pan != nil {
		out.Violation("c03:decode-own-panic:"+site+":"+class, fmt.Sprint(pan), recSummary(p))
		return
	}
	if err != nil {
		out.Violation("c03:decode-own:"+tn, "Decode rejects the library's own encoding: "+err.Error(), recSummary(p))
		return
	}
	if n2 != n {
		sig := "c03:decode-count:" + tn
		out.Violation(sig, fmt.Sprintf("Decode consumed %d of %d bytes", n2, n), recSummary(p))
		return
	}
	if d := diffPackets(cp, libFields(m2)); d != "" {
		out.Violation("c03:fields:"+tn, "decoded fields differ: "+d, recSummary(p))
		return
	}
	// and once more: the decoded message must re-encode to the same bytes
	b3, ln3, n3, err, pan := libEncode(m2)
	if pan != nil || err != nil || ln3 != n || n3 != n || !bytes.Equal(b3[:n3], in) {
		out.Violation("c03:reencode:"+tn, fmt.Sprintf("re-encoding a decoded message: Len=%d n=%d err=%v panic=%v", ln3, n3, err, pan), recSummary(p))
	}
	out.Class("build/" + classOf(p))
	// the message that was just encoded is changed through a setter and encoded again (a message is
	// assembled once and then sent to several peers with another QoS, retain flag or identifier)
	if n > 1<<20 {
		return // the setters below may push a message at the size limit beyond it, which Encode rightly refuses
	}
	if what, pan := applySetters(m, b[:n]); what != "" {
		if pan != nil {
			out.Violation("c03:modify-panic:"+tn, fmt.Sprint(pan), recSummary(p))
			return
		}
		if setterExpect != nil {
			if d := diffPackets(canonical(setterExpect), canonical(libFields(m))); d != "" {
				out.Violation("c03:setter-effect:"+tn, fmt.Sprintf("built, changed through %s: the message's fields are not what these calls produce: %s", what, d), recSummary(p))
				return
			}
			out.Count("c03.setter_effect.checked", 1)
		}
		b4, ln4, n4, err, pan := libEncode(m)
		want4 := rc.Encode(canonical(libFields(m)))
		if pan != nil || err != nil || ln4 != n4 || !bytes.Equal(b4[:max(n4, 0)], want4) {
			out.Violation("c03:modify-after-encode:"+tn, fmt.Sprintf("built, encoded, changed through %s, encoded again: Len()=%d wrote %d err=%v panic=%v; bytes %s, MQTT encoding of its fields %s", what, ln4, n4, err, pan, hex(b4[:max(n4, 0)]), hex(want4)), recSummary(p))
			return
		}
		out.Count("c03.modify_after_encode.checked", 1)
	}
}

// checkAccepted is the second half of C03: whatever a decoder accepts must
// re-encode to exactly the bytes of that packet.
func checkAccepted(t byte, b []byte, kind string) {
	tn := rc.TypeName(t)
	in := append(make([]byte, 0, len(b)), b...)
	m, n, err, pan, _, _ := libDecode(t, in)
	out.Count("c03.accept.tried", 1)
	if pan != nil || err != nil || n <= 0 || n > len(in) {
		return
	}
	out.Count("c03.accept.accepted", 1)
	b2, ln, n2, err, pan := libEncode(m)
	detail := map[string]interface{}{"type": tn, "kind": kind, "input": hex(in), "consumed": n}
	if pan != nil {
		out.Violation("c03:accepted-reencode-panic:"+tn, fmt.Sprint(pan), detail)
		return
	}
	trailing := len(in) > n
	if ln != n || n2 != n || err != nil {
		sig := "c03:accepted-len:" + tn
		if trailing && ln == len(in) {
			sig = "c03:reencode-includes-trailing:" + tn
		}
		out.Violation(sig, fmt.Sprintf("decoder consumed %d bytes but Len()=%d, Encode wrote %d (err=%v)", n, ln, n2, err), detail)
		return
	}
	if !bytes.Equal(b2[:n2], in[:n]) {
		out.Violation("c03:accepted-bytes:"+tn, "re-encoding differs from the accepted bytes: "+hex(b2[:n2]), detail)
		return
	}
	tr := "exact"
	if trailing {
		tr = "trailing"
	}
	out.Class("accepted/" + tn + "/" + kind + "/" + tr)
	// The checks below compare with the reference encoder, which writes the remaining length in its
	// shortest form. A packet that was accepted with a longer form of the length (legal in 3.1.1) and is
	// changed in place keeps that form: still an encoding of its fields, not the one the reference
	// writes. Such inputs end here.
	if !minimalLength(in[:n]) {
		out.Count("c03.accept.nonminimal_length", 1)
		return
	}
	// a decoded message changed through a setter (as the broker does with a CONNECT: keep-alive, client
	// id) must encode to the MQTT encoding of its new fields
	modifyAfterDecode(t, in[:n], detail)
	// a message object may be decoded into again: the second decode must not show anything of the first
	reuseCheck(t, m, in[:n], detail)
	// a copy obtained through Clone is a message of its own: changing it through the setters must
	// leave the decoded original (its fields and the bytes it re-encodes to) alone, and the clone
	// must encode to what the reference encoder gives for its new fields
	if pm, ok := m.(*message.PublishMessage); ok {
		cloneIndependence(pm, in[:n], detail)
	}
}

// minimalLength reports whether the remaining length of the packet is written in its shortest form.
func minimalLength(w []byte) bool {
	v, k := 0, 0
	for i := 1; i < len(w) && i <= 4; i++ {
		v |= int(w[i]&0x7f) << (7 * uint(i-1))
		k++
		if w[i]&0x80 == 0 {
			break
		}
	}
	return k == len(rc.AppendVarint(nil, v))
}

func cloneIndependence(pm *message.PublishMessage, wire []byte, detail map[string]interface{}) {
	defer func() {
		if r := recover(); r != nil {
			out.Violation("c03:clone-panic", fmt.Sprint(r), detail)
		}
	}()
	c, err := pm.Clone()
	if err != nil {
		out.Violation("c03:clone-error", err.Error(), detail)
		return
	}
	before := libFields(pm)
	// every in-place setter, with values that differ from the original's
	nq := (pm.QoS() + 1) % 3
	c.SetQoS(nq)
	if nq > 0 {
		c.SetPacketID(pm.PacketID() ^ 0x5aa5 | 1)
	}
	c.SetDup(!pm.Dup())
	c.SetRetain(!pm.Retain())
	want := libFields(c)
	if d := diffPackets(before, libFields(pm)); d != "" {
		out.Violation("c03:clone-aliases-original", "changing a Clone() through its setters changed the fields of the decoded original: "+d, detail)
		return
	}
	b2, ln, n2, err, pan := libEncode(pm)
	if pan != nil || err != nil || ln != len(wire) || n2 != len(wire) || !bytes.Equal(b2[:n2], wire) {
		out.Violation("c03:clone-aliases-original", fmt.Sprintf("after changing a Clone() of it, the decoded original no longer re-encodes to its packet: Len()=%d wrote %d err=%v bytes %s", ln, n2, err, hex(b2[:max(n2, 0)])), detail)
		return
	}
	cb, cl, cn, err, pan := libEncode(c)
	ref := rc.Encode(want)
	if pan != nil || err != nil || cl != cn || !bytes.Equal(cb[:cn], ref) {
		out.Violation("c03:clone-encode", fmt.Sprintf("clone with QoS %d, dup %v, retain %v: Len()=%d wrote %d err=%v, bytes %s, reference %s", c.QoS(), c.Dup(), c.Retain(), cl, cn, err, hex(cb[:max(cn, 0)]), hex(ref)), detail)
		return
	}
	out.Count("c03.clone.checked", 1)
}

func TestC03(t *testing.T) {
	// boundary product (deterministic, independent of batch: done by batch 0)
	if mine(0) && out.Only("c03/boundary") {
		out.Begin("c03/boundary", caseSeed("c03b", 0), nil)
		r := spec.NewRand(caseSeed("c03b", 0))
		recs := boundaryRecords(r, thorough())
		for i, p := range recs {
			checkBuild(p, false)
			if p.Type == rc.PUBLISH && p.QoS > 0 || p.Type == rc.SUBSCRIBE || p.Type == rc.UNSUBSCRIBE {
				if len(p.Payload) < 1<<22 {
					checkBuild(p, true)
				}
			}
			if i < 3 {
				out.Sample("c03.boundary", 3, recSummary(p))
			}
			wire := rc.Encode(canonical(p))
			if len(wire) < 1<<20 {
				checkAccepted(p.Type, wire, "valid")
				checkAccepted(p.Type, append(append([]byte{}, wire...), 0x00), "valid+1")
				checkAccepted(p.Type, append(append([]byte{}, wire...), wire...), "valid+copy")
			}
		}
		out.Count("c03.boundary.records", int64(len(recs)))
		out.End()
	}
	// counter history
	if mine(1) && out.Only("c03/counter") {
		out.Begin("c03/counter", 0, nil)
		counterHistory()
		out.End()
	}
	// random records
	nrand := pick(20000, 1000000)
	per := 2000
	for g := 0; g*per < nrand; g++ {
		id := fmt.Sprintf("c03/random/%d", g)
		if !mine(g+2) || !out.Only(id) {
			continue
		}
		seed := caseSeed("c03r", g)
		out.Begin(id, seed, nil)
		r := spec.NewRand(seed)
		for i := 0; i < per; i++ {
			p := genRecord(r, allTypes[r.Intn(len(allTypes))])
			auto := r.Intn(4) == 0
			checkBuild(p, auto)
			if i == 0 {
				out.Sample("c03.random", 3, recSummary(p))
			}
			wire := rc.Encode(canonical(p))
			checkAccepted(p.Type, wire, "valid")
			if r.Intn(3) == 0 {
				checkAccepted(p.Type, append(append([]byte{}, wire...), r.Bytes(1+r.Intn(8))...), "valid+random")
			}
			// a mutated variant: if the decoder still accepts it, it must re-encode verbatim
			if len(wire) < 4096 {
				mut := append([]byte{}, wire...)
				mut[r.Intn(len(mut))] ^= 1 << uint(r.Intn(8))
				checkAccepted(p.Type, mut, "bitflip")
			}
			// the length / flag / truncation / padding mutations of the C04 corpus: whatever of it a
			// decoder accepts is a byte string it accepts
			if len(wire) < 600 && i%4 == 0 {
				mutations(r, wire, func(kind string, b []byte) {
					checkAccepted(p.Type, b, "mut/"+kind)
				})
			}
		}
		out.End()
	}
}

// counterHistory drives the process-wide packet identifier counter through
// more than two full wraps and checks every automatically numbered packet.
func counterHistory() {
	const N = 140000
	var sub, unsub, pub1, pub2 int
	check := func(kind string, m message.Message, i int) {
		b, ln, n, err, pan := libEncode(m)
		detail := map[string]interface{}{"kind": kind, "encode_number": i}
		if pan != nil || err != nil {
			out.Violation("c03:autoid-encode:"+kind, fmt.Sprintf("err=%v panic=%v", err, pan), detail)
			return
		}
		p, tot, derr := rc.Decode(b[:n])
		if ln != n || derr != nil || tot != n || p.ID == 0 {
			detail["wire"] = hex(b[:n])
			out.Violation("c03:autoid-zero:"+kind, fmt.Sprintf("encode #%d with automatic identifier: Len()=%d wrote %d, strict decode: %v", i, ln, n, derr), detail)
			return
		}
		if m.PacketID() != p.ID {
			out.Violation("c03:autoid-mismatch:"+kind, fmt.Sprintf("PacketID()=%d, wire has %d", m.PacketID(), p.ID), detail)
		}
	}
	mk := func(kind int) (string, message.Message) {
		switch kind {
		case 0:
			m := message.NewPublishMessage()
			m.SetTopic([]byte("a/b"))
			m.SetQoS(1)
			m.SetPayload([]byte("x"))
			pub1++
			return "PUBLISH", m
		case 1:
			m := message.NewPublishMessage()
			m.SetTopic([]byte("a/b"))
			m.SetQoS(2)
			m.SetPayload([]byte("xy"))
			pub2++
			return "PUBLISH", m
		case 2:
			m := message.NewSubscribeMessage()
			m.AddTopic([]byte("a/+"), 1)
			sub++
			return "SUBSCRIBE", m
		}
		m := message.NewUnsubscribeMessage()
		m.AddTopic([]byte("a/+"))
		unsub++
		return "UNSUBSCRIBE", m
	}
	// one full wrap of the 16-bit counter per kind (wherever it started), then
	// a mixed phase
	i := 0
	for kind := 0; kind < 4; kind++ {
		for k := 0; k < 66000; k++ {
			name, m := mk(kind)
			check(name, m, i)
			i++
		}
	}
	for ; i < 4*66000+N; i++ {
		name, m := mk((i / 3) % 4)
		check(name, m, i)
	}
	out.Count("c03.counter.encodes", int64(i))
	out.Class("counter/wraps>=2")
	out.Sample("c03.counter", 1, map[string]int{"encodes": i, "publish_q1": pub1, "publish_q2": pub2, "subscribe": sub, "unsubscribe": unsub})
}

// TestC03CounterConc: the same automatic numbering, drawn by several goroutines
// at once through many wraps of the 16-bit counter (the library's own sender
// paths encode id-less requests from several goroutines). Every packet must
// have exactly Len() bytes, a non-zero identifier equal to PacketID(), and be
// accepted by the strict reference decoder.
func TestC03CounterConc(t *testing.T) {
	n := pick(8, 48)
	for c := 0; c < n; c++ {
		id := fmt.Sprintf("c03/counterconc/%d", c)
		if !mine(c) || !out.Only(id) {
			continue
		}
		seed := caseSeed("c03cc", c)
		out.Begin(id, seed, nil)
		gor := []int{2, 4, 8, 16}[c%4]
		const wraps = 160
		per := wraps * 65536 / gor
		var bad atomic.Int64
		var wg sync.WaitGroup
		start := make(chan struct{})
		for g := 0; g < gor; g++ {
			wg.Add(1)
			go func(g int) {
				defer wg.Done()
				buf := make([]byte, 64)
				<-start
				for k := 0; k < per && bad.Load() == 0; k++ {
					var m message.Message
					kind := "PUBLISH"
					switch (k + g) % 3 {
					case 0:
						pm := message.NewPublishMessage()
						pm.SetTopic([]byte("a/b"))
						pm.SetQoS(byte(1 + k%2))
						pm.SetPayload([]byte("x"))
						m = pm
					case 1:
						sm := message.NewSubscribeMessage()
						sm.AddTopic([]byte("a/+"), 1)
						m, kind = sm, "SUBSCRIBE"
					default:
						um := message.NewUnsubscribeMessage()
						um.AddTopic([]byte("a/+"))
						m, kind = um, "UNSUBSCRIBE"
					}
					ln := m.Len()
					w, err := m.Encode(buf)
					ok := err == nil && w == ln && m.PacketID() != 0
					if ok {
						p, tot, derr := rc.Decode(buf[:w])
						ok = derr == nil && tot == w && p.ID == m.PacketID()
					}
					if !ok {
						if bad.Add(1) == 1 {
							out.Violation("c03:autoid-zero:"+kind, fmt.Sprintf("%d goroutines encoding id-less packets: Len()=%d, Encode wrote %d (err=%v), PacketID()=%d, wire %s", gor, ln, w, err, m.PacketID(), hex(buf[:max(w, 0)])), map[string]interface{}{"goroutines": gor, "encode_number_of_goroutine": k})
						}
						return
					}
				}
			}(g)
		}
		close(start)
		wg.Wait()
		out.Count("c03.counterconc.encodes", int64(gor*per))
		out.Count("c03.counterconc.wraps", wraps)
		out.Class(fmt.Sprintf("counterconc/g%d", gor))
		out.End()
	}
}

// lastAccepted keeps, per packet type, the previous accepted packet (bytes), so that every accepted
// packet is also decoded into a message object that already holds another packet of its type.
var lastAccepted = map[byte][]byte{}

func reuseCheck(t byte, cur message.Message, wire []byte, detail map[string]interface{}) {
	prev := lastAccepted[t]
	lastAccepted[t] = append([]byte{}, wire...)
	if prev == nil {
		return
	}
	// decode prev into a fresh object, then the current packet into that same object
	m, _, err, pan, _, _ := libDecode(t, append([]byte{}, prev...))
	if pan != nil || err != nil {
		return
	}
	var n2 int
	func() {
		defer func() {
			if r := recover(); r != nil {
				pan = r
			}
		}()
		n2, err = m.Decode(append(make([]byte, 0, len(wire)), wire...))
	}()
	tn := rc.TypeName(t)
	if pan != nil {
		out.Violation("c03:reuse-panic:"+tn, fmt.Sprint(pan), detail)
		return
	}
	if err != nil || n2 != len(wire) {
		out.Violation("c03:reuse-decode:"+tn, fmt.Sprintf("decoding an accepted packet into a message object that held another packet: n=%d err=%v (a fresh object accepts it)", n2, err), detail)
		return
	}
	if d := diffPackets(libFields(cur), libFields(m)); d != "" {
		out.Violation("c03:reuse-stale:"+tn, "decoded into a message object that held "+hex(prev)+": fields differ from a fresh decode: "+d, detail)
		return
	}
	b2, ln, n3, err, pan := libEncode(m)
	if pan != nil || err != nil || ln != len(wire) || n3 != len(wire) || !bytes.Equal(b2[:n3], wire) {
		out.Violation("c03:reuse-reencode:"+tn, fmt.Sprintf("re-encoding after a second decode into the same object: Len=%d n=%d err=%v", ln, n3, err), detail)
		return
	}
	out.Count("c03.reuse.checked", 1)
}

// applySetters changes a message through one or two of its setters (which ones rotates with
// modifySeq and the length of the packet) and says what it did ("" = nothing applicable).
func applySetters(m message.Message, wire []byte) (what string, pan interface{}) {
	modifySeq++
	setterExpect = nil
	defer func() {
		if r := recover(); r != nil {
			pan = r
		}
	}()
	switch mm := m.(type) {
	case *message.ConnectMessage:
		mm.SetKeepAlive(mm.KeepAlive() + 7)
		if len(wire)%2 == 0 {
			mm.SetClientID([]byte("rewritten-id"))
		}
		if len(wire)%3 == 0 {
			mm.SetCleanSession(!mm.CleanSession())
		}
		what = "SetKeepAlive/SetClientID/SetCleanSession"
	case *message.PublishMessage:
		switch k := modifySeq % 6; {
		case k == 0:
			mm.SetPayload([]byte("other payload"))
			what = "SetPayload"
		case k == 1:
			mm.SetTopic([]byte("other/topic"))
			what = "SetTopic"
		case k == 2:
			mm.SetRetain(!mm.Retain())
			what = "SetRetain"
		case k == 3 && mm.QoS() > 0:
			mm.SetDup(!mm.Dup())
			what = "SetDup"
		case k == 4 && mm.QoS() > 0:
			mm.SetPacketID(mm.PacketID()%65535 + 1)
			what = "SetPacketID"
		default:
			q := (mm.QoS() + 1 + byte(modifySeq/6%2)) % 3
			mm.SetQoS(q)
			if q == 0 {
				mm.SetDup(false)
			}
			what = fmt.Sprintf("SetQoS(%d)", q)
		}
	case *message.SubscribeMessage:
		// the harness keeps its own account of what the setters are documented to do (the filters the
		// packet carried come from the reference decoder), so that a setter that changes the wrong
		// element is seen even though the message encodes its own, wrong, state faithfully
		var mf [][]byte
		var mq []byte
		if ref, _, derr := rc.Decode(wire); derr == nil && ref.Type == rc.SUBSCRIBE {
			for i, f := range ref.Filters {
				mf = append(mf, append([]byte{}, f...))
				mq = append(mq, ref.QoSs[i])
			}
			defer func() {
				if pan == nil && what != "" {
					setterExpect = &rc.Packet{Type: rc.SUBSCRIBE, ID: ref.ID, Filters: mf, QoSs: mq}
				}
			}()
		}
		modelAdd := func(f []byte, q byte) {
			for i := range mf {
				if bytes.Equal(mf[i], f) {
					mq[i] = q
					return
				}
			}
			mf, mq = append(mf, append([]byte{}, f...)), append(mq, q)
		}
		modelRemove := func(f []byte) {
			for i := range mf {
				if bytes.Equal(mf[i], f) {
					mf, mq = append(mf[:i:i], mf[i+1:]...), append(mq[:i:i], mq[i+1:]...)
					return
				}
			}
		}
		if ts := mm.Topics(); len(ts) > 0 && len(wire)%3 == 0 {
			// only the requested QoS of a filter the packet carried is changed
			k := modifySeq % len(ts)
			f, q := append([]byte{}, ts[k]...), (mm.Qos()[k]+1)%3
			mm.AddTopic(f, q)
			modelAdd(f, q)
			what = "AddTopic(existing filter, other QoS)"
			break
		}
		mm.AddTopic([]byte("added/by/setter"), byte(modifySeq%3))
		modelAdd([]byte("added/by/setter"), byte(modifySeq%3))
		if ts := mm.Topics(); len(ts) > 1 && len(wire)%2 == 0 {
			f := append([]byte{}, ts[modifySeq%(len(ts)-1)]...) // not the last one
			mm.RemoveTopic(f)
			modelRemove(f)
		}
		what = "AddTopic/RemoveTopic"
	case *message.SubackMessage:
		mm.AddReturnCodes([]byte{1})
		what = "AddReturnCodes"
	case *message.UnsubscribeMessage:
		var mf [][]byte
		if ref, _, derr := rc.Decode(wire); derr == nil && ref.Type == rc.UNSUBSCRIBE {
			for _, f := range ref.Filters {
				mf = append(mf, append([]byte{}, f...))
			}
			defer func() {
				if pan == nil && what != "" {
					setterExpect = &rc.Packet{Type: rc.UNSUBSCRIBE, ID: ref.ID, Filters: mf}
				}
			}()
		}
		has := false
		for _, f := range mf {
			has = has || string(f) == "added/by/setter"
		}
		mm.AddTopic([]byte("added/by/setter"))
		if !has {
			mf = append(mf, []byte("added/by/setter"))
		}
		if ts := mm.Topics(); len(ts) > 1 && len(wire)%2 == 0 {
			f := append([]byte{}, ts[modifySeq%(len(ts)-1)]...)
			mm.RemoveTopic(f)
			for i := range mf {
				if bytes.Equal(mf[i], f) {
					mf = append(mf[:i:i], mf[i+1:]...)
					break
				}
			}
		}
		what = "AddTopic/RemoveTopic"
	default:
		what = ""
	}
	return
}

// modifyAfterDecode decodes the packet once more, changes it through one or two setters and compares
// the encoding with the reference encoding of the fields the message then reports.
func modifyAfterDecode(t byte, wire []byte, detail map[string]interface{}) {
	modifyAfterDecodeInto(t, wire, nil, detail)
	if prev := lastAccepted[t]; prev != nil {
		// the same on a message object that held another packet of the type before
		modifyAfterDecodeInto(t, wire, prev, detail)
	}
}

var modifySeq int

// setterExpect: after applySetters, the fields the message must have by the harness's own account of
// the setters it called (nil where it keeps none).
var setterExpect *rc.Packet

func modifyAfterDecodeInto(t byte, wire, prev []byte, detail map[string]interface{}) {
	first := wire
	if prev != nil {
		first = prev
	}
	m, _, err, pan, _, _ := libDecode(t, append(make([]byte, 0, len(first)), first...))
	if pan != nil || err != nil {
		return
	}
	if prev != nil {
		func() {
			defer func() {
				if r := recover(); r != nil {
					pan = r
				}
			}()
			_, err = m.Decode(append(make([]byte, 0, len(wire)), wire...))
		}()
		if pan != nil || err != nil {
			return // reported by reuseCheck
		}
	}
	what, pan := applySetters(m, wire)
	if what == "" {
		return
	}
	tn := rc.TypeName(t)
	if pan != nil {
		out.Violation("c03:modify-panic:"+tn, fmt.Sprint(pan), detail)
		return
	}
	if setterExpect != nil {
		if d := diffPackets(setterExpect, libFields(m)); d != "" {
			out.Violation("c03:setter-effect:"+tn, fmt.Sprintf("decoded, changed through %s: the message's fields are not what these calls produce: %s", what, d), detail)
			return
		}
		out.Count("c03.setter_effect.checked", 1)
	}
	b, ln, n, err, pan := libEncode(m)
	// the fields as the message reports them after encoding (a request identifier the library had to
	// assign is part of them); no merging of duplicate filters: a decoded packet keeps what it carried
	want := rc.Encode(libFields(m))
	if prev != nil {
		what += " on a message object that held " + hex(prev) + " before"
	}
	if pan != nil || err != nil || ln != n || !bytes.Equal(b[:max(n, 0)], want) {
		out.Violation("c03:modify-after-decode:"+tn, fmt.Sprintf("decoded, changed through %s, encoded: Len()=%d wrote %d err=%v panic=%v; bytes %s, MQTT encoding of its fields %s", what, ln, n, err, pan, hex(b[:max(n, 0)]), hex(want)), detail)
		return
	}
	out.Count("c03.modify.checked", 1)
}
