package vrun

import (
	"fmt"
	"sort"
	"strings"
	"testing"

	"github.com/mdzio/go-mqtt/message"
	"github.com/mdzio/go-mqtt/topics"

	"verif/harness/out"
	"verif/harness/spec"
)

// implEmptyLevelMatch is the classifier predicate for the known empty-level
// finding: what the implementation computes when every leading/inner empty
// level of a filter acts as '+', every leading/inner empty level of a name is a
// token that only a wildcard matches, and one trailing empty level is dropped.
func implEmptyLevelMatch(f, t string) bool {
	lv := func(s string, filter bool) []string {
		ls := strings.Split(s, "/")
		if len(ls) > 1 && ls[len(ls)-1] == "" {
			ls = ls[:len(ls)-1]
		}
		for i := range ls {
			if ls[i] == "" {
				if filter {
					ls[i] = "+"
				} else {
					ls[i] = "\x00empty"
				}
			}
		}
		return ls
	}
	fl, tl := lv(f, true), lv(t, false)
	for i, l := range fl {
		if l == "#" {
			return true
		}
		if i >= len(tl) {
			return false
		}
		if l != "+" && l != tl[i] {
			return false
		}
	}
	return len(fl) == len(tl)
}

func hasEmptyLevel(s string) bool {
	for _, l := range strings.Split(s, "/") {
		if l == "" {
			return true
		}
	}
	return false
}

// matchVerdict compares the implementation's answer for (filter,name) with
// the specification and returns "" or a violation signature.
func matchVerdict(kind, f, t string, got bool) (sig string) {
	want := spec.Match(f, t)
	if got == want {
		return ""
	}
	if (hasEmptyLevel(f) || hasEmptyLevel(t)) && got == implEmptyLevelMatch(f, t) {
		return "c06:empty-level"
	}
	return fmt.Sprintf("c06:%s-mismatch", kind)
}

func levelSeqs(alpha []string, maxLevels int) []string {
	var outp []string
	var rec func(prefix []string)
	rec = func(prefix []string) {
		if len(prefix) > 0 {
			outp = append(outp, strings.Join(prefix, "/"))
		}
		if len(prefix) == maxLevels {
			return
		}
		for _, a := range alpha {
			rec(append(append([]string{}, prefix...), a))
		}
	}
	rec(nil)
	return outp
}

func mkRetained(topic string, qos byte, payload []byte) *message.PublishMessage {
	m := message.NewPublishMessage()
	m.SetTopic([]byte(topic))
	m.SetQoS(qos)
	m.SetRetain(true)
	m.SetPayload(payload)
	if qos > 0 {
		m.SetPacketID(7)
	}
	return m
}

func shape(s string) string {
	ls := strings.Split(s, "/")
	for i, l := range ls {
		switch l {
		case "", "+", "#":
		default:
			ls[i] = "x"
		}
	}
	return strings.Join(ls, "/")
}

func TestC06(t *testing.T) {
	// ---------------- exhaustive part
	nameLv := pick(4, 5)
	filters := levelSeqs([]string{"a", "b", "", "+", "#"}, 4)
	names := levelSeqs([]string{"a", "b", ""}, nameLv)
	var fl []string
	for _, f := range filters {
		if f != "" {
			fl = append(fl, f)
		}
	}
	filters = fl
	var nl []string
	for _, n := range names {
		if n != "" {
			nl = append(nl, n)
		}
	}
	names = nl
	// second scope: a literal that begins with '$' ('$' is only special as the first character of a
	// topic, so strings that begin with it are left out), up to three levels
	noDollarFirst := func(l []string) []string {
		var o []string
		for _, x := range l {
			if x != "" && x[0] != '$' {
				o = append(o, x)
			}
		}
		return o
	}
	filtersB := noDollarFirst(levelSeqs([]string{"a", "$x", "", "+", "#"}, 3))
	namesB := noDollarFirst(levelSeqs([]string{"a", "$x", ""}, 3))
	scopes := [][2][]string{{filters, names}, {filtersB, namesB}}
	if out.Only("c06/exhaustive") {
		out.Begin("c06/exhaustive", 0, map[string]interface{}{"filters": len(filters), "names": len(names), "filters_dollar_scope": len(filtersB), "names_dollar_scope": len(namesB), "batch": batch})
		type subT struct{ id int }
		for si, sc := range scopes {
			filters, names := sc[0], sc[1]
			if si == 1 {
				out.Count("c06.ex.dollar_scope_filters", int64(len(filters)))
			}
			for fi, f := range filters {
				if !mine(fi) {
					continue
				}
				valid := spec.ValidFilter(f)
				subQ := byte(fi % 3)
				p := topics.NewMemProvider()
				sub := &subT{fi}
				var granted byte
				var err error
				if guard("c06", map[string]string{"filter": f}, func() { granted, err = p.Subscribe([]byte(f), subQ, sub) }) {
					continue
				}
				out.Count("c06.ex.filters", 1)
				if valid != (err == nil) {
					out.Violation("c06:filter-validity", fmt.Sprintf("filter %q: valid per 4.7 = %v, Subscribe error = %v", f, valid, err), map[string]string{"filter": f})
				}
				if err == nil && granted != subQ {
					out.Violation("c06:granted", fmt.Sprintf("filter %q: granted %d for requested %d", f, granted, subQ), nil)
				}
				var subs []interface{}
				var qoss []byte
				for _, n := range names {
					for q := byte(0); q < 3; q++ {
						var serr error
						if guard("c06", map[string]string{"filter": f, "name": n}, func() { serr = p.Subscribers([]byte(n), q, &subs, &qoss) }) {
							continue
						}
						out.Count("c06.ex.pairs", 1)
						got := len(subs) > 0
						if serr != nil {
							out.Violation("c06:subscribers-error", fmt.Sprintf("Subscribers(%q) failed: %v", n, serr), map[string]string{"filter": f, "name": n})
							continue
						}
						if !valid || err != nil {
							if got {
								out.Violation("c06:invalid-filter-side-effect", fmt.Sprintf("rejected filter %q left a subscription matching %q", f, n), nil)
							}
							continue
						}
						if sig := matchVerdict("subscribers", f, n, got); sig != "" {
							out.Violation(sig, fmt.Sprintf("filter %q vs name %q: Subscribers matched=%v, MQTT 4.7 says %v", f, n, got, !got), map[string]string{"filter": f, "name": n})
							continue
						}
						if got {
							wq := q
							if subQ < wq {
								wq = subQ
							}
							if len(subs) != 1 || subs[0] != interface{}(sub) || qoss[0] != wq {
								out.Violation("c06:subscriber-entry", fmt.Sprintf("filter %q name %q pubqos %d subqos %d: got %d entries qos %v", f, n, q, subQ, len(subs), qoss), nil)
							}
						}
						if q == 0 {
							out.Class(fmt.Sprintf("ex/%s|%s|%v", shape(f), shape(n), got))
						}
					}
				}
			}
			// retained: all names without empty levels stored at once (cross-name
			// interference), every valid filter queried
			if mine(0) {
				p := topics.NewMemProvider()
				var plain []string
				for _, n := range names {
					if !hasEmptyLevel(n) {
						plain = append(plain, n)
					}
				}
				for i, n := range plain {
					if err := p.Retain(mkRetained(n, byte(i%3), []byte(n+"!"))); err != nil {
						out.Violation("c06:retain-error", fmt.Sprintf("Retain(%q): %v", n, err), nil)
					}
				}
				var msgs []*message.PublishMessage
				for _, f := range filters {
					if !spec.ValidFilter(f) {
						continue
					}
					msgs = msgs[:0]
					var rerr error
					if guard("c06", map[string]string{"filter": f}, func() { rerr = p.Retained([]byte(f), &msgs) }) {
						continue
					}
					if rerr != nil {
						out.Violation("c06:retained-error", fmt.Sprintf("Retained(%q): %v", f, rerr), nil)
						continue
					}
					got := map[string]int{}
					for _, m := range msgs {
						got[string(m.Topic())]++
						if string(m.Payload()) != string(m.Topic())+"!" {
							out.Violation("c06:retained-payload", fmt.Sprintf("retained %q has payload %q", m.Topic(), m.Payload()), nil)
						}
					}
					for _, n := range plain {
						out.Count("c06.ex.retained_pairs", 1)
						if got[n] > 1 {
							out.Violation("c06:retained-duplicate", fmt.Sprintf("Retained(%q) returned %q %d times", f, n, got[n]), nil)
						}
						if sig := matchVerdict("retained", f, n, got[n] > 0); sig != "" {
							out.Violation(sig, fmt.Sprintf("filter %q vs retained name %q: returned=%v, MQTT 4.7 says %v", f, n, got[n] > 0, !(got[n] > 0)), map[string]string{"filter": f, "name": n})
						}
					}
				}
			}
			// per-pair retained check on a fresh provider per name (all names)
			for ni, n := range names {
				if !mine(ni) {
					continue
				}
				p := topics.NewMemProvider()
				if err := p.Retain(mkRetained(n, 1, []byte("v"))); err != nil {
					out.Violation("c06:retain-error", fmt.Sprintf("Retain(%q): %v", n, err), nil)
					continue
				}
				var msgs []*message.PublishMessage
				for _, f := range filters {
					if !spec.ValidFilter(f) {
						continue
					}
					msgs = msgs[:0]
					if guard("c06", map[string]string{"filter": f, "name": n}, func() { p.Retained([]byte(f), &msgs) }) {
						continue
					}
					if sig := matchVerdict("retained", f, n, len(msgs) > 0); sig != "" {
						out.Violation(sig, fmt.Sprintf("filter %q vs single retained name %q: returned=%v", f, n, len(msgs) > 0), map[string]string{"filter": f, "name": n})
					}
					out.Count("c06.ex.retained_pairs", 1)
				}
			}
		}
		out.Sample("c06.exhaustive", 1, map[string]interface{}{"first_filters": filters[:8], "first_names": names[:8], "n_filters": len(filters), "n_names": len(names)})
		out.End()
	}

	// ---------------- history part
	nh := pick(2000, 200000)
	per := 100
	for g := 0; g*per < nh; g++ {
		id := fmt.Sprintf("c06/history/%d", g)
		if !mine(g) || !out.Only(id) {
			continue
		}
		seed := caseSeed("c06h", g)
		out.Begin(id, seed, nil)
		r := spec.NewRand(seed)
		for i := 0; i < per; i++ {
			topicHistory(r, g*per+i)
		}
		out.End()
	}
}

var histFilters = []string{"a", "b", "a/b", "a/+", "a/#", "+", "#", "+/b", "+/+", "a/b/c", "a/+/c", "a/b/#", "+/b/#", "a/b/c/d", "+/+/+", "x/y", "x/#", "x/+/z",
	"sport/tennis/player1", "sport/tennis/+", "sport/#", "spört/+", "long" + "0123456789012345678901234567890123456789" + "/x", "a/b/c/d/e/f", "+/+/+/+/+/+", "b/#", "b/+", "x", "x/y/z", "a/+/+/d", "a/$x", "+/$x", "a/$x/#", "b/$"}
var histInvalid = []string{"a/#/b", "#/a", "a+", "a/b+", "+a/b", "a#", "a/#b", "", "+$", "a/+$", "a/#$", "#$"}
var histEmptyLv = []string{"/a", "a//b", "a/", "/", "+/", "/#"}
var histNames = []string{"a", "b", "c", "a/b", "a/c", "b/b", "a/b/c", "a/x/c", "a/b/c/d", "a/b/c/d/e/f", "x", "x/y", "x/y/z", "x/q/z", "sport", "sport/tennis", "sport/tennis/player1",
	"sport/tennis/player2", "spört/x", "long0123456789012345678901234567890123456789/x", "b", "b/c", "b/c/d", "q", "q/r", "a/b/x", "a/q/r/d", "x/y/z/w", "a/$x", "a/$x/y", "b/$x", "b/$"}

type subKey struct {
	sub    int
	filter string
}

// topicHistory runs one random subscribe/unsubscribe/retain history against a
// map model, comparing the full observable state after every operation.
func topicHistory(r *spec.Rand, idx int) {
	// every fourth history runs with a server maximum QoS below 2 (topics.MaxQosAllowed, a legal
	// configuration): the granted QoS is min(requested, maximum) and that is what the subscription holds
	maxQ := byte(2)
	if idx%4 == 3 {
		maxQ = byte(idx / 4 % 2)
		out.Count("c06.hist.lowered_max_qos", 1)
	}
	oldMax := topics.MaxQosAllowed
	topics.MaxQosAllowed = maxQ
	defer func() { topics.MaxQosAllowed = oldMax }()
	p := topics.NewMemProvider()
	withEmpty := idx%10 == 9 // a marked subset exercises empty levels (known finding classifier)
	type ptrSub struct{ n int }
	subsV := []interface{}{&ptrSub{0}, &ptrSub{1}, "strsub", int64(77)}
	model := map[subKey]byte{}
	retained := map[string][]byte{}
	retQ := map[string]byte{}
	n := 20 + r.Intn(180)
	var ops []string
	pickFilter := func() (string, bool) {
		switch {
		case r.Intn(12) == 0:
			return histInvalid[r.Intn(len(histInvalid))], false
		case withEmpty && r.Intn(4) == 0:
			return histEmptyLv[r.Intn(len(histEmptyLv))], true
		}
		return histFilters[r.Intn(len(histFilters))], true
	}
	names := histNames
	if withEmpty {
		names = append(append([]string{}, histNames...), "/a", "a//b", "a/", "/", "b/")
	}
	fail := func(sig, desc string) {
		o := ops
		if len(o) > 40 {
			o = o[len(o)-40:]
		}
		out.Violation(sig, desc, map[string]interface{}{"history_index": idx, "last_ops": o})
	}
	// the result slices live as long as the history and are handed to every lookup again, the way the
	// service does it (the provider has to reset them); they go into a lookup holding the previous result
	var subs []interface{}
	var qoss []byte
	compare := func() bool {
		for _, name := range names {
			for q := byte(0); q < 3; q++ {
				if err := p.Subscribers([]byte(name), q, &subs, &qoss); err != nil {
					fail("c06:subscribers-error", fmt.Sprintf("Subscribers(%q): %v", name, err))
					return false
				}
				var got, want, wantImpl []string
				for i, s := range subs {
					got = append(got, fmt.Sprintf("%v/%d", subIndex(subsV, s), qoss[i]))
				}
				for k, sq := range model {
					eq := q
					if sq < eq {
						eq = sq
					}
					e := fmt.Sprintf("%d/%d", k.sub, eq)
					if spec.Match(k.filter, name) {
						want = append(want, e)
					}
					if implEmptyLevelMatch(k.filter, name) {
						wantImpl = append(wantImpl, e)
					}
				}
				sort.Strings(got)
				sort.Strings(want)
				sort.Strings(wantImpl)
				if strings.Join(got, ",") != strings.Join(want, ",") {
					if withEmpty && strings.Join(got, ",") == strings.Join(wantImpl, ",") {
						fail("c06:empty-level", fmt.Sprintf("Subscribers(%q,%d) = [%s], MQTT 4.7 gives [%s] (differs only by the empty-level encoding)", name, q, strings.Join(got, ","), strings.Join(want, ",")))
						return false
					}
					fail("c06:history-subscribers", fmt.Sprintf("Subscribers(%q,%d) = [%s], model = [%s]", name, q, strings.Join(got, ","), strings.Join(want, ",")))
					return false
				}
				out.Count("c06.hist.sub_queries", 1)
			}
		}
		var msgs []*message.PublishMessage
		for _, f := range histFilters {
			msgs = msgs[:0]
			if err := p.Retained([]byte(f), &msgs); err != nil {
				fail("c06:retained-error", fmt.Sprintf("Retained(%q): %v", f, err))
				return false
			}
			var got, want []string
			for _, m := range msgs {
				got = append(got, fmt.Sprintf("%s=%x/%d", m.Topic(), m.Payload(), m.QoS()))
			}
			for tn, pl := range retained {
				if spec.Match(f, tn) {
					want = append(want, fmt.Sprintf("%s=%x/%d", tn, pl, retQ[tn]))
				}
			}
			sort.Strings(got)
			sort.Strings(want)
			if strings.Join(got, ",") != strings.Join(want, ",") {
				fail("c06:history-retained", fmt.Sprintf("Retained(%q) = [%s], model = [%s]", f, strings.Join(got, ","), strings.Join(want, ",")))
				return false
			}
			out.Count("c06.hist.ret_queries", 1)
		}
		// leave the slices filled if anything is subscribed at all: the next lookup starts from there
		if len(model) > 0 {
			for _, name := range names {
				if hasEmptyLevel(name) {
					continue
				}
				if p.Subscribers([]byte(name), 2, &subs, &qoss); len(subs) > 0 {
					break
				}
			}
		}
		return true
	}
	for i := 0; i < n; i++ {
		switch op := r.Intn(10); {
		case op < 4: // subscribe / re-subscribe
			f, valid := pickFilter()
			s := r.Intn(len(subsV))
			q := byte(r.Intn(3))
			if r.Intn(25) == 0 {
				q = 3
			}
			ops = append(ops, fmt.Sprintf("sub(%d,%q,%d)", s, f, q))
			g, err := p.Subscribe([]byte(f), q, subsV[s])
			ok := valid && q <= 2
			if ok != (err == nil) {
				fail("c06:subscribe-result", fmt.Sprintf("Subscribe(%q,%d): expected ok=%v, err=%v", f, q, ok, err))
				return
			}
			if ok {
				if g != minQ(q, maxQ) {
					fail("c06:granted", fmt.Sprintf("granted %d for requested %d with server maximum %d", g, q, maxQ))
					return
				}
				model[subKey{s, f}] = g
			}
		case op < 6: // unsubscribe (held or not)
			f, _ := pickFilter()
			s := r.Intn(len(subsV))
			if r.Bool() && len(model) > 0 { // prefer a held one
				k := r.Intn(len(model))
				keys := make([]subKey, 0, len(model))
				for kk := range model {
					keys = append(keys, kk)
				}
				sort.Slice(keys, func(a, b int) bool {
					return keys[a].sub < keys[b].sub || keys[a].sub == keys[b].sub && keys[a].filter < keys[b].filter
				})
				f, s = keys[k].filter, keys[k].sub
			}
			ops = append(ops, fmt.Sprintf("unsub(%d,%q)", s, f))
			_, held := model[subKey{s, f}]
			err := p.Unsubscribe([]byte(f), subsV[s])
			if held && err != nil {
				fail("c06:unsubscribe-held", fmt.Sprintf("Unsubscribe(%q) of a held subscription failed: %v", f, err))
				return
			}
			delete(model, subKey{s, f})
		case op < 8: // retain
			tn := names[r.Intn(len(names))]
			if hasEmptyLevel(tn) {
				tn = "a/b"
			}
			pl := r.Bytes(1 + r.Intn(40))
			q := byte(r.Intn(3))
			ops = append(ops, fmt.Sprintf("retain(%q,%d bytes,q%d)", tn, len(pl), q))
			if err := p.Retain(mkRetained(tn, q, pl)); err != nil {
				fail("c06:retain-error", fmt.Sprintf("Retain(%q): %v", tn, err))
				return
			}
			retained[tn] = pl
			retQ[tn] = q
		case op < 9: // clear
			tn := names[r.Intn(len(names))]
			if hasEmptyLevel(tn) {
				tn = "a/b"
			}
			ops = append(ops, fmt.Sprintf("clear(%q)", tn))
			p.Retain(mkRetained(tn, 0, nil)) // error for an absent topic is acceptable
			delete(retained, tn)
			delete(retQ, tn)
		default:
			ops = append(ops, "query")
		}
		if !compare() {
			return
		}
	}
	// at the end everybody leaves, in a seeded order, down to the empty store
	keys := make([]subKey, 0, len(model))
	for kk := range model {
		keys = append(keys, kk)
	}
	sort.Slice(keys, func(a, b int) bool {
		return keys[a].sub < keys[b].sub || keys[a].sub == keys[b].sub && keys[a].filter < keys[b].filter
	})
	for len(keys) > 0 {
		k := r.Intn(len(keys))
		kk := keys[k]
		keys = append(keys[:k], keys[k+1:]...)
		ops = append(ops, fmt.Sprintf("unsub(%d,%q)", kk.sub, kk.filter))
		if err := p.Unsubscribe([]byte(kk.filter), subsV[kk.sub]); err != nil {
			fail("c06:unsubscribe-held", fmt.Sprintf("Unsubscribe(%q) of a held subscription failed: %v", kk.filter, err))
			return
		}
		delete(model, kk)
		if !compare() {
			return
		}
	}
	out.Count("c06.hist.drained_to_empty", 1)
	out.Count("c06.hist.histories", 1)
	out.Count("c06.hist.ops", int64(n))
	out.Class(fmt.Sprintf("hist/n%d/subs%d/ret%d/empty%v", n/40, len(model)/4, len(retained)/4, withEmpty))
	if idx%500 == 0 {
		o := ops
		if len(o) > 25 {
			o = o[:25]
		}
		out.Sample("c06.history", 2, map[string]interface{}{"ops": o, "total_ops": n})
	}
}

func subIndex(all []interface{}, s interface{}) int {
	for i, a := range all {
		if a == s {
			return i
		}
	}
	return -1
}
