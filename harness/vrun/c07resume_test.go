package vrun

import (
	"fmt"
	"testing"
	"time"

	"verif/harness/out"
	"verif/harness/rawclient"
	rc "verif/harness/refcodec"
	"verif/harness/spec"
)

// TestC07Resume: requests sent right behind the CONNECT of a resumed session. The
// session holds thousands of filters (putting them back takes the broker a while);
// the client does not wait: its first packets after the CONNECT are an UNSUBSCRIBE
// for some stored filters and a SUBSCRIBE that changes the QoS of others. Once the
// UNSUBACK / SUBACK have arrived, publications accepted afterwards must not reach
// the unsubscribed filters and must reach the re-subscribed ones at the new QoS.
func c07Resume(idx int, seed uint64, nFilters int) {
	r := spec.NewRand(seed)
	nUn := 50 + r.Intn(150)
	nRe := 20 + r.Intn(60)
	params := map[string]interface{}{"case": idx, "stored_filters": nFilters, "unsubscribed": nUn, "resubscribed": nRe}
	fail := func(sig, desc string) { out.Violation(sig, desc, params) }
	w := newWorld(worldCfg{BufferSize: 1 << 20})
	defer w.shutdown()
	const wait = 30 * time.Second
	filter := func(i int) string { return fmt.Sprintf("res/%d/%d", idx, i) }
	first := func(c *rawclient.Client) *rc.Packet {
		if c.WaitFor(func(l []rawclient.Event, closed bool) bool { return len(l) > 0 }, wait) != nil {
			return nil
		}
		return c.Log()[0].P
	}
	pingN := func(c *rawclient.Client, n int) bool {
		c.SendPacket(&rc.Packet{Type: rc.PINGREQ})
		return c.WaitFor(func(l []rawclient.Event, closed bool) bool { return countType(l, rc.PINGRESP) >= n }, wait) == nil
	}
	prober := w.dial("prober", connectOpts{ClientID: "prober", Clean: true, KeepAlive: 6000})
	if p := first(prober); p == nil || p.Type != rc.CONNACK {
		out.Inconclusive("c07resume: prober", params)
		return
	}
	c1 := w.dial("res#1", connectOpts{ClientID: "res", Clean: false, KeepAlive: 6000})
	if p := first(c1); p == nil || p.Type != rc.CONNACK || p.ReturnCode != 0 {
		out.Inconclusive("c07resume: first connection", params)
		return
	}
	nb := 0
	for i := 0; i < nFilters; i += 200 {
		p := &rc.Packet{Type: rc.SUBSCRIBE, ID: uint16(nb + 1)}
		for j := i; j < i+200 && j < nFilters; j++ {
			p.Filters = append(p.Filters, []byte(filter(j)))
			p.QoSs = append(p.QoSs, 0)
		}
		c1.SendPacket(p)
		nb++
	}
	if c1.WaitFor(func(l []rawclient.Event, closed bool) bool { return countType(l, rc.SUBACK) >= nb }, wait) != nil {
		out.Inconclusive("c07resume: SUBACKs", params)
		return
	}
	c1.SendPacket(&rc.Packet{Type: rc.DISCONNECT})
	c1.Flush()
	c1.Close()
	if w.sink == nil || !w.sink.waitCount("stop.done", "res", 1, wait) {
		out.Inconclusive("c07resume: teardown of the first connection", params)
		return
	}
	// resume, and do not wait for anything: CONNECT, UNSUBSCRIBE, SUBSCRIBE in one go
	un := map[int]bool{}
	for len(un) < nUn {
		un[r.Intn(nFilters)] = true
	}
	re := map[int]bool{}
	for len(re) < nRe {
		if i := r.Intn(nFilters); !un[i] {
			re[i] = true
		}
	}
	up := &rc.Packet{Type: rc.UNSUBSCRIBE, ID: 1}
	for i := range un {
		up.Filters = append(up.Filters, []byte(filter(i)))
	}
	sp := &rc.Packet{Type: rc.SUBSCRIBE, ID: 2}
	for i := range re {
		sp.Filters = append(sp.Filters, []byte(filter(i)))
		sp.QoSs = append(sp.QoSs, 1)
	}
	c2 := w.dial("res#2", connectOpts{ClientID: "res", Clean: false, KeepAlive: 6000})
	c2.SendPacket(up)
	c2.SendPacket(sp)
	if p := first(c2); p == nil || p.Type != rc.CONNACK || p.ReturnCode != 0 || !p.SessionPresent {
		out.Inconclusive("c07resume: the session was not resumed", params)
		return
	}
	if c2.WaitFor(func(l []rawclient.Event, closed bool) bool { return countType(l, rc.UNSUBACK) >= 1 && countType(l, rc.SUBACK) >= 1 }, wait) != nil {
		fail("c07:no-ack", fmt.Sprintf("UNSUBSCRIBE / SUBSCRIBE sent right behind the CONNECT of a resumed session with %d filters: UNSUBACK %d, SUBACK %d (closed=%v)", nFilters, countType(c2.Log(), rc.UNSUBACK), countType(c2.Log(), rc.SUBACK), c2.Closed()))
		return
	}
	// let the connection answer once more, then publish: everything has certainly been put back by now
	if !pingN(c2, 1) {
		out.Inconclusive("c07resume: PINGRESP", params)
		return
	}
	time.Sleep(time.Duration(r.Intn(20)) * time.Millisecond)
	want := map[uint64]int{}
	uid := uint64(0)
	var burst []byte
	pub := func(i int) {
		uid++
		want[uid] = i
		burst = append(burst, rc.Encode(&rc.Packet{Type: rc.PUBLISH, Topic: []byte(filter(i)), QoS: 1, ID: uint16(uid), Payload: spec.MakePayload(uid, 0, 24)})...)
	}
	for i := range un {
		pub(i)
	}
	for i := range re {
		pub(i)
	}
	prober.Send(burst)
	if !pingN(prober, 1) || !pingN(c2, 2) {
		out.Inconclusive("c07resume: barrier after the probes", params)
		return
	}
	got := map[uint64]byte{}
	for _, e := range c2.Log() {
		if e.P.Type != rc.PUBLISH {
			continue
		}
		if d := decodeDelivery(e.P); d.ok {
			if _, dup := got[d.uid]; dup {
				fail("c07:resume-duplicate", fmt.Sprintf("uid %d delivered twice", d.uid))
				return
			}
			got[d.uid] = e.P.QoS
		}
	}
	still, missing, wrongQ := 0, 0, 0
	for u, i := range want {
		q, ok := got[u]
		switch {
		case un[i] && ok:
			still++
		case re[i] && !ok:
			missing++
		case re[i] && q != 1:
			wrongQ++
		}
	}
	if still > 0 {
		fail("c07:unsubscribe-not-effective", fmt.Sprintf("resumed session with %d filters, UNSUBSCRIBE of %d of them sent right behind the CONNECT and acknowledged: publications accepted afterwards still reached %d of them", nFilters, nUn, still))
		return
	}
	if missing > 0 || wrongQ > 0 {
		fail("c07:subscribe-not-effective", fmt.Sprintf("resumed session with %d filters, SUBSCRIBE (QoS 1) for %d stored QoS 0 filters sent right behind the CONNECT and acknowledged: %d did not receive, %d received at another QoS", nFilters, nRe, missing, wrongQ))
		return
	}
	out.Count("c07.resume_cases", 1)
	out.Class(fmt.Sprintf("resume/%d", nFilters))
}

func TestC07Resume(t *testing.T) {
	if raceEnabled {
		return
	}
	sizes := []int{2000, 8000, 20000, 40000}
	n := pick(12, 120)
	for h := 0; h < n; h++ {
		id := fmt.Sprintf("c07/resume/%d", h)
		if !mine(h) || !out.Only(id) {
			continue
		}
		seed := caseSeed("c07r", h)
		out.Begin(id, seed, nil)
		c07Resume(h, seed, sizes[h%len(sizes)])
		out.End()
	}
}
