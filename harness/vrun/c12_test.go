package vrun

import (
	"fmt"
	"sort"
	"strings"
	"sync"
	"sync/atomic"
	"testing"
	"time"

	"github.com/mdzio/go-mqtt/message"
	"github.com/mdzio/go-mqtt/service"

	"verif/harness/out"
	"verif/harness/rawclient"
	rc "verif/harness/refcodec"
	"verif/harness/spec"
)

// svcYield is the scenario's handler for the service-level yield points
// ("publish.afterwrite", ...). Non-race builds only.
var svcYield atomic.Pointer[func(point string)]

// yieldDispatchSvc is consulted by yieldDispatch for points that are not
// buffer points.
func yieldDispatchSvc(point string) {
	if f := svcYield.Load(); f != nil {
		(*f)(point)
	}
}

var gclock int64

func tick() int64 { return atomic.AddInt64(&gclock, 1) }

type c12Req struct {
	idx      int
	kind     string // pub0 pub1 pub2 sub unsub ping
	issuedAt int64
	returned int64
	fired    []int64 // seq of every completion callback invocation
	wireID   uint16
	termSent int64 // seq at which the peer sent the (first) terminal ack
	forced   bool
	nocb     bool // issued without a completion function (fire and forget)
}

func queueOf(kind string) string {
	switch kind {
	case "pub1", "pub2", "sub", "unsub", "ping":
		return kind
	}
	return ""
}

func wireType(kind string) (byte, byte) {
	switch kind {
	case "pub0":
		return rc.PUBLISH, 0
	case "pub1":
		return rc.PUBLISH, 1
	case "pub2":
		return rc.PUBLISH, 2
	case "sub":
		return rc.SUBSCRIBE, 0
	case "unsub":
		return rc.UNSUBSCRIBE, 0
	}
	return rc.PINGREQ, 0
}

func terminalOf(kind string) byte {
	switch kind {
	case "pub1":
		return rc.PUBACK
	case "pub2":
		return rc.PUBCOMP
	case "sub":
		return rc.SUBACK
	case "unsub":
		return rc.UNSUBACK
	}
	return rc.PINGRESP
}

// c12Script: the client issues a batch of requests, the peer acknowledges them
// in a generated order; forceRace parks the sending call between writing and
// registering one request and lets the ack be processed first.
func c12Script(idx int, seed uint64, order string, forceRace bool) {
	r := spec.NewRand(seed)
	params := map[string]interface{}{"script": idx, "ack_order": order, "forced_ack_before_register": forceRace}
	var mu sync.Mutex
	var reqs []*c12Req
	var trace []string
	fail := func(sig, desc string) {
		mu.Lock()
		tr := trace
		if len(tr) > 40 {
			tr = tr[len(tr)-40:]
		}
		out.Violation(sig, desc, map[string]interface{}{"params": params, "trace": tr})
		mu.Unlock()
	}
	s, err := openSession(nil, 0)
	if err != nil {
		out.Inconclusive("session: "+err.Error(), nil)
		return
	}
	defer s.closeAll()
	defer svcYield.Store(nil)

	n := 4 + r.Intn(12)
	kinds := []string{"pub0", "pub1", "pub1", "pub2", "pub2", "sub", "unsub", "ping"}
	// the forced interleaving
	forcedIdx := -1
	var parked, release chan struct{}
	if forceRace {
		forcedIdx = r.Intn(n)
		parked, release = make(chan struct{}, 1), make(chan struct{})
	}
	var curIssue int64 = -1
	h := func(point string) {
		if !strings.HasSuffix(point, ".afterwrite") {
			return
		}
		if int(atomic.LoadInt64(&curIssue)) == forcedIdx && forcedIdx >= 0 {
			select {
			case parked <- struct{}{}:
				<-release // the goroutine holds no library lock here: a long preemption is a legal schedule
			default:
			}
		}
	}
	svcYield.Store(&h)

	// ---- issue the requests (one goroutine, sequentially; calls only queue)
	issue := func(i int) {
		q := &c12Req{idx: i, kind: kinds[r.Intn(len(kinds))]}
		if forceRace && i == forcedIdx {
			q.kind = []string{"pub1", "pub2", "sub", "unsub", "ping"}[r.Intn(5)]
			q.forced = true
		}
		mu.Lock()
		reqs = append(reqs, q)
		trace = append(trace, fmt.Sprintf("issue #%d %s", i, q.kind))
		mu.Unlock()
		var cb service.OnCompleteFunc = func(msg, ack message.Message, err error) error {
			t := tick()
			mu.Lock()
			q.fired = append(q.fired, t)
			trace = append(trace, fmt.Sprintf("t%d completion #%d %s", t, i, q.kind))
			mu.Unlock()
			return nil
		}
		// every fourth request is fire-and-forget: the requests behind it complete all the same
		if !q.forced && r.Intn(4) == 0 {
			q.nocb, cb = true, nil
			out.Count("c12.requests_without_completion", 1)
			mu.Lock()
			trace = append(trace, fmt.Sprintf("#%d has no completion function", i))
			mu.Unlock()
		}
		atomic.StoreInt64(&curIssue, int64(i))
		q.issuedAt = tick()
		var err error
		switch q.kind {
		case "pub0", "pub1", "pub2":
			m := message.NewPublishMessage()
			m.SetTopic([]byte(fmt.Sprintf("c12/%d", i)))
			m.SetQoS(byte(q.kind[3] - '0'))
			m.SetPayload(spec.MakePayload(uint64(i+1), 0, 30+r.Intn(100)))
			err = s.cln.Publish(m, cb)
		case "sub":
			m := message.NewSubscribeMessage()
			m.AddTopic([]byte(fmt.Sprintf("c12/s/%d", i)), 1)
			err = s.cln.Subscribe(m, cb, func(*message.PublishMessage) error { return nil })
		case "unsub":
			m := message.NewUnsubscribeMessage()
			m.AddTopic([]byte(fmt.Sprintf("c12/s/%d", i)))
			err = s.cln.Unsubscribe(m, cb)
		case "ping":
			err = s.cln.Ping(cb)
		}
		q.returned = tick()
		if err != nil {
			fail("c12:request-error", fmt.Sprintf("request #%d %s: %v", i, q.kind, err))
		}
	}
	issued := make(chan struct{})
	go func() {
		defer close(issued)
		for i := 0; i < n; i++ {
			issue(i)
		}
	}()

	// ---- the peer: map requests to wire packets by order, acknowledge
	pingAcked := 0
	sendAck := func(q *c12Req, typ byte) {
		if typ == rc.PINGRESP {
			// PINGRESP carries no identifier: it always completes the oldest outstanding ping
			mu.Lock()
			k := 0
			for _, pq := range reqs {
				if pq.kind == "ping" {
					if k == pingAcked {
						q = pq
						break
					}
					k++
				}
			}
			pingAcked++
			mu.Unlock()
		}
		p := &rc.Packet{Type: typ, ID: q.wireID}
		if typ == rc.SUBACK {
			p.Codes = []byte{1}
		}
		t := tick()
		mu.Lock()
		if typ == terminalOf(q.kind) && q.termSent == 0 {
			q.termSent = t
		}
		trace = append(trace, fmt.Sprintf("t%d peer sends %s(%d) for #%d", t, rc.TypeName(typ), q.wireID, q.idx))
		mu.Unlock()
		s.srv.SendPacket(p)
	}
	if forceRace {
		// wait until the sending call is parked after its write, find the request on the wire, ack it,
		// wait until the client's processor has handled the ack, then let the call register
		select {
		case <-parked:
		case <-time.After(10 * time.Second):
			out.Inconclusive("forced interleaving: yield point not reached", params)
			close(release)
			<-issued
			return
		}
		mu.Lock()
		fq := reqs[forcedIdx]
		mu.Unlock()
		wt, wq := wireType(fq.kind)
		var pkt *rc.Packet
		nth := 0
		mu.Lock()
		for _, q := range reqs[:forcedIdx] {
			if t2, q2 := wireType(q.kind); t2 == wt && q2 == wq {
				nth++
			}
		}
		mu.Unlock()
		if err := s.srv.WaitFor(func(l []rawclient.Event, closed bool) bool {
			c := 0
			for _, e := range l {
				if e.P.Type == wt && (wt != rc.PUBLISH || e.P.QoS == wq) {
					if c == nth {
						pkt = e.P
						return true
					}
					c++
				}
			}
			return false
		}, 5*time.Second); err != nil {
			out.Inconclusive("forced interleaving: request not seen on the wire", params)
			close(release)
			<-issued
			return
		}
		fq.wireID = pkt.ID
		sink := curSink.Load()
		before := 0
		if sink != nil {
			before = sink.countArg("proc.handled", int(terminalOf(fq.kind)))
		}
		if fq.kind == "pub2" {
			sendAck(fq, rc.PUBREC)
		}
		sendAck(fq, terminalOf(fq.kind))
		// the ack has been *processed* when the processor reports it handled
		ok := false
		for dl := time.Now().Add(5 * time.Second); time.Now().Before(dl); time.Sleep(200 * time.Microsecond) {
			if sink != nil && sink.countArg("proc.handled", int(terminalOf(fq.kind))) > before {
				ok = true
				break
			}
		}
		if !ok {
			out.Inconclusive("forced interleaving: processor did not report the ack", params)
		}
		out.Count("c12.forced_interleavings", 1)
		close(release)
	}
	<-issued
	// all requests are on the wire (or, for the forced one, were)
	var wire []rawclient.Event
	expectWire := 0
	for _, q := range reqs {
		if q.kind != "" {
			expectWire++
		}
	}
	if err := s.srv.WaitFor(func(l []rawclient.Event, closed bool) bool {
		c := 0
		for _, e := range l[1:] { // [0] is the CONNECT
			switch e.P.Type {
			case rc.PUBLISH, rc.SUBSCRIBE, rc.UNSUBSCRIBE, rc.PINGREQ:
				c++
			}
		}
		wire = l
		return c >= expectWire
	}, 5*time.Second); err != nil {
		fail("c12:wire", fmt.Sprintf("not all %d requests appeared on the wire: %v", expectWire, err))
		return
	}
	if ferr := s.srv.FrameErr(); ferr != nil {
		fail("c12:framing", ferr.Error())
		return
	}
	// map by order per wire kind
	byKind := map[string][]*rc.Packet{}
	for _, e := range wire[1:] {
		switch e.P.Type {
		case rc.PUBLISH:
			byKind[fmt.Sprintf("pub%d", e.P.QoS)] = append(byKind[fmt.Sprintf("pub%d", e.P.QoS)], e.P)
		case rc.SUBSCRIBE:
			byKind["sub"] = append(byKind["sub"], e.P)
		case rc.UNSUBSCRIBE:
			byKind["unsub"] = append(byKind["unsub"], e.P)
		case rc.PINGREQ:
			byKind["ping"] = append(byKind["ping"], e.P)
		}
	}
	cnt := map[string]int{}
	inflight := map[uint16]string{}
	for _, q := range reqs {
		k := cnt[q.kind]
		cnt[q.kind]++
		if k >= len(byKind[q.kind]) {
			fail("c12:wire", fmt.Sprintf("request #%d %s has no packet on the wire", q.idx, q.kind))
			return
		}
		q.wireID = byKind[q.kind][k].ID
		if q.kind != "pub0" && q.kind != "ping" {
			if q.wireID == 0 {
				fail("c12:packet-id-zero", fmt.Sprintf("request #%d %s was sent with packet identifier 0", q.idx, q.kind))
				return
			}
			key := q.wireID
			if other, dup := inflight[key]; dup && strings.HasPrefix(other, q.kind[:3]) {
				fail("c12:packet-id-duplicate", fmt.Sprintf("requests %s and #%d %s are in flight with the same packet identifier %d", other, q.idx, q.kind, key))
				return
			}
			inflight[key] = fmt.Sprintf("#%d %s", q.idx, q.kind)
		}
	}
	// QoS 0 completes before Publish returns
	for _, q := range reqs {
		if q.kind == "pub0" && !q.nocb {
			mu.Lock()
			f := append([]int64{}, q.fired...)
			mu.Unlock()
			if len(f) != 1 || f[0] > q.returned {
				fail("c12:qos0-completion", fmt.Sprintf("QoS 0 publish #%d: completion fired %v, Publish returned at t%d", q.idx, f, q.returned))
				return
			}
		}
	}
	// ---- acknowledge in the generated order
	var pending []*c12Req
	for _, q := range reqs {
		if q.kind != "pub0" && !q.forced {
			pending = append(pending, q)
		}
	}
	switch order {
	case "reversed":
		for i, j := 0, len(pending)-1; i < j; i, j = i+1, j-1 {
			pending[i], pending[j] = pending[j], pending[i]
		}
	case "random", "random-dups", "late-pubcomp":
		for i := len(pending) - 1; i > 0; i-- {
			j := r.Intn(i + 1)
			pending[i], pending[j] = pending[j], pending[i]
		}
	}
	// pings have no identifier: the k-th PINGRESP belongs to the k-th PINGREQ, whatever order we "choose"
	var late []*c12Req
	pubrecSent := map[uint16]int{}
	for _, q := range pending {
		switch q.kind {
		case "pub2":
			sendAck(q, rc.PUBREC)
			pubrecSent[q.wireID]++
			if order == "random-dups" && r.Bool() {
				sendAck(q, rc.PUBREC)
				pubrecSent[q.wireID]++
			}
			if order == "late-pubcomp" {
				late = append(late, q)
				continue
			}
			sendAck(q, rc.PUBCOMP)
		case "ping":
			sendAck(q, rc.PINGRESP)
			continue
		default:
			sendAck(q, terminalOf(q.kind))
		}
		if order == "random-dups" && r.Intn(3) == 0 {
			sendAck(q, terminalOf(q.kind)) // duplicate terminal ack
		}
		if order == "delayed" {
			time.Sleep(time.Duration(r.Intn(3)) * time.Millisecond)
		}
		if r.Intn(6) == 0 {
			s.srv.SendPacket(&rc.Packet{Type: rc.PUBACK, ID: 60000}) // ack for an identifier never used
		}
	}
	for _, q := range late {
		sendAck(q, rc.PUBCOMP)
	}
	if fq := forcedReq(reqs); fq != nil && fq.kind == "pub2" {
		pubrecSent[fq.wireID]++
	}
	// a PUBREC repeated when its exchange is over and forgotten (the peer had lost our PUBREL and gave
	// up waiting): it is answered with a PUBREL like any other. Sent only once everything has completed,
	// so that it cannot meet an entry that is still queued.
	if order == "random-dups" {
		if !s.barrier(5 * time.Second) {
			fail("c12:barrier", "the client did not answer the peer's PINGREQ")
			return
		}
		for _, q := range pending {
			if q.kind == "pub2" && r.Intn(2) == 0 {
				sendAck(q, rc.PUBREC)
				pubrecSent[q.wireID]++
				out.Count("c12.pubrec_after_completion", 1)
			}
		}
	}
	if !s.barrier(5 * time.Second) {
		fail("c12:barrier", "the client did not answer the peer's PINGREQ")
		return
	}
	// ---- oracle
	mu.Lock()
	defer mu.Unlock()
	for _, q := range reqs {
		if q.kind == "pub0" || q.nocb {
			continue
		}
		switch {
		case len(q.fired) == 0:
			sig := "c12:completion-missing"
			if q.forced {
				sig = "c12:completion-missing:ack-before-register"
			}
			tr := trace
			if len(tr) > 40 {
				tr = tr[len(tr)-40:]
			}
			out.Violation(sig, fmt.Sprintf("request #%d %s (id %d): its terminal acknowledgement and those of all earlier %s requests were sent, the completion callback never fired", q.idx, q.kind, q.wireID, q.kind), map[string]interface{}{"params": params, "trace": tr})
			return
		case len(q.fired) > 1:
			out.Violation("c12:completion-twice", fmt.Sprintf("request #%d %s: completion fired %d times", q.idx, q.kind, len(q.fired)), map[string]interface{}{"params": params})
			return
		case q.fired[0] < q.termSent:
			out.Violation("c12:completion-early", fmt.Sprintf("request #%d %s: completion fired at t%d, before its terminal acknowledgement was even sent (t%d)", q.idx, q.kind, q.fired[0], q.termSent), map[string]interface{}{"params": params})
			return
		}
	}
	// PUBREL follows PUBREC
	pubrel := map[uint16]int{}
	for _, e := range s.srv.Log() {
		if e.P.Type == rc.PUBREL {
			pubrel[e.P.ID]++
		}
	}
	for id, nrec := range pubrecSent {
		if pubrel[id] != nrec {
			out.Violation("c12:pubrel", fmt.Sprintf("%d PUBREC(%d) sent, %d PUBREL(%d) received", nrec, id, pubrel[id], id), map[string]interface{}{"params": params})
			return
		}
	}
	for id := range pubrel {
		if pubrecSent[id] == 0 {
			out.Violation("c12:pubrel", fmt.Sprintf("PUBREL(%d) without PUBREC", id), map[string]interface{}{"params": params})
			return
		}
	}
	out.Count("c12.scripts", 1)
	out.Count("c12.requests", int64(len(reqs)))
	ks := map[string]bool{}
	for _, q := range reqs {
		ks[q.kind] = true
	}
	var kk []string
	for k := range ks {
		kk = append(kk, k)
	}
	sort.Strings(kk)
	out.Class(fmt.Sprintf("script/%s/forced%v/%s/n%d", order, forceRace, strings.Join(kk, ","), n/4))
	if idx%60 == 0 {
		tr := trace
		if len(tr) > 16 {
			tr = tr[:16]
		}
		out.Sample("c12", 3, map[string]interface{}{"params": params, "trace": tr})
	}
}

func forcedReq(rs []*c12Req) *c12Req {
	for _, q := range rs {
		if q.forced {
			return q
		}
	}
	return nil
}

var c12Orders = []string{"fifo", "reversed", "random", "delayed", "late-pubcomp", "random-dups"}

func TestC12Client(t *testing.T) {
	n := pick(360, 8000)
	for g := 0; g < n; g++ {
		id := fmt.Sprintf("c12/client/%d", g)
		if !mine(g) || !out.Only(id) {
			continue
		}
		seed := caseSeed("c12", g)
		order := c12Orders[g%len(c12Orders)]
		force := !raceEnabled && g%3 == 0
		out.Begin(id, seed, map[string]interface{}{"order": order, "forced": force})
		if !raceEnabled {
			newSink()
		}
		c12Script(g, seed, order, force)
		if left := noLibGoroutines(3 * time.Second); len(left) > 0 {
			out.Violation("c12:goroutines-left", fmt.Sprintf("%d library goroutines after Disconnect: %s", len(left), left[0].libTop()), nil)
		}
		out.End()
	}
}

// ---------------------------------------------------------------------------
// Broker-to-subscriber: identifiers of requests simultaneously in flight on one
// connection are non-zero and pairwise distinct, and PUBREC is answered by
// PUBREL with the same identifier.

func c12Broker(t *testing.T, idx int, seed uint64) {
	r := spec.NewRand(seed)
	npub := 2 + r.Intn(3)
	params := map[string]interface{}{"scenario": idx, "publishers": npub}
	var ops []string
	bubble(t, "c12", params, func(cl *cleanup) {
		w := newWorld(worldCfg{BufferSize: 65536})
		cl.add(w.shutdown)
		fail := func(sig, desc string) {
			out.Violation(sig, desc, map[string]interface{}{"params": params, "ops": ops})
		}
		sub, ack := w.connectB("sub", connectOpts{Clean: true, KeepAlive: 6000, Policy: rawclient.AckNone})
		if ack == nil {
			fail("c12:connect", "no CONNACK")
			return
		}
		if sa, _ := sub.subscribeB([]string{"b2s/#"}, []byte{2}); sa == nil {
			fail("c12:suback", "no SUBACK")
			return
		}
		var pubs []*bclient
		for i := 0; i < npub; i++ {
			p, a := w.connectB(fmt.Sprintf("pub%d", i), connectOpts{Clean: true, KeepAlive: 6000})
			if a == nil {
				fail("c12:connect", "no CONNACK")
				return
			}
			pubs = append(pubs, p)
		}
		retained := r.Intn(3) == 0
		var uids uidGen
		// every publisher uses the same small identifiers
		n := 2 + r.Intn(4)
		for k := 0; k < n; k++ {
			for i, p := range pubs {
				q := byte(1 + r.Intn(2))
				id := uint16(1 + k%2)
				ops = append(ops, fmt.Sprintf("pub%d PUBLISH id=%d q%d", i, id, q))
				p.SendPacket(&rc.Packet{Type: rc.PUBLISH, QoS: q, ID: id, Retain: retained && k == 0, Topic: []byte(fmt.Sprintf("b2s/%d/%d", i, k)), Payload: spec.MakePayload(uids.next(), 0, 40)})
				settle()
			}
		}
		// unacknowledged PUBLISH packets on the subscriber's inbound stream
		inflight := map[uint16]string{}
		var pubrecFor []uint16
		for _, e := range sub.fresh() {
			if e.P.Type != rc.PUBLISH || e.P.QoS == 0 {
				continue
			}
			out.Count("c12.b2s_inflight_checked", 1)
			if e.P.ID == 0 {
				fail("c12:b2s-packet-id-zero", "a QoS>0 PUBLISH forwarded to the subscriber carries packet identifier 0")
				return
			}
			if other, dup := inflight[e.P.ID]; dup {
				fail("c12:b2s-packet-id-duplicate", fmt.Sprintf("two unacknowledged PUBLISH packets on one connection share packet identifier %d: %s and %s (the forwarded packet keeps the identifier chosen by its publisher)", e.P.ID, other, string(e.P.Topic)))
				return
			}
			inflight[e.P.ID] = string(e.P.Topic)
			if e.P.QoS == 2 {
				pubrecFor = append(pubrecFor, e.P.ID)
			}
		}
		// PUBREC -> PUBREL with the same identifier
		for _, id := range pubrecFor {
			sub.SendPacket(&rc.Packet{Type: rc.PUBREC, ID: id})
			settle()
			got := sub.fresh()
			if len(got) != 1 || got[0].P.Type != rc.PUBREL || got[0].P.ID != id {
				fail("c12:b2s-pubrel", fmt.Sprintf("PUBREC(%d) was answered with %v", id, got))
				return
			}
		}
		out.Count("c12.b2s_scenarios", 1)
		out.Class(fmt.Sprintf("b2s/pubs%d/n%d/ret%v", npub, n, retained))
	})
}

func TestC12Broker(t *testing.T) {
	n := pick(200, 5000)
	for g := 0; g < n; g++ {
		id := fmt.Sprintf("c12/b2s/%d", g)
		if !mine(g) || !out.Only(id) {
			continue
		}
		seed := caseSeed("c12b", g)
		out.Begin(id, seed, nil)
		c12Broker(t, g, seed)
		out.End()
	}
}

// c12Burst: a few requests of one kind complete, then more requests of that
// kind than the ack queue's initial capacity are outstanding at once (the queue
// grows while its ring is wrapped), acknowledged in order: every completion
// must fire, in order, after its own acknowledgement.
func c12Burst(idx int, seed uint64) {
	r := spec.NewRand(seed)
	kind := []string{"pub1", "pub2", "sub", "unsub"}[idx%4]
	pre := 1 + r.Intn(11)
	burst := 17 + r.Intn(30)
	params := map[string]interface{}{"burst": idx, "kind": kind, "completed_first": pre, "outstanding": burst}
	s, err := openSession(nil, 0)
	if err != nil {
		out.Inconclusive("session: "+err.Error(), nil)
		return
	}
	defer s.closeAll()
	var mu sync.Mutex
	fired := map[int][]int64{}
	issue := func(i int) error {
		cb := func(msg, ack message.Message, err error) error {
			t := tick()
			mu.Lock()
			fired[i] = append(fired[i], t)
			mu.Unlock()
			return nil
		}
		switch kind {
		case "pub1", "pub2":
			m := message.NewPublishMessage()
			m.SetTopic([]byte(fmt.Sprintf("c12b/%d", i)))
			m.SetQoS(byte(kind[3] - '0'))
			m.SetPayload(spec.MakePayload(uint64(i+1), 0, 30))
			return s.cln.Publish(m, cb)
		case "sub":
			m := message.NewSubscribeMessage()
			m.AddTopic([]byte(fmt.Sprintf("c12b/s/%d", i)), 1)
			return s.cln.Subscribe(m, cb, func(*message.PublishMessage) error { return nil })
		}
		m := message.NewUnsubscribeMessage()
		m.AddTopic([]byte(fmt.Sprintf("c12b/s/%d", i)))
		return s.cln.Unsubscribe(m, cb)
	}
	wt, wq := wireType(kind)
	wirePackets := func(n int) []*rc.Packet {
		var ps []*rc.Packet
		s.srv.WaitFor(func(l []rawclient.Event, closed bool) bool {
			ps = ps[:0]
			for _, e := range l {
				if e.P.Type == wt && (wt != rc.PUBLISH || e.P.QoS == wq) {
					ps = append(ps, e.P)
				}
			}
			return len(ps) >= n
		}, 10*time.Second)
		return ps
	}
	ackOne := func(p *rc.Packet) int64 {
		if kind == "pub2" {
			s.srv.SendPacket(&rc.Packet{Type: rc.PUBREC, ID: p.ID})
		}
		t := tick()
		a := &rc.Packet{Type: terminalOf(kind), ID: p.ID}
		if a.Type == rc.SUBACK {
			a.Codes = []byte{1}
		}
		s.srv.SendPacket(a)
		return t
	}
	total := pre + burst
	sentAt := make([]int64, total)
	for i := 0; i < pre; i++ {
		if err := issue(i); err != nil {
			out.Violation("c12:request-error", err.Error(), params)
			return
		}
	}
	ps := wirePackets(pre)
	if len(ps) < pre {
		out.Violation("c12:wire", "requests missing on the wire", params)
		return
	}
	for i := 0; i < pre; i++ {
		sentAt[i] = ackOne(ps[i])
	}
	if !s.barrier(10 * time.Second) {
		out.Violation("c12:barrier", "no PINGRESP", params)
		return
	}
	for i := pre; i < total; i++ {
		if err := issue(i); err != nil {
			out.Violation("c12:request-error", err.Error(), params)
			return
		}
	}
	ps = wirePackets(total)
	if len(ps) < total {
		out.Violation("c12:wire", fmt.Sprintf("%d of %d requests on the wire", len(ps), total), params)
		return
	}
	ids := map[uint16]bool{}
	for _, p := range ps[pre:] {
		if p.ID == 0 || ids[p.ID] {
			out.Violation("c12:packet-id-duplicate", fmt.Sprintf("identifier %d zero or used twice among %d requests in flight", p.ID, burst), params)
			return
		}
		ids[p.ID] = true
	}
	for i := pre; i < total; i++ {
		sentAt[i] = ackOne(ps[i])
		// after each in-order acknowledgement the request must complete (all earlier ones are acknowledged)
		if !s.barrier(10 * time.Second) {
			out.Violation("c12:barrier", "no PINGRESP", params)
			return
		}
		mu.Lock()
		n := len(fired[i])
		mu.Unlock()
		if n != 1 {
			out.Violation("c12:completion-missing", fmt.Sprintf("%s request #%d of %d outstanding (after %d completed ones): acknowledged in order, completion fired %d times at the barrier", kind, i-pre, burst, pre, n), params)
			return
		}
	}
	mu.Lock()
	defer mu.Unlock()
	for i := 0; i < total; i++ {
		if len(fired[i]) != 1 || fired[i][0] < sentAt[i] {
			out.Violation("c12:completion-early", fmt.Sprintf("request %d: fired %v, ack sent at t%d", i, fired[i], sentAt[i]), params)
			return
		}
	}
	out.Count("c12.bursts", 1)
	out.Count("c12.requests", int64(total))
	out.Class(fmt.Sprintf("burst/%s/pre%d/n%d", kind, pre%8, burst/8))
}

func TestC12Burst(t *testing.T) {
	n := pick(48, 1200)
	for g := 0; g < n; g++ {
		id := fmt.Sprintf("c12/burst/%d", g)
		if !mine(g) || !out.Only(id) {
			continue
		}
		seed := caseSeed("c12u", g)
		out.Begin(id, seed, nil)
		c12Burst(g, seed)
		out.End()
	}
}
