package vrun

import (
	"fmt"
	"sort"
	"sync"
	"sync/atomic"
	"testing"
	"time"

	"github.com/anishathalye/porcupine"

	"verif/harness/out"
	"verif/harness/rawclient"
	rc "verif/harness/refcodec"
	"verif/harness/spec"
)

// Concurrent monitor for C01/C07: publishers stream numbered messages while
// subscribers subscribe and unsubscribe; every operation is logged at the client
// boundary (call before the first byte is queued, return when the ack has been
// read) from one monotonic counter, and the history of every (subscriber,
// topic) pair is checked with porcupine against the one-bit model "subscribed".

type c01In struct {
	key  string // subscriber|topic
	kind byte   // 's' subscribe, 'u' unsubscribe, 'p' publish
	seq  uint32
}

func c01Model() porcupine.Model {
	return porcupine.Model{
		Partition: func(h []porcupine.Operation) [][]porcupine.Operation {
			m := map[string][]porcupine.Operation{}
			var keys []string
			for _, o := range h {
				k := o.Input.(c01In).key
				if _, ok := m[k]; !ok {
					keys = append(keys, k)
				}
				m[k] = append(m[k], o)
			}
			sort.Strings(keys)
			var r [][]porcupine.Operation
			for _, k := range keys {
				r = append(r, m[k])
			}
			return r
		},
		Init: func() interface{} { return false },
		Step: func(st, in, outp interface{}) (bool, interface{}) {
			i := in.(c01In)
			switch i.kind {
			case 's':
				return true, true
			case 'u':
				return true, false
			}
			return outp.(bool) == st.(bool), st
		},
		DescribeOperation: func(in, outp interface{}) string {
			i := in.(c01In)
			switch i.kind {
			case 's':
				return "subscribe"
			case 'u':
				return "unsubscribe"
			}
			return fmt.Sprintf("publish#%d->delivered=%v", i.seq, outp)
		},
	}
}

func c01ConcRun(idx int, seed uint64) {
	r := spec.NewRand(seed)
	npub := 1 + r.Intn(2)
	nsub := 1 + r.Intn(3)
	nmsg := 25 + r.Intn(20)
	params := map[string]interface{}{"run": idx, "publishers": npub, "subscribers": nsub, "messages": nmsg}
	w := newWorld(worldCfg{BufferSize: 16384})
	defer w.unregister()
	raceYieldOn = raceEnabled
	defer func() { raceYieldOn = false }()
	var clk int64
	now := func() int64 { return atomic.AddInt64(&clk, 1) }
	var hmu sync.Mutex
	var hist []porcupine.Operation
	type pubRec struct {
		in        c01In
		call, ret int64
	}
	var pubs []pubRec // filled per (publish x subscriber) at the end
	var all []*rawclient.Client
	var amu sync.Mutex
	dial := func(name string) *rawclient.Client {
		c := w.dial(name, connectOpts{ClientID: name, Clean: true, KeepAlive: 600})
		amu.Lock()
		all = append(all, c)
		amu.Unlock()
		if c.WaitFor(func(l []rawclient.Event, closed bool) bool { return len(l) > 0 && l[0].P.Type == rc.CONNACK }, 20*time.Second) != nil {
			return nil
		}
		return c
	}
	defer func() {
		amu.Lock()
		for _, c := range all {
			c.Close()
		}
		amu.Unlock()
		func() { defer func() { recover() }(); w.svr.Close() }()
		noLibGoroutines(5 * time.Second)
	}()
	topic := func(p int) string { return fmt.Sprintf("cc/%d", p) }
	type pubCall struct {
		p         int
		seq       uint32
		call, ret int64
	}
	var pcalls []pubCall
	var pmu sync.Mutex
	var wg sync.WaitGroup
	inconcl := int32(0)
	// publishers
	for p := 0; p < npub; p++ {
		wg.Add(1)
		go func(p int) {
			defer wg.Done()
			pr := spec.NewRand(spec.Mix(seed, uint64(10+p)))
			c := dial(fmt.Sprintf("ccpub%d", p))
			if c == nil {
				atomic.StoreInt32(&inconcl, 1)
				return
			}
			var mine []int // indexes of this publisher's entries in pcalls
			for m := 1; m <= nmsg; m++ {
				id := uint16(m)
				call := now()
				c.SendPacket(&rc.Packet{Type: rc.PUBLISH, QoS: 1, ID: id, Topic: []byte(topic(p)), Payload: spec.MakePayload(uint64(p+1), uint32(m), 40)})
				want := m
				if c.WaitFor(func(l []rawclient.Event, closed bool) bool { return countType(l, rc.PUBACK) >= want }, 20*time.Second) != nil {
					atomic.StoreInt32(&inconcl, 1)
					return
				}
				// The broker writes the PUBACK before it fans the message out, so the publish may take
				// effect after its PUBACK was read. Fan-out is synchronous in the publisher's processor:
				// it is certainly over when the NEXT packet of this publisher has been answered. The
				// return stamp of publish m is therefore taken when publish m+1 (or the final PINGREQ)
				// is acknowledged.
				ret := now()
				pmu.Lock()
				if n := len(mine); n > 0 {
					pcalls[mine[n-1]].ret = ret
				}
				mine = append(mine, len(pcalls))
				pcalls = append(pcalls, pubCall{p, uint32(m), call, 0})
				pmu.Unlock()
				if pr.Intn(3) == 0 {
					time.Sleep(time.Duration(pr.Intn(200)) * time.Microsecond)
				}
			}
			c.SendPacket(&rc.Packet{Type: rc.PINGREQ})
			if c.WaitFor(func(l []rawclient.Event, closed bool) bool { return countType(l, rc.PINGRESP) >= 1 }, 20*time.Second) != nil {
				atomic.StoreInt32(&inconcl, 1)
				return
			}
			ret := now()
			pmu.Lock()
			if n := len(mine); n > 0 {
				pcalls[mine[n-1]].ret = ret
			}
			pmu.Unlock()
		}(p)
	}
	// subscribers
	subs := make([]*rawclient.Client, nsub)
	for s := 0; s < nsub; s++ {
		wg.Add(1)
		go func(s int) {
			defer wg.Done()
			sr := spec.NewRand(spec.Mix(seed, uint64(20+s)))
			c := dial(fmt.Sprintf("ccsub%d", s))
			if c == nil {
				atomic.StoreInt32(&inconcl, 1)
				return
			}
			subs[s] = c
			var id idGen
			nack := 0
			for k := 0; k < 10+sr.Intn(10); k++ {
				p := sr.Intn(npub)
				key := fmt.Sprintf("%d|%d", s, p)
				kind := byte('s')
				pk := &rc.Packet{Type: rc.SUBSCRIBE, ID: id.next(), Filters: [][]byte{[]byte(topic(p))}, QoSs: []byte{byte(sr.Intn(2))}}
				if sr.Intn(5) < 2 {
					kind = 'u'
					pk = &rc.Packet{Type: rc.UNSUBSCRIBE, ID: id.next(), Filters: [][]byte{[]byte(topic(p))}}
				}
				call := now()
				c.SendPacket(pk)
				nack++
				want := nack
				if c.WaitFor(func(l []rawclient.Event, closed bool) bool {
					return countType(l, rc.SUBACK)+countType(l, rc.UNSUBACK) >= want
				}, 20*time.Second) != nil {
					atomic.StoreInt32(&inconcl, 1)
					return
				}
				ret := now()
				hmu.Lock()
				hist = append(hist, porcupine.Operation{ClientId: s, Input: c01In{key: key, kind: kind}, Call: call, Output: false, Return: ret})
				hmu.Unlock()
				time.Sleep(time.Duration(sr.Intn(400)) * time.Microsecond)
			}
		}(s)
	}
	wg.Wait()
	if atomic.LoadInt32(&inconcl) != 0 {
		out.Inconclusive("a client did not get its acknowledgement in time", params)
		return
	}
	// barrier on each subscriber, then fill in the publish outputs
	for s, c := range subs {
		c.SendPacket(&rc.Packet{Type: rc.PINGREQ})
		if c.WaitFor(func(l []rawclient.Event, closed bool) bool { return countType(l, rc.PINGRESP) >= 1 }, 20*time.Second) != nil {
			out.Inconclusive("no PINGRESP at the final barrier", params)
			return
		}
		if ferr := c.FrameErr(); ferr != nil {
			out.Violation("c01:framing", ferr.Error(), params)
			return
		}
		got := map[[2]uint32]int{}
		for _, e := range c.Log() {
			if e.P.Type == rc.PUBLISH {
				uid, seq, ok := spec.ParsePayload(e.P.Payload)
				if !ok {
					out.Violation("c01:payload", "corrupted payload at a subscriber", params)
					return
				}
				got[[2]uint32{uint32(uid - 1), seq}]++
			}
		}
		for k, n := range got {
			if n > 1 {
				out.Violation("c01:too-many-copies", fmt.Sprintf("subscriber %d received publish #%d of publisher %d %d times with a single subscription", s, k[1], k[0], n), params)
				return
			}
		}
		for _, pc := range pcalls {
			key := fmt.Sprintf("%d|%d", s, pc.p)
			hist = append(hist, porcupine.Operation{ClientId: nsub + pc.p, Input: c01In{key: key, kind: 'p', seq: pc.seq}, Call: pc.call, Output: got[[2]uint32{uint32(pc.p), pc.seq}] > 0, Return: pc.ret})
		}
	}
	_ = pubs
	res, info := porcupine.CheckOperationsVerbose(c01Model(), hist, 60*time.Second)
	_ = info
	out.Count("c01.conc.histories", 1)
	out.Count("c01.conc.ops", int64(len(hist)))
	switch res {
	case porcupine.Illegal:
		// show the partition that fails
		m := c01Model()
		var bad []string
		for _, part := range m.Partition(hist) {
			if porcupine.CheckOperations(porcupine.Model{Init: m.Init, Step: m.Step}, part) {
				continue
			}
			sort.Slice(part, func(a, b int) bool { return part[a].Call < part[b].Call })
			for _, o := range part {
				bad = append(bad, fmt.Sprintf("[%d,%d] %s", o.Call, o.Return, m.DescribeOperation(o.Input, o.Output)))
			}
			break
		}
		if len(bad) > 80 {
			bad = bad[:80]
		}
		out.Violation("c01:not-linearizable", "the history of one (subscriber, topic) pair cannot be explained by any order of subscribe/unsubscribe/publish consistent with the observed call/return times: a publish accepted after the SUBACK was not delivered, or one accepted after the UNSUBACK was", map[string]interface{}{"params": params, "partition_history": bad})
	case porcupine.Unknown:
		out.Inconclusive("porcupine timed out", params)
	default:
		out.Class(fmt.Sprintf("conc/p%d/s%d/n%d", npub, nsub, nmsg/10))
	}
	if idx < 2 {
		out.Sample("c01.conc", 2, map[string]interface{}{"params": params, "operations": len(hist)})
	}
}

func TestC01Conc(t *testing.T) {
	n := pick(200, 10000)
	if raceEnabled {
		n = pick(60, 2000)
	}
	for g := 0; g < n; g++ {
		id := fmt.Sprintf("c01/conc/%d", g)
		if !mine(g) || !out.Only(id) {
			continue
		}
		seed := caseSeed("c01c", g)
		out.Begin(id, seed, nil)
		c01ConcRun(g, seed)
		out.End()
	}
}
