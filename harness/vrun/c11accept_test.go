package vrun

import (
	"fmt"
	"testing"
	"time"

	"verif/harness/out"
	"verif/harness/rawclient"
	rc "verif/harness/refcodec"
	"verif/harness/spec"
)

// TestC11Accept: connections on which no CONNECT has been accepted (silent, half a
// CONNECT, a bare fixed header, a PUBLISH header without its body) must have no
// effect on other clients - including on a client that connects while they are
// pending. The broker runs as a separate process behind a real listener
// (ListenAndServe on 127.0.0.1, connect timeout 1 s), so the accept loop is part
// of what is observed. While 1..3 such connections are held open a new client
// sends an acceptable CONNECT; its CONNACK 0 must arrive while the stalled
// connections are still pending. The clock is the broker itself: the verdict is
// taken once an already connected witness has completed five PINGREQ/PINGRESP
// round trips after the CONNECT was written (and 200 ms have passed).
func c11Accept(batchID int, seed uint64) {
	r := spec.NewRand(seed)
	b, err := startBroker(fmt.Sprintf("acc%d", batchID))
	if err != nil {
		out.Inconclusive("broker start: "+err.Error(), nil)
		return
	}
	defer b.kill()
	wit, err := b.connect(uniqueCID("accwit"), connectOpts{Clean: true, KeepAlive: 600})
	if err != nil {
		out.Inconclusive("witness: "+err.Error(), nil)
		return
	}
	defer wit.Close()
	pings := 0
	ping := func() bool {
		pings++
		n := pings
		wit.SendPacket(&rc.Packet{Type: rc.PINGREQ})
		return wit.WaitFor(func(l []rawclient.Event, closed bool) bool { return countType(l, rc.PINGRESP) >= n }, 10*time.Second) == nil
	}
	valid := rc.Encode(connectPacket(connectOpts{ClientID: "acc-stalled", Clean: true, KeepAlive: 60}))
	stalls := map[string][]byte{
		"silent":                 nil,
		"half-connect":           valid[:len(valid)/2],
		"fixed-header-only":      valid[:2],
		"publish-header-no-body": {0x30, 0x20, 0x00, 0x03},
		"one-byte":               valid[:1],
	}
	kinds := []string{"silent", "half-connect", "fixed-header-only", "publish-header-no-body", "one-byte"}
	rounds := pick(12, 60)
	for rd := 0; rd < rounds; rd++ {
		id := fmt.Sprintf("c11/accept/%d/%d", batchID, rd)
		if !out.Only(id) {
			continue
		}
		k := 1 + r.Intn(3)
		kind := kinds[r.Intn(len(kinds))]
		params := map[string]interface{}{"stalled_connections": k, "kind": kind}
		out.Begin(id, seed, params)
		var held []*rawclient.Client
		for i := 0; i < k; i++ {
			c, err := b.dial(fmt.Sprintf("stall%d", i), nil)
			if err != nil {
				out.Inconclusive("dial: "+err.Error(), params)
				break
			}
			if pre := stalls[kind]; len(pre) > 0 {
				c.Send(pre)
				c.Flush()
			}
			held = append(held, c)
		}
		// the stalled connections have reached the broker when the witness has been answered once more
		if !ping() {
			out.Violation("c11:accept:witness-stuck", "an established client gets no PINGRESP while unaccepted connections are pending", params)
			out.End()
			return
		}
		nc, err := b.dial("fresh", nil)
		if err != nil {
			out.Inconclusive("dial: "+err.Error(), params)
			out.End()
			return
		}
		nc.SendPacket(connectPacket(connectOpts{ClientID: uniqueCID("accfresh"), Clean: true, KeepAlive: 60}))
		nc.Flush()
		t0 := time.Now()
		answered := func() bool { l := nc.Log(); return len(l) > 0 && l[0].P.Type == rc.CONNACK && l[0].P.ReturnCode == 0 }
		trips := 0
		for !answered() && (trips < 5 || time.Since(t0) < 200*time.Millisecond) {
			if !ping() {
				break
			}
			trips++
		}
		waited := time.Since(t0).Round(time.Millisecond)
		if !answered() {
			// give the answer until the stalled connections time out (1 s) to tell "late" from "never"
			nc.WaitFor(func(l []rawclient.Event, closed bool) bool { return len(l) > 0 || closed }, 5*time.Second)
			late := "it never came"
			if answered() {
				late = fmt.Sprintf("it came after %v, when the stalled connections had been dropped", time.Since(t0).Round(10*time.Millisecond))
			}
			out.Violation("c11:accept:blocked-by-unaccepted:"+kind, fmt.Sprintf("%d connection(s) of kind %q were pending (no CONNECT accepted on them); a new client's acceptable CONNECT was not answered while an established client completed %d PINGREQ/PINGRESP round trips (%v): %s", k, kind, trips, waited, late), params)
			nc.Close()
			for _, c := range held {
				c.Close()
			}
			out.End()
			return
		}
		nc.SendPacket(&rc.Packet{Type: rc.DISCONNECT})
		nc.Flush()
		nc.Close()
		for _, c := range held {
			c.Close()
		}
		out.Count("c11.accept_rounds", 1)
		out.Count("c11.accept_stalled_connections", int64(k))
		out.Class("accept/" + kind + fmt.Sprintf("/k%d", k))
		out.End()
	}
	if !b.alive() {
		out.Violation("c11:accept:broker-died", "the broker process exited: "+b.stderrHead(), nil)
	}
}

func TestC11Accept(t *testing.T) {
	c11Accept(batch, caseSeed("c11acc", batch))
}
