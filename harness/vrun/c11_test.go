package vrun

import (
	"bytes"
	"fmt"
	"strings"
	"testing"
	"time"

	"github.com/mdzio/go-mqtt/auth"

	"verif/harness/out"
	"verif/harness/rawclient"
	rc "verif/harness/refcodec"
	"verif/harness/spec"
)

// vauth accepts exactly user "good" with password "pw".
type vauth struct{}

func (vauth) Authenticate(id string, cred interface{}) error {
	if id == "good" && fmt.Sprint(cred) == "pw" {
		return nil
	}
	return auth.ErrAuthFailure
}

func init() { auth.Register("vauth", vauth{}) }

// firstPacket is one generated first packet with what the specification
// allows as an answer.
type firstPacket struct {
	desc    string
	bytes   []byte
	accept  bool   // CONNACK 0 expected
	either  bool   // CONNACK 0 or refusal both acceptable (server policy, e.g. long client ids)
	codes   []byte // acceptable non-zero CONNACK codes before the close (may also close silently if silentOK)
	silent  bool   // closing without CONNACK is acceptable
	cid     string
	isClean bool
}

func genFirstPackets(r *spec.Rand, authn string) []firstPacket {
	var fps []firstPacket
	credOK := func(user, pass string) bool {
		switch authn {
		case "mockSuccess":
			return true
		case "mockFailure":
			return false
		}
		return user == "good" && pass == "pw"
	}
	// --- every non-CONNECT packet type as first packet
	others := []*rc.Packet{
		{Type: rc.CONNACK}, {Type: rc.PUBLISH, Topic: []byte("tail/first"), Payload: []byte("x"), Retain: true},
		{Type: rc.PUBACK, ID: 1}, {Type: rc.PUBREC, ID: 1}, {Type: rc.PUBREL, ID: 1}, {Type: rc.PUBCOMP, ID: 1},
		{Type: rc.SUBSCRIBE, ID: 1, Filters: [][]byte{[]byte("#")}, QoSs: []byte{0}}, {Type: rc.SUBACK, ID: 1, Codes: []byte{0}},
		{Type: rc.UNSUBSCRIBE, ID: 1, Filters: [][]byte{[]byte("#")}}, {Type: rc.UNSUBACK, ID: 1},
		{Type: rc.PINGREQ}, {Type: rc.PINGRESP}, {Type: rc.DISCONNECT},
	}
	for _, p := range others {
		fps = append(fps, firstPacket{desc: "first=" + rc.TypeName(p.Type), bytes: rc.Encode(p), silent: true})
	}
	fps = append(fps, firstPacket{desc: "first=reserved0", bytes: []byte{0x00, 0x00}, silent: true},
		firstPacket{desc: "first=reserved15", bytes: []byte{0xf0, 0x00}, silent: true},
		firstPacket{desc: "first=garbage", bytes: r.Bytes(1 + r.Intn(40)), silent: true, codes: []byte{1, 2, 4, 5}})
	// --- CONNECT product
	type proto struct {
		name  string
		level byte
		ok    bool
	}
	protos := []proto{{"MQTT", 4, true}, {"MQIsdp", 3, true}, {"MQTT", 5, false}, {"MQTT", 3, false}, {"MQIsdp", 4, false}, {"MQTX", 4, false}, {"MQTT", 0, false}, {"", 4, false}}
	type cidT struct {
		id     string
		kind   string // ok, empty, long, nonprint
		policy bool
	}
	cids := []cidT{{"cid-ok", "ok", false}, {"", "empty", false}, {strings.Repeat("L", 33), "long", true}, {strings.Repeat("x", 200), "long", true}, {"bad\x01id", "nonprint", true}, {"späce", "nonprint", true}, {strings.Repeat("m", 23), "ok", false}}
	type credT struct {
		user, pass string
		emptyUser  bool // User Name flag set, zero-length user name (legal in 3.1.1)
	}
	creds := []credT{{"", "", false}, {"good", "pw", false}, {"good", "wrong", false}, {"evil", "pw", false}, {"good", "", false}, {"", "", true}}
	n := 0
	for _, pr := range protos {
		for _, ci := range cids {
			for _, clean := range []bool{true, false} {
				for _, cr := range creds {
					for will := 0; will < 3; will++ {
						n++
						if !pr.ok && (n%3 != 0) {
							continue // thin out the invalid-protocol corner
						}
						if will > 0 && n%2 == 0 {
							continue
						}
						// keep-alive 0 and an empty client id make the broker rewrite the decoded CONNECT before it keeps it
						ka := uint16(60)
						if n%4 == 1 {
							ka = 0
						}
						p := &rc.Packet{Type: rc.CONNECT, ProtoName: pr.name, Level: pr.level, CleanSession: clean, KeepAlive: ka, ClientID: []byte(ci.id)}
						if cr.emptyUser {
							p.HasUser, p.User = true, []byte{}
						}
						if cr.user != "" {
							p.HasUser, p.User = true, []byte(cr.user)
							if cr.pass != "" {
								p.HasPass, p.Pass = true, []byte(cr.pass)
							}
						}
						if will > 0 {
							p.HasWill, p.WillTopic, p.WillMsg, p.WillQoS = true, []byte("will/c11"), []byte("w"), byte(will-1)
						}
						fp := firstPacket{desc: fmt.Sprintf("CONNECT %s/%d cid=%s clean=%v user=%q pass=%q will=%d ka=%d userflag=%v", pr.name, pr.level, ci.kind, clean, cr.user, cr.pass, will, ka, cr.emptyUser || cr.user != ""), bytes: rc.Encode(p), cid: ci.id, isClean: clean}
						var reasons []byte
						if !pr.ok {
							reasons = append(reasons, 1)
						}
						idBad := ci.kind == "empty" && !clean
						if idBad {
							reasons = append(reasons, 2)
						}
						if !credOK(cr.user, cr.pass) {
							reasons = append(reasons, 4)
						}
						switch {
						case len(reasons) == 0 && !ci.policy:
							fp.accept = true
						case len(reasons) == 0 && ci.policy:
							fp.either, fp.codes = true, []byte{2}
						default:
							fp.codes = reasons
							if ci.policy {
								fp.codes = append(fp.codes, 2)
							}
							if !pr.ok {
								fp.silent = true // an unknown protocol name may also be treated as not-MQTT
							}
						}
						fps = append(fps, fp)
					}
				}
			}
		}
	}
	// --- large but legal CONNECTs (a will message / password of up to 64 KiB arrives in several reads)
	for _, sz := range []int{5000, 65535} {
		p := &rc.Packet{Type: rc.CONNECT, ProtoName: "MQTT", Level: 4, CleanSession: true, KeepAlive: 60, ClientID: []byte("cid-big"),
			HasWill: true, WillTopic: []byte("will/c11/" + strings.Repeat("t", 300)), WillMsg: bytes.Repeat([]byte{'w'}, sz), HasUser: true, User: []byte("good"), HasPass: true, Pass: []byte("pw")}
		fp := firstPacket{desc: fmt.Sprintf("CONNECT MQTT/4 big will=%d", sz), bytes: rc.Encode(p), cid: "cid-big", isClean: true}
		if credOK("good", "pw") {
			fp.accept = true
		} else {
			fp.codes = []byte{4}
		}
		fps = append(fps, fp)
	}
	// --- malformed CONNECTs
	base := rc.Encode(&rc.Packet{Type: rc.CONNECT, ProtoName: "MQTT", Level: 4, CleanSession: true, KeepAlive: 60, ClientID: []byte("mal"), HasWill: true, WillTopic: []byte("will/c11"), WillMsg: []byte("w"), HasUser: true, User: []byte("good"), HasPass: true, Pass: []byte("pw")})
	mal := func(desc string, b []byte) {
		fps = append(fps, firstPacket{desc: "malformed CONNECT: " + desc, bytes: b, silent: true, codes: []byte{1, 2, 4, 5}})
	}
	flagsAt := 2 + 6 + 1
	for _, fl := range []byte{0x01, 0x18 | 0x04 | 0x02, 0x08, 0x20, 0x10 | 0x02, 0x40 | 0x02 | 0x04} {
		b := append([]byte{}, base...)
		b[flagsAt] = fl
		desc := fmt.Sprintf("connect flags %#02x", fl)
		mal(desc, b)
	}
	for i := 1; i < len(base); i += 1 + len(base)/12 {
		// truncated: remaining length says more than is sent, then the tail follows
		mal(fmt.Sprintf("body cut to %d bytes", i), base[:i])
	}
	// well-framed short CONNECTs: the fixed header announces exactly the first k body bytes (the
	// decoder sees a complete packet that ends inside a field), for every k
	body := base[2:]
	afterWill := 6 + 1 + 1 + 2 + (2 + 3) + (2 + 8) + (2 + 1) // body bytes up to and including the will message
	afterUser := afterWill + 2 + 4
	for k := 0; k < len(body); k++ {
		mal(fmt.Sprintf("framed to its first %d body bytes", k), append([]byte{0x10, byte(k)}, body[:k]...))
		if k == afterWill || k == afterUser {
			// the packet ends where a credential string whose flag is set should begin: MQTT 3.1 told
			// servers to allow that ("the Remaining Length takes precedence over the flag"), and the
			// library applies that rule to both protocol levels; accepted or refused, both are taken
			fps[len(fps)-1].either = true
		}
	}
	short := append([]byte{}, base...)
	short[1] -= 3
	mal("remaining length 3 too small", short)
	long := append([]byte{}, base...)
	long[1] += 3
	mal("remaining length 3 too large", long)
	mal("remaining length 5 bytes", append([]byte{0x10, 0xff, 0xff, 0xff, 0xff, 0x01}, base[2:]...))
	mal("flags nibble 1", append([]byte{0x11}, base[1:]...))
	cidLen := append([]byte{}, base...)
	cidLen[2+6+1+1+2] = 0xff
	mal("client id length 0xff..", cidLen)
	return fps
}

// c11Pieces cuts a first packet the way a network may: frag 0 = one write, 1 = two
// pieces, 2 = byte by byte (up to 80 bytes) or three pieces; the broker has consumed
// each piece (every goroutine parked) before the next one is written.
func c11Pieces(b []byte, frag, idx int) [][]byte {
	if frag == 0 || len(b) < 2 {
		return [][]byte{b}
	}
	if frag == 1 {
		cut := 1 + (idx*7919)%(len(b)-1)
		return [][]byte{b[:cut], b[cut:]}
	}
	if len(b) <= 80 {
		var ps [][]byte
		for i := range b {
			ps = append(ps, b[i:i+1])
		}
		return ps
	}
	c1 := 1 + (idx*104729)%(len(b)-1)
	c2 := 1 + (idx*1299709)%(len(b)-1)
	if c1 > c2 {
		c1, c2 = c2, c1
	}
	if c1 == c2 {
		return [][]byte{b[:c1], b[c1:]}
	}
	return [][]byte{b[:c1], b[c1:c2], b[c2:]}
}

func c11Run(t *testing.T, authn string, fp firstPacket, idx, frag int) {
	hx := hex(fp.bytes)
	if len(hx) > 400 {
		hx = hx[:400] + "..."
	}
	params := map[string]interface{}{"authenticator": authn, "first": fp.desc, "bytes": hx, "pieces": len(c11Pieces(fp.bytes, frag, idx))}
	bubble(t, "c11", params, func(cl *cleanup) {
		w := newWorld(worldCfg{BufferSize: 16384, ConnectTimeout: 2, Authenticator: authn})
		cl.add(w.shutdown)
		fail := func(sig, desc string) { out.Violation(sig, desc, params) }
		// the witness needs credentials that pass
		wo := connectOpts{Clean: true, KeepAlive: 6000, User: "good", Pass: "pw"}
		var wit *bclient
		if authn != "mockFailure" {
			var ack *rc.Packet
			wit, ack = w.connectB("witness", wo)
			if ack == nil || ack.ReturnCode != 0 {
				fail("c11:witness", "witness could not connect")
				return
			}
			if sa, _ := wit.subscribeB([]string{"#"}, []byte{1}); sa == nil {
				fail("c11:witness", "witness could not subscribe")
				return
			}
		}
		c := &bclient{Client: rawclient.New("subject", w.pipe(), rawclient.AckNone), name: "subject", subs: map[string]byte{}}
		tail := [][]byte{
			rc.Encode(&rc.Packet{Type: rc.SUBSCRIBE, ID: 10, Filters: [][]byte{[]byte("#")}, QoSs: []byte{0}}),
			rc.Encode(&rc.Packet{Type: rc.PUBLISH, Topic: []byte("tail/retained"), Retain: true, Payload: spec.MakePayload(9001, 0, 40)}),
			rc.Encode(&rc.Packet{Type: rc.PUBLISH, Topic: []byte("tail/plain"), Payload: spec.MakePayload(9002, 0, 40)}),
		}
		pieces := c11Pieces(fp.bytes, frag, idx)
		for k, pc := range pieces {
			c.Send(pc)
			if k < len(pieces)-1 {
				settle()
			}
		}
		if len(pieces) > 1 {
			out.Count("c11.fragmented_first_packets", 1)
		}
		stream := append([]byte{}, fp.bytes...)
		for _, b := range tail {
			c.Send(b)
			stream = append(stream, b...)
		}
		// A cut CONNECT is completed by the bytes that follow it: if what the
		// broker reads happens to be a well-formed CONNECT, accepting it is right.
		if !fp.accept {
			if p, n, err := rc.Decode(stream); err == nil && p.Type == rc.CONNECT && n != len(fp.bytes) {
				fp.either, fp.silent, fp.codes = true, true, []byte{1, 2, 4, 5}
				fp.cid = ""
			}
		}
		settle()
		evs := c.fresh()
		// a first packet that leaves the broker waiting for more bytes is ended by the connect timeout
		if !c.Closed() && len(evs) == 0 {
			time.Sleep(3 * time.Second)
			settle()
			evs = c.fresh()
			out.Count("c11.waited_for_connect_timeout", 1)
		}
		var connack *rc.Packet
		if len(evs) > 0 && evs[0].P.Type == rc.CONNACK {
			connack = evs[0].P
		}
		if err := c.FrameErr(); err != nil {
			fail("c11:framing", "malformed bytes from the broker: "+err.Error())
			return
		}
		accepted := connack != nil && connack.ReturnCode == 0
		res := "closed-silently"
		if connack != nil {
			res = fmt.Sprintf("connack%d", connack.ReturnCode)
		}
		switch {
		case fp.accept && !accepted:
			fail("c11:refused-acceptable", fmt.Sprintf("an acceptable CONNECT was answered with %s (closed=%v)", res, c.Closed()))
			return
		case !fp.accept && !fp.either && accepted:
			fail("c11:accepted-unacceptable", fmt.Sprintf("first packet %q was answered with CONNACK 0", fp.desc))
			return
		}
		if !accepted {
			if !c.Closed() {
				fail("c11:not-closed", fmt.Sprintf("connection still open after %s", res))
				return
			}
			if connack == nil && !fp.silent {
				fail("c11:no-connack", fmt.Sprintf("expected a CONNACK with one of %v before the close, connection was closed silently", fp.codes))
				return
			}
			if connack != nil && !strings.Contains(string(fp.codes), string([]byte{connack.ReturnCode})) {
				fail("c11:wrong-code", fmt.Sprintf("CONNACK code %d, applicable refusal reasons %v", connack.ReturnCode, fp.codes))
				return
			}
			if connack != nil && connack.SessionPresent {
				fail("c11:session-present-on-refusal", "refusal CONNACK with SessionPresent=1")
				return
			}
			if len(evs) > 1 {
				fail("c11:packets-after-refusal", fmt.Sprintf("%d packets followed the refusal", len(evs)-1))
				return
			}
			// nothing sent on the refused connection had any effect
			if wit != nil {
				if got := publishesIn(wit.fresh()); len(got) > 0 {
					fail("c11:effect-on-others", fmt.Sprintf("a witness subscribed to '#' received %v from a connection that was never accepted", got))
					return
				}
				fs, fa := w.connectB("fresh", wo)
				if fa == nil {
					fail("c11:witness", "fresh client could not connect")
					return
				}
				sa, rest := fs.subscribeB([]string{"#"}, []byte{0})
				if sa == nil || len(publishesIn(rest)) > 0 {
					fail("c11:effect-on-retained", fmt.Sprintf("after a refused connection a fresh subscriber got %v", publishesIn(rest)))
					return
				}
				fs.Close()
				if fp.cid != "" && len(fp.cid) <= 23 && !strings.ContainsAny(fp.cid, "\x01ä") {
					again, aa := w.connectB("again", connectOpts{ClientID: fp.cid, Clean: false, KeepAlive: 600, User: "good", Pass: "pw"})
					if aa == nil || aa.ReturnCode != 0 {
						fail("c11:witness", "follow-up CONNECT failed")
						return
					}
					if aa.SessionPresent {
						fail("c11:effect-on-sessions", "a session exists for the client id of a connection that was never accepted")
						return
					}
					again.Close()
				}
				settle()
			}
		} else {
			// accepted: the tail must have taken effect (sanity of the observation path)
			if wit != nil {
				got := publishesIn(wit.fresh())
				if len(got) != 2 {
					fail("c11:accepted-tail", fmt.Sprintf("witness saw %d of the 2 publishes sent after an accepted CONNECT", len(got)))
					return
				}
			}
			if countType(evs, rc.SUBACK) != 1 {
				fail("c11:accepted-tail", "no SUBACK for the SUBSCRIBE sent after an accepted CONNECT")
				return
			}
		}
		out.Count("c11.first_packets", 1)
		kind := strings.SplitN(fp.desc, " ", 2)[0]
		if strings.HasPrefix(fp.desc, "CONNECT") {
			f := strings.Fields(fp.desc)
			kind = strings.Join(f[:3], " ")
		}
		out.Class(fmt.Sprintf("%s/%s/%s/f%d", authn, kind, res, frag))
		if idx%97 == 0 {
			out.Sample("c11", 4, map[string]interface{}{"authenticator": authn, "first": fp.desc, "answer": res})
		}
	})
}

func TestC11(t *testing.T) {
	i := 0
	for _, authn := range []string{"mockSuccess", "mockFailure", "vauth"} {
		r := spec.NewRand(caseSeed("c11", 0))
		fps := genFirstPackets(r, authn)
		reps := 3 // whole, two pieces, byte by byte / three pieces
		for rep := 0; rep < reps; rep++ {
			for k, fp := range fps {
				i++
				id := fmt.Sprintf("c11/%s/%d/f%d", authn, k, rep)
				if !mine(i) || !out.Only(id) {
					continue
				}
				out.Begin(id, 0, map[string]interface{}{"first": fp.desc})
				c11Run(t, authn, fp, i, rep)
				out.End()
			}
		}
	}
	// no CONNECT at all, and partial CONNECTs followed by silence: closed at the connect timeout
	for k, pre := range [][]byte{nil, {0x10}, {0x10, 0x20}, {0x10, 0x20, 0x00, 0x04, 'M', 'Q'}} {
		id := fmt.Sprintf("c11/silence/%d", k)
		if !mine(k) || !out.Only(id) {
			continue
		}
		out.Begin(id, 0, nil)
		bubble(t, "c11", nil, func(cl *cleanup) {
			w := newWorld(worldCfg{ConnectTimeout: 2})
			cl.add(w.shutdown)
			c := rawclient.New("silent", w.pipe(), nil)
			if len(pre) > 0 {
				c.Send(pre)
			}
			t0 := time.Now()
			settle()
			if c.Closed() {
				out.Violation("c11:closed-early", "connection closed before the connect timeout", nil)
				return
			}
			time.Sleep(1900 * time.Millisecond)
			settle()
			early := c.Closed()
			time.Sleep(2 * time.Second)
			settle()
			if !c.Closed() {
				out.Violation("c11:connect-timeout", fmt.Sprintf("a connection that sent %d bytes and then nothing is still open %v after it was made (ConnectTimeout 2s)", len(pre), time.Since(t0)), nil)
			} else if early {
				out.Violation("c11:closed-early", "closed before the connect timeout elapsed", nil)
			}
			out.Count("c11.silence_cases", 1)
			out.Class(fmt.Sprintf("silence/%d", len(pre)))
		})
		out.End()
	}
}
