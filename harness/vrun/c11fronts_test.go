package vrun

import (
	"fmt"
	"strings"
	"testing"
	"time"

	"verif/harness/out"
	"verif/harness/rawclient"
	rc "verif/harness/refcodec"
)

// TestC11Fronts: first packets the broker must refuse, sent through each of the library's own ways
// in (TCP accept loop, TLS accept loop, websocket proxy). The client stays silent afterwards: the
// refusal itself must end the connection as the client sees it - behind the websocket proxy that
// means the proxy has to pass the broker's close on. An accepted client on the same front is the
// control (it must stay connected and be answered), and a witness subscribed to '#' must see
// nothing of the refused connections' tails. At the end the front is shut down with the C16 demands.
func c11Front(kind string) {
	params := map[string]interface{}{"front": kind}
	fail := func(sig, desc string) { out.Violation(sig, desc, params) }
	w := newWorld(worldCfg{BufferSize: 16384, ConnectTimeout: 2})
	defer w.unregister()
	fr, err := openFront(w, kind)
	if err != nil {
		out.Inconclusive("front "+kind+": "+err.Error(), params)
		return
	}
	dial := func(name string) *rawclient.Client {
		c, err := fr.dial()
		if err != nil {
			out.Inconclusive("front "+kind+": dial: "+err.Error(), params)
			return nil
		}
		return rawclient.New(name, c, nil)
	}
	const wait = 10 * time.Second
	wit := dial("witness")
	if wit == nil {
		return
	}
	wit.SendPacket(connectPacket(connectOpts{ClientID: uniqueCID("c11fw"), Clean: true, KeepAlive: 600}))
	wit.SendPacket(&rc.Packet{Type: rc.SUBSCRIBE, ID: 1, Filters: [][]byte{[]byte("#")}, QoSs: []byte{1}})
	if wit.WaitFor(func(l []rawclient.Event, closed bool) bool { return countType(l, rc.SUBACK) >= 1 || closed }, wait) != nil || wit.Closed() {
		fail("c11:front:accepted-not-served:"+strings.TrimSuffix(kind, "12"), "an acceptable client that came through the "+kind+" front got no CONNACK / SUBACK")
		return
	}
	tail := []*rc.Packet{
		{Type: rc.SUBSCRIBE, ID: 2, Filters: [][]byte{[]byte("#")}, QoSs: []byte{0}},
		{Type: rc.PUBLISH, Topic: []byte("c11/front/tail"), Payload: []byte("must not be seen"), Retain: true},
	}
	type refusal struct {
		name  string
		first []byte
		code  int // expected CONNACK code before the close, -1: none required
	}
	level5 := rc.Encode(&rc.Packet{Type: rc.CONNECT, ProtoName: "MQTT", Level: 5, CleanSession: true, KeepAlive: 60, ClientID: []byte("lvl5")})
	emptyID := rc.Encode(&rc.Packet{Type: rc.CONNECT, ProtoName: "MQTT", Level: 4, CleanSession: false, KeepAlive: 60, ClientID: []byte{}})
	refusals := []refusal{
		{"PINGREQ first", []byte{0xc0, 0x00}, -1},
		{"SUBSCRIBE first", rc.Encode(&rc.Packet{Type: rc.SUBSCRIBE, ID: 1, Filters: [][]byte{[]byte("#")}, QoSs: []byte{0}}), -1},
		{"CONNECT protocol level 5", level5, 1},
		{"CONNECT empty identifier with CleanSession=0", emptyID, 2},
		{"garbage", []byte{0xff, 0xff, 0xff, 0xff, 0x7f, 1, 2, 3}, -1},
		{"nothing at all (connect timeout 2 s)", nil, -1},
	}
	for _, rf := range refusals {
		c := dial("refused")
		if c == nil {
			return
		}
		if rf.first != nil {
			c.Send(rf.first)
		}
		if rf.first != nil && rf.name != "garbage" {
			for _, p := range tail {
				c.SendPacket(p)
			}
		}
		c.Flush()
		// the client says nothing more and does not close: the refusal has to reach it as the end of its connection
		err := c.WaitFor(func(l []rawclient.Event, closed bool) bool { return closed }, wait)
		if err != nil || !c.Closed() {
			fail("c11:front:refused-left-open:"+strings.TrimSuffix(kind, "12"), fmt.Sprintf("first packet %q through the %s front: the broker does not accept it, but the client's connection is still open %v later (packets received: %d)", rf.name, kind, wait, len(c.Log())))
			c.Close()
			continue
		}
		l := c.Log()
		if rf.code >= 0 && (len(l) != 1 || l[0].P.Type != rc.CONNACK || int(l[0].P.ReturnCode) != rf.code) {
			fail("c11:front:refusal-code:"+strings.TrimSuffix(kind, "12"), fmt.Sprintf("first packet %q through the %s front: expected CONNACK %d before the close, got %d packet(s)", rf.name, kind, rf.code, len(l)))
		}
		if rf.code < 0 && len(l) > 0 && !(l[0].P.Type == rc.CONNACK && l[0].P.ReturnCode != 0) {
			fail("c11:front:answered:"+strings.TrimSuffix(kind, "12"), fmt.Sprintf("first packet %q through the %s front was answered with packet type %d", rf.name, kind, l[0].P.Type))
		}
		c.Close()
		out.Count("c11.front_refusals", 1)
	}
	// the witness is still served and has seen nothing of the tails
	wit.SendPacket(&rc.Packet{Type: rc.PINGREQ})
	if wit.WaitFor(func(l []rawclient.Event, closed bool) bool { return countType(l, rc.PINGRESP) >= 1 || closed }, wait) != nil || wit.Closed() {
		fail("c11:front:accepted-not-served:"+strings.TrimSuffix(kind, "12"), "the accepted client on the "+kind+" front is not answered any more after the refusals")
	}
	if n := countType(wit.Log(), rc.PUBLISH); n > 0 {
		fail("c11:front:tail-effect:"+strings.TrimSuffix(kind, "12"), fmt.Sprintf("a subscriber of '#' received %d PUBLISH packet(s) from connections that were never accepted", n))
	}
	for _, sg := range fr.shutdown() {
		fail(sg[0], sg[1])
	}
	wit.Close()
	if left := noLibGoroutines(5 * time.Second); len(left) > 0 {
		fail("c16:front:goroutines-left:"+kind+":"+strings.Join(libTopsNow(), "+"), fmt.Sprintf("the server behind the %s front is closed and every client connection has been closed: %d goroutine(s) of the library remain: %v", kind, len(left), libTopsNow()))
	}
	out.Count("c11.front_runs", 1)
	out.Class("front-refusals/" + kind)
}

func TestC11Fronts(t *testing.T) {
	for g, kind := range []string{"ws", "tls", "tcp", "tls12"} {
		id := fmt.Sprintf("c11/front/%s", kind)
		if !mine(g) || !out.Only(id) {
			continue
		}
		out.Begin(id, 0, map[string]interface{}{"front": kind})
		c11Front(kind)
		out.End()
	}
}
