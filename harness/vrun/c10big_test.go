package vrun

import (
	"fmt"
	"testing"
	"time"

	"verif/harness/out"
	"verif/harness/rawclient"
	rc "verif/harness/refcodec"
	"verif/harness/spec"
)

// TestC10Big: persistent sessions that hold thousands of filters. Putting them back
// takes the broker milliseconds, so "active again as soon as the new connection has
// answered its first request" is decided at the earliest moment the statement allows:
// the probes are written the instant the PINGRESP of the resumed connection has been
// read (real time, no settling in between).
func c10Big(idx int, seed uint64, nFilters int) {
	r := spec.NewRand(seed)
	how := []string{"DISCONNECT", "abrupt close"}[r.Intn(2)]
	params := map[string]interface{}{"cell": idx, "filters": nFilters, "end": how}
	fail := func(sig, desc string) { out.Violation(sig, desc, params) }
	w := newWorld(worldCfg{BufferSize: 1 << 20})
	defer w.shutdown()
	const wait = 30 * time.Second
	connack := func(c *rawclient.Client) *rc.Packet {
		if c.WaitFor(func(l []rawclient.Event, closed bool) bool { return len(l) > 0 }, wait) != nil {
			return nil
		}
		if p := c.Log()[0].P; p.Type == rc.CONNACK {
			return p
		}
		return nil
	}
	pingN := func(c *rawclient.Client, n int) bool {
		c.SendPacket(&rc.Packet{Type: rc.PINGREQ})
		return c.WaitFor(func(l []rawclient.Event, closed bool) bool { return countType(l, rc.PINGRESP) >= n }, wait) == nil
	}
	filter := func(i int) string { return fmt.Sprintf("big/%d/%d", idx, i) }
	prober := w.dial("prober", connectOpts{ClientID: "prober", Clean: true, KeepAlive: 6000})
	if connack(prober) == nil {
		out.Inconclusive("c10big: prober got no CONNACK", params)
		return
	}
	sub := w.dial("big#1", connectOpts{ClientID: "big", Clean: false, KeepAlive: 6000})
	if a := connack(sub); a == nil || a.ReturnCode != 0 {
		out.Inconclusive("c10big: no CONNACK", params)
		return
	} else if a.SessionPresent {
		fail("c10:session-present", "first CleanSession=0 CONNECT of a client identifier: SessionPresent=1")
		return
	}
	qos := make([]byte, nFilters)
	nb := 0
	for i := 0; i < nFilters; i += 200 {
		p := &rc.Packet{Type: rc.SUBSCRIBE, ID: uint16(nb + 1)}
		for j := i; j < i+200 && j < nFilters; j++ {
			qos[j] = byte(r.Intn(3))
			p.Filters = append(p.Filters, []byte(filter(j)))
			p.QoSs = append(p.QoSs, qos[j])
		}
		sub.SendPacket(p)
		nb++
	}
	if sub.WaitFor(func(l []rawclient.Event, closed bool) bool { return countType(l, rc.SUBACK) >= nb }, wait) != nil {
		out.Inconclusive("c10big: SUBACKs missing", params)
		return
	}
	if how == "DISCONNECT" {
		sub.SendPacket(&rc.Packet{Type: rc.DISCONNECT})
		sub.Flush()
	}
	sub.Close()
	if !w.sink.waitCount("stop.done", "big", 1, wait) {
		out.Inconclusive("c10big: teardown of the first connection not observed", params)
		return
	}
	// ---- resume
	sub2 := w.dial("big#2", connectOpts{ClientID: "big", Clean: false, KeepAlive: 6000})
	a := connack(sub2)
	if a == nil || a.ReturnCode != 0 {
		out.Inconclusive("c10big: no CONNACK on reconnect", params)
		return
	}
	if !a.SessionPresent {
		fail("c10:session-present", fmt.Sprintf("CleanSession=0 reconnect of a session with %d subscriptions: SessionPresent=0", nFilters))
		return
	}
	if !pingN(sub2, 1) {
		out.Inconclusive("c10big: no PINGRESP on the resumed connection", params)
		return
	}
	// the first request has been answered: every stored subscription must be active now
	const nProbes = 64
	want := map[uint64]int{}
	var burst []byte
	for k := 0; k < nProbes; k++ {
		i := r.Intn(nFilters)
		uid := uint64(k + 1)
		want[uid] = i
		burst = append(burst, rc.Encode(&rc.Packet{Type: rc.PUBLISH, Topic: []byte(filter(i)), QoS: 1, ID: uint16(k + 1), Payload: spec.MakePayload(uid, 0, 24)})...)
	}
	prober.Send(burst)
	if !pingN(prober, 1) || !pingN(sub2, 2) {
		out.Inconclusive("c10big: barrier after the probes failed", params)
		return
	}
	got := map[uint64]int{}
	for _, e := range sub2.Log() {
		if e.P.Type != rc.PUBLISH {
			continue
		}
		d := decodeDelivery(e.P)
		if !d.ok {
			fail("c10:subscriptions:corrupt", "a delivery on the resumed connection does not carry a valid payload")
			return
		}
		got[d.uid]++
		i, known := want[d.uid]
		if !known || string(e.P.Topic) != filter(i) {
			fail("c10:subscriptions:spurious", fmt.Sprintf("unexpected delivery uid %d on %q", d.uid, e.P.Topic))
			return
		}
		if e.P.QoS != minQ(1, qos[i]) {
			fail("c10:subscriptions:qos", fmt.Sprintf("filter %q was granted QoS %d, a QoS 1 publication arrived with QoS %d after the session was resumed", filter(i), qos[i], e.P.QoS))
			return
		}
	}
	missing := 0
	for uid := range want {
		switch got[uid] {
		case 1:
		case 0:
			missing++
		default:
			fail("c10:subscriptions:duplicate", fmt.Sprintf("uid %d delivered %d times", uid, got[uid]))
			return
		}
	}
	if missing > 0 {
		fail("c10:subscriptions:missing", fmt.Sprintf("session with %d filters resumed (SessionPresent=1) and first PINGREQ answered, yet %d of %d publications sent after that answer were not delivered", nFilters, missing, nProbes))
		return
	}
	out.Count("c10.big_sessions", 1)
	out.Count("c10.big_filters_restored", int64(nFilters))
	out.Count("c10.big_probes", nProbes)
	out.Class(fmt.Sprintf("big/%d/%s", nFilters, how))
}

func TestC10Big(t *testing.T) {
	sizes := []int{1000, 5000, 20000, 40000}
	n := pick(12, 120)
	for h := 0; h < n; h++ {
		id := fmt.Sprintf("c10big/%d", h)
		if !mine(h) || !out.Only(id) {
			continue
		}
		seed := caseSeed("c10big", h)
		out.Begin(id, seed, nil)
		c10Big(h, seed, sizes[h%len(sizes)])
		out.End()
	}
}
