package vrun

import (
	"fmt"
	"strings"
	"testing"

	"github.com/mdzio/go-mqtt/topics"

	"verif/harness/out"
	rc "verif/harness/refcodec"
	"verif/harness/spec"
)

var c07Valid = []string{"a", "a/b", "a/+", "a/#", "+", "#", "+/b", "x/y/z", "x/+/z", "x/#", "k/l/m/n", "+/+/+", "s/t", "s/+", "q", "q/r/#", "deep/1/2/3/4/5", "deep/+/2/#", "u", "u/v"}
var c07Invalid = []string{"a/#/b", "#/a", "a+", "a/b+", "+a", "a#", "a/#x", ""}
var c07Sys = []string{"$SYS/#", "$SYS/broker/+", "$share/g/a"}

// probeNames returns topic names that match filter f (f valid, no '$').
func probeNames(f string) []string {
	ls := strings.Split(f, "/")
	var base []string
	for _, l := range ls {
		switch l {
		case "+":
			base = append(base, "pl")
		case "#":
		default:
			base = append(base, l)
		}
	}
	if ls[len(ls)-1] == "#" {
		var ns []string
		if len(base) > 0 {
			ns = append(ns, strings.Join(base, "/")) // the parent level itself
		}
		ns = append(ns, strings.Join(append(append([]string{}, base...), "h1"), "/"), strings.Join(append(append([]string{}, base...), "h1", "h2"), "/"))
		return ns
	}
	return []string{strings.Join(base, "/")}
}

func c07Scenario(t *testing.T, idx int, seed uint64) {
	r := spec.NewRand(seed)
	maxQ := byte(idx % 3)
	if idx%5 == 0 {
		maxQ = 2
	}
	params := map[string]interface{}{"max_qos": maxQ, "scenario": idx}
	var ops []string
	bubble(t, "c07", params, func(cl *cleanup) {
		old := topics.MaxQosAllowed
		topics.MaxQosAllowed = maxQ
		cl.add(func() { topics.MaxQosAllowed = old })
		w := newWorld(worldCfg{BufferSize: 65536})
		cl.add(w.shutdown)
		fail := func(sig, desc string) {
			out.Violation(sig, desc, map[string]interface{}{"params": params, "ops": ops})
		}
		a, ack := w.connectB("A", connectOpts{Clean: true, KeepAlive: 600})
		b, ackb := w.connectB("B", connectOpts{Clean: true, KeepAlive: 600})
		if ack == nil || ackb == nil {
			fail("c07:connect", "no CONNACK")
			return
		}
		var uids uidGen
		probe := func(names []string) bool {
			for _, name := range names {
				uid := uids.next()
				b.publishB(name, 2, false, spec.MakePayload(uid, 0, 40))
				if a.Closed() {
					fail("c07:connection-lost", "subscriber connection closed during probes")
					return false
				}
				got := publishesIn(a.fresh())
				var desc []string
				if sig := c01Check("A", a.subs, name, 2, got, uid, &desc); sig != "" {
					fail("c07:effect:"+strings.TrimPrefix(sig, "c01:"), "probe after the acknowledgement: "+strings.Join(desc, "; "))
					return false
				}
				out.Count("c07.probes", 1)
			}
			return true
		}
		rounds := 2 + r.Intn(3)
		for rd := 0; rd < rounds; rd++ {
			// ---- SUBSCRIBE
			n := 1 + r.Intn(6)
			if r.Intn(4) == 0 {
				n = 5 + r.Intn(36)
			}
			if r.Intn(12) == 0 {
				// as many filters as make the SUBACK's remaining length cross the one-byte limit (125/126 codes)
				n = []int{124, 125, 126, 127, 128, 200, 300}[r.Intn(7)]
				out.Count("c07.subscribes_with_over_100_filters", 1)
			}
			req := &rc.Packet{Type: rc.SUBSCRIBE, ID: a.ids.next()}
			kinds := make([]string, n)
			for i := 0; i < n; i++ {
				var f string
				q := byte(r.Intn(3))
				switch x := r.Intn(20); {
				case x < 2:
					f, kinds[i] = c07Invalid[r.Intn(len(c07Invalid))], "invalid-filter"
				case x == 2:
					f, kinds[i] = c07Sys[r.Intn(len(c07Sys))], "sys"
				case x == 3 && len(req.Filters) > 0:
					f, kinds[i] = string(req.Filters[r.Intn(len(req.Filters))]), "repeat"
					if !spec.ValidFilter(f) {
						kinds[i] = "invalid-filter"
					} else if f[0] == '$' {
						kinds[i] = "sys"
					}
				default:
					f, kinds[i] = c07Valid[r.Intn(len(c07Valid))], "valid"
				}
				if r.Intn(25) == 0 {
					q = []byte{3, 0x80, 0x7f}[r.Intn(3)]
					kinds[i] += "+badqos"
				}
				req.Filters = append(req.Filters, []byte(f))
				req.QoSs = append(req.QoSs, q)
			}
			ops = append(ops, fmt.Sprintf("SUBSCRIBE id=%d %q %v", req.ID, req.Filters, req.QoSs))
			a.SendPacket(req)
			settle()
			out.Count("c07.subscribes", 1)
			evs := a.fresh()
			if a.Closed() {
				// closing the connection instead of answering is allowed
				out.Count("c07.closed_instead", 1)
				out.Class("sub/closed/" + strings.Join(uniq(kinds), ","))
				return
			}
			var acks []*rc.Packet
			for _, e := range evs {
				if e.P.Type == rc.SUBACK {
					acks = append(acks, e.P)
				}
			}
			if len(acks) == 0 {
				fail("c07:no-suback", fmt.Sprintf("SUBSCRIBE with %d filters (%s) was neither answered nor was the connection closed", n, strings.Join(uniq(kinds), ",")))
				return
			}
			if len(acks) > 1 || acks[0].ID != req.ID {
				fail("c07:suback-id", fmt.Sprintf("%d SUBACKs, first id %d for request id %d", len(acks), acks[0].ID, req.ID))
				return
			}
			codes := acks[0].Codes
			if len(codes) != n {
				fail("c07:suback-count", fmt.Sprintf("SUBACK has %d return codes for %d filters", len(codes), n))
				return
			}
			for i := 0; i < n; i++ {
				f, q := string(req.Filters[i]), req.QoSs[i]
				var okc []byte
				switch {
				case strings.Contains(kinds[i], "badqos") || strings.HasPrefix(kinds[i], "invalid"):
					okc = []byte{0x80}
				case strings.HasPrefix(kinds[i], "sys"):
					okc = []byte{0x80, minQ(q, maxQ)}
				default:
					okc = []byte{minQ(q, maxQ)}
				}
				if !strings.Contains(string(okc), string([]byte{codes[i]})) {
					fail("c07:return-code", fmt.Sprintf("filter %d %q (%s) requested QoS %d, server max %d: return code %#x, acceptable %v", i, f, kinds[i], q, maxQ, codes[i], okc))
					return
				}
				if codes[i] <= 2 && !strings.HasPrefix(kinds[i], "sys") {
					a.subs[f] = codes[i]
				}
				out.Class(fmt.Sprintf("sub/%s/q%d/max%d/n%d", kinds[i], q, maxQ, bucket(n)))
			}
			// ---- effect of the SUBSCRIBE: probes
			var names []string
			for i := 0; i < n; i++ {
				if strings.HasPrefix(kinds[i], "valid") || strings.HasPrefix(kinds[i], "repeat") {
					names = append(names, probeNames(string(req.Filters[i]))...)
				}
			}
			names = append(names, "never/subscribed", "a/b/c/d")
			if len(names) > 24 {
				names = names[:24]
			}
			if !probe(names) {
				return
			}
			// ---- UNSUBSCRIBE
			un := &rc.Packet{Type: rc.UNSUBSCRIBE, ID: a.ids.next()}
			m := 1 + r.Intn(5)
			if r.Intn(4) == 0 {
				m = 5 + r.Intn(36)
			}
			if r.Intn(12) == 0 {
				m = []int{124, 125, 126, 127, 128, 200, 300}[r.Intn(7)]
			}
			var held []string
			for f := range a.subs {
				held = append(held, f)
			}
			sortStrings(held)
			var ukinds []string
			for i := 0; i < m; i++ {
				var f string
				switch {
				case len(held) > 0 && r.Intn(3) != 0:
					f = held[r.Intn(len(held))]
					ukinds = append(ukinds, "held")
				case len(un.Filters) > 0 && r.Intn(3) == 0:
					f = string(un.Filters[r.Intn(len(un.Filters))])
					ukinds = append(ukinds, "repeat")
				default:
					f = c07Valid[r.Intn(len(c07Valid))]
					ukinds = append(ukinds, "maybe-not-held")
				}
				un.Filters = append(un.Filters, []byte(f))
			}
			ops = append(ops, fmt.Sprintf("UNSUBSCRIBE id=%d %q", un.ID, un.Filters))
			a.SendPacket(un)
			settle()
			out.Count("c07.unsubscribes", 1)
			evs = a.fresh()
			if a.Closed() {
				out.Count("c07.closed_instead", 1)
				return
			}
			nack := 0
			for _, e := range evs {
				if e.P.Type == rc.UNSUBACK {
					nack++
					if e.P.ID != un.ID {
						fail("c07:unsuback-id", fmt.Sprintf("UNSUBACK id %d for request id %d", e.P.ID, un.ID))
						return
					}
				}
			}
			if nack != 1 {
				fail("c07:no-unsuback", fmt.Sprintf("%d UNSUBACKs for an UNSUBSCRIBE with %d filters (%d distinct)", nack, m, len(uniqB(un.Filters))))
				return
			}
			var pn []string
			for _, f := range un.Filters {
				delete(a.subs, string(f))
				pn = append(pn, probeNames(string(f))...)
			}
			for f := range a.subs {
				pn = append(pn, probeNames(f)[0])
			}
			sortStrings(pn)
			if len(pn) > 24 {
				pn = pn[:24]
			}
			if !probe(pn) {
				return
			}
			out.Class(fmt.Sprintf("unsub/n%d/%s", bucket(m), strings.Join(uniq(ukinds), ",")))
		}
		out.Count("c07.scenarios", 1)
		if idx%40 == 0 {
			o := ops
			if len(o) > 4 {
				o = o[:4]
			}
			out.Sample("c07", 3, map[string]interface{}{"params": params, "ops": o})
		}
	})
}

func bucket(n int) int {
	switch {
	case n <= 4:
		return n
	case n <= 8:
		return 8
	case n <= 16:
		return 16
	}
	return 40
}

func uniq(s []string) []string {
	m := map[string]bool{}
	var o []string
	for _, x := range s {
		if !m[x] {
			m[x] = true
			o = append(o, x)
		}
	}
	sortStrings(o)
	return o
}

func uniqB(s [][]byte) []string {
	var x []string
	for _, b := range s {
		x = append(x, string(b))
	}
	return uniq(x)
}

func TestC07(t *testing.T) {
	n := pick(2400, 80000)
	for h := 0; h < n; h++ {
		id := fmt.Sprintf("c07/%d", h)
		if !mine(h) || !out.Only(id) {
			continue
		}
		seed := caseSeed("c07", h)
		out.Begin(id, seed, nil)
		c07Scenario(t, h, seed)
		out.End()
	}
}
