//go:build race

package vrun

const raceEnabled = true
