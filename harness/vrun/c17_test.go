package vrun

import (
	"fmt"
	"testing"

	"verif/harness/out"
	"verif/harness/spec"
)

func reportStress(prefix string, cfg stressCfg, res *stressResult, params map[string]interface{}) {
	for _, v := range res.Violations {
		out.Violation(v.Sig, v.Desc, params)
	}
	if res.Inconcl != "" {
		out.Inconclusive(res.Inconcl, params)
	}
	out.Count(prefix+".runs", 1)
	out.Count(prefix+".published", res.Published)
	out.Count(prefix+".received", res.Received)
	out.Count(prefix+".order_keys", res.OrderKeys)
	out.Count(prefix+".exactly_once_streams", res.Complete)
	out.Count(prefix+".waits_for_ring_space", res.SpaceWaits)
	out.Count(prefix+".waits_for_ring_data", res.DataWaits)
	out.Count(prefix+".churned_connections", res.Churns)
	out.Count(prefix+".retained_received", res.Retained)
	out.Count(prefix+".published_flagged_dup", res.DupFlagged)
	out.Count(prefix+".last_words_before_close", res.LastWords)
	out.Count(prefix+".retained_clears", res.Clears)
}

// TestC17: whole packets on every outgoing stream, per-publisher order.
func TestC17(t *testing.T) {
	n := pick(40, 600)
	if raceEnabled {
		n = pick(16, 160)
	}
	for g := 0; g < n; g++ {
		id := fmt.Sprintf("c17/%d", g)
		if !mine(g) || !out.Only(id) {
			continue
		}
		seed := caseSeed("c17", g)
		r := spec.NewRand(seed)
		cfg := stressCfg{Seed: seed, Publishers: 2 + r.Intn(11), Subscribers: 4 + r.Intn(4), Msgs: pick(150, 400), Retained: g%3 == 0, Churn: g%2 == 0,
			InProc: g % 3, Fragment: g%4 != 3, GOMAXPROCS: []int{2, 4, 16}[g%3], BufferSize: 16384}
		if raceEnabled {
			cfg.Msgs = pick(60, 150)
			if cfg.Publishers > 6 {
				cfg.Publishers = 6
			}
		}
		params := map[string]interface{}{"publishers": cfg.Publishers, "subscribers": cfg.Subscribers, "msgs": cfg.Msgs, "retained": cfg.Retained, "churn": cfg.Churn, "inproc": cfg.InProc, "fragment": cfg.Fragment, "gomaxprocs": cfg.GOMAXPROCS}
		out.Begin(id, seed, params)
		res := runStress(cfg)
		reportStress("c17", cfg, res, params)
		out.Class(fmt.Sprintf("run/p%d/s%d/ret%v/churn%v/in%d/frag%v/mp%d", cfg.Publishers, cfg.Subscribers, cfg.Retained, cfg.Churn, cfg.InProc, cfg.Fragment, cfg.GOMAXPROCS))
		if g < 2 {
			out.Sample("c17", 2, map[string]interface{}{"params": params, "published": res.Published, "received_by_subscribers": res.Received, "order_keys_checked": res.OrderKeys})
		}
		out.End()
	}
}

// TestC01Stress: the same concurrent workload, read for C01: every stable
// subscriber must receive every acknowledged publish exactly once.
func TestC01Stress(t *testing.T) {
	n := pick(24, 400)
	if raceEnabled {
		n = pick(8, 80)
	}
	for g := 0; g < n; g++ {
		id := fmt.Sprintf("c01/stress/%d", g)
		if !mine(g) || !out.Only(id) {
			continue
		}
		seed := caseSeed("c01x", g)
		r := spec.NewRand(seed)
		cfg := stressCfg{Seed: seed, Publishers: 2 + r.Intn(6), Subscribers: 2 + r.Intn(4), Msgs: pick(150, 300), Churn: g%2 == 1, InProc: g % 3, Fragment: g%2 == 0, GOMAXPROCS: []int{2, 4, 16}[g%3], BufferSize: 16384}
		if raceEnabled {
			cfg.Msgs = 60
		}
		params := map[string]interface{}{"publishers": cfg.Publishers, "subscribers": cfg.Subscribers, "msgs": cfg.Msgs, "churn": cfg.Churn, "inproc": cfg.InProc}
		out.Begin(id, seed, params)
		res := runStress(cfg)
		reportStress("c01s", cfg, res, params)
		out.Class(fmt.Sprintf("stress/p%d/s%d/churn%v/in%d", cfg.Publishers, cfg.Subscribers, cfg.Churn, cfg.InProc))
		out.End()
	}
}
