package vrun

import (
	"crypto/ecdsa"
	"crypto/elliptic"
	"crypto/rand"
	"crypto/tls"
	"crypto/x509"
	"crypto/x509/pkix"
	"errors"
	"fmt"
	"io"
	"math/big"
	"net"
	"net/http"
	"strings"
	"sync"
	"testing"
	"time"

	"github.com/gorilla/websocket"
	"github.com/mdzio/go-mqtt/service"

	"verif/harness/out"
	"verif/harness/spec"
)

// A front is one of the ways the library itself offers to reach a broker other than
// a bare net.Conn handed to handleConnection: the TCP accept loop (ListenAndServe),
// the TLS accept loop (ListenAndServeTLS) and the WebsocketHandler in front of a TCP
// listener. The concurrent broker workload (stress_test.go) can be run through any of
// them; the transports behave differently from net.Pipe (kernel buffering, TLS records
// of at most 16 KiB, a read that returns the last bytes together with io.EOF, a Close
// that writes an alert first, a proxy that re-frames the byte stream in 1 KiB binary
// messages) and the accept loops and the proxy are library code no other scenario runs.
type front struct {
	kind   string
	addr   string // MQTT listener
	wsAddr string // HTTP listener of the websocket front
	w      *world
	tlsCfg *tls.Config
	ret    chan error // result of ListenAndServe / ListenAndServeTLS
	hs     *http.Server
	hln    net.Listener
}

var frontCert struct {
	once sync.Once
	cert tls.Certificate
	err  error
}

func selfSigned() (tls.Certificate, error) {
	frontCert.once.Do(func() {
		key, err := ecdsa.GenerateKey(elliptic.P256(), rand.Reader)
		if err != nil {
			frontCert.err = err
			return
		}
		tmpl := &x509.Certificate{SerialNumber: big.NewInt(1), Subject: pkix.Name{CommonName: "127.0.0.1"}, NotBefore: time.Now().Add(-time.Hour), NotAfter: time.Now().Add(24 * time.Hour),
			KeyUsage: x509.KeyUsageDigitalSignature, ExtKeyUsage: []x509.ExtKeyUsage{x509.ExtKeyUsageServerAuth}, IPAddresses: []net.IP{net.ParseIP("127.0.0.1")}}
		der, err := x509.CreateCertificate(rand.Reader, tmpl, tmpl, &key.PublicKey, key)
		if err != nil {
			frontCert.err = err
			return
		}
		frontCert.cert = tls.Certificate{Certificate: [][]byte{der}, PrivateKey: key}
	})
	return frontCert.cert, frontCert.err
}

func freeAddr() (string, error) {
	ln, err := net.Listen("tcp", "127.0.0.1:0")
	if err != nil {
		return "", err
	}
	a := ln.Addr().String()
	ln.Close()
	return a, nil
}

func waitListening(addr string) error {
	var err error
	for i := 0; i < 400; i++ {
		var c net.Conn
		c, err = net.DialTimeout("tcp", addr, time.Second)
		if err == nil {
			c.Close()
			return nil
		}
		time.Sleep(5 * time.Millisecond)
	}
	return err
}

func openFront(w *world, kind string) (*front, error) {
	f := &front{kind: kind, w: w, ret: make(chan error, 1)}
	maxTLS := uint16(0)
	if kind == "tls12" {
		// up to TLS 1.2 a Read hands out the last application data together with io.EOF when the
		// peer's close_notify has been received already
		kind, maxTLS = "tls", tls.VersionTLS12
		f.kind = "tls"
	}
	var err error
	if f.addr, err = freeAddr(); err != nil {
		return nil, err
	}
	switch kind {
	case "tcp", "ws":
		go func() { f.ret <- w.svr.ListenAndServe("tcp://" + f.addr) }()
	case "tls":
		cert, err := selfSigned()
		if err != nil {
			return nil, err
		}
		f.tlsCfg = &tls.Config{InsecureSkipVerify: true}
		go func() {
			f.ret <- w.svr.ListenAndServeTLS("tcp://"+f.addr, &tls.Config{Certificates: []tls.Certificate{cert}, MaxVersion: maxTLS})
		}()
	default:
		return nil, errors.New("unknown front " + kind)
	}
	if err := waitListening(f.addr); err != nil {
		return nil, fmt.Errorf("listener %s: %v", f.addr, err)
	}
	if kind == "ws" {
		f.hln, err = net.Listen("tcp", "127.0.0.1:0")
		if err != nil {
			return nil, err
		}
		f.wsAddr = f.hln.Addr().String()
		f.hs = &http.Server{Handler: &service.WebsocketHandler{Addr: f.addr}}
		go f.hs.Serve(f.hln)
	}
	return f, nil
}

func (f *front) dial() (net.Conn, error) {
	switch f.kind {
	case "tcp":
		return net.DialTimeout("tcp", f.addr, 5*time.Second)
	case "tls":
		return tls.DialWithDialer(&net.Dialer{Timeout: 5 * time.Second}, "tcp", f.addr, f.tlsCfg)
	}
	d := websocket.Dialer{Subprotocols: []string{"mqtt"}, HandshakeTimeout: 5 * time.Second}
	ws, _, err := d.Dial("ws://"+f.wsAddr+"/mqtt", nil)
	if err != nil {
		return nil, err
	}
	return &wsConn{ws: ws}, nil
}

// shutdown: Server.Close must return, the accept loop must return, and once the
// websocket proxy's HTTP server is closed too no goroutine of the library may be left.
func (f *front) shutdown() (sigs [][2]string) {
	done := make(chan interface{}, 1)
	go func() {
		defer func() { done <- recover() }()
		f.w.svr.Close()
	}()
	select {
	case p := <-done:
		if p != nil {
			sigs = append(sigs, [2]string{"c16:front:server-close-panic:" + f.kind, fmt.Sprintf("Server.Close behind the %s front panicked: %v", f.kind, p)})
		}
	case <-time.After(20 * time.Second):
		sigs = append(sigs, [2]string{"c16:front:server-close-hangs:" + f.kind + ":" + strings.Join(libTopsNow(), "+"), fmt.Sprintf("Server.Close behind the %s front has not returned after 20 s; library goroutines: %v", f.kind, libTopsNow())})
		return
	}
	select {
	case <-f.ret:
	case <-time.After(10 * time.Second):
		sigs = append(sigs, [2]string{"c16:front:accept-loop-left:" + f.kind, fmt.Sprintf("the accept loop of the %s front is still running 10 s after Server.Close returned", f.kind)})
	}
	if f.hs != nil {
		// the broker has closed every proxied TCP connection: each proxy pair must
		// wind up by itself (the websocket clients are still open at this point)
		if left := noLibGoroutines(10 * time.Second); len(left) > 0 {
			sigs = append(sigs, [2]string{"c16:front:proxy-left:" + strings.Join(libTopsNow(), "+"), fmt.Sprintf("the broker is closed, the websocket clients are still open: %d goroutine(s) of the library remain 10 s later: %v", len(left), libTopsNow())})
		}
		f.hs.Close()
	}
	return
}

func libTopsNow() []string {
	var tops []string
	for _, g := range libGoroutines() {
		tops = append(tops, g.libTop())
	}
	return uniq(tops)
}

// wsConn adapts a websocket connection to the byte-stream interface the raw client
// uses: every Write is one binary message, Read hands out the binary messages' bytes
// in order (MQTT over websockets: packets need not be aligned with messages).
type wsConn struct {
	ws  *websocket.Conn
	rmu sync.Mutex
	cur io.Reader
	wmu sync.Mutex
}

func (c *wsConn) Read(p []byte) (int, error) {
	c.rmu.Lock()
	defer c.rmu.Unlock()
	for {
		if c.cur == nil {
			mt, r, err := c.ws.NextReader()
			if err != nil {
				var ce *websocket.CloseError
				if errors.As(err, &ce) {
					return 0, io.EOF
				}
				return 0, err
			}
			if mt != websocket.BinaryMessage {
				return 0, fmt.Errorf("websocket message of type %d from the proxy", mt)
			}
			c.cur = r
		}
		n, err := c.cur.Read(p)
		if err == io.EOF {
			c.cur = nil
			if n > 0 {
				return n, nil
			}
			continue
		}
		return n, err
	}
}

func (c *wsConn) Write(p []byte) (int, error) {
	c.wmu.Lock()
	defer c.wmu.Unlock()
	if err := c.ws.WriteMessage(websocket.BinaryMessage, p); err != nil {
		return 0, err
	}
	return len(p), nil
}
func (c *wsConn) Close() error         { return c.ws.Close() }
func (c *wsConn) LocalAddr() net.Addr  { return c.ws.LocalAddr() }
func (c *wsConn) RemoteAddr() net.Addr { return c.ws.RemoteAddr() }
func (c *wsConn) SetDeadline(t time.Time) error {
	c.ws.SetReadDeadline(t)
	return c.ws.SetWriteDeadline(t)
}
func (c *wsConn) SetReadDeadline(t time.Time) error  { return c.ws.SetReadDeadline(t) }
func (c *wsConn) SetWriteDeadline(t time.Time) error { return c.ws.SetWriteDeadline(t) }

// TestFronts: the concurrent workload of C17/C01 through the TCP accept loop, the TLS
// accept loop and the websocket proxy, with the end-of-run demands of C16.
func TestFronts(t *testing.T) {
	n := pick(9, 90)
	if raceEnabled {
		n = pick(6, 45)
	}
	kinds := []string{"tls12", "ws", "tcp", "tls", "ws", "tcp"}
	for g := 0; g < n; g++ {
		id := fmt.Sprintf("front/%d", g)
		if !mine(g) || !out.Only(id) {
			continue
		}
		seed := caseSeed("front", g)
		r := spec.NewRand(seed)
		kind := kinds[g%6]
		cfg := stressCfg{Seed: seed, Front: kind, LastWords: true, Publishers: 2 + r.Intn(5), Subscribers: 4 + r.Intn(3), Msgs: pick(120, 300), Retained: g%2 == 0, Churn: (g/3)%2 == 0,
			InProc: (g / 3) % 3, GOMAXPROCS: []int{4, 16, 2}[(g/3)%3], BufferSize: []int64{16384, 65536}[(g/6)%2]}
		if raceEnabled {
			cfg.Msgs = pick(50, 120)
		}
		params := map[string]interface{}{"front": kind, "publishers": cfg.Publishers, "subscribers": cfg.Subscribers, "msgs": cfg.Msgs, "retained": cfg.Retained, "churn": cfg.Churn, "inproc": cfg.InProc, "gomaxprocs": cfg.GOMAXPROCS, "buffer": cfg.BufferSize}
		out.Begin(id, seed, params)
		res := runStress(cfg)
		reportStress("front", cfg, res, params)
		out.Count("front."+strings.TrimSuffix(kind, "12")+".runs", 1)
		out.Count("front."+strings.TrimSuffix(kind, "12")+".received", res.Received)
		out.Class(fmt.Sprintf("front/%s/ret%v/churn%v/in%d/mp%d/buf%d", kind, cfg.Retained, cfg.Churn, cfg.InProc, cfg.GOMAXPROCS, cfg.BufferSize))
		if g < 3 {
			out.Sample("front", 3, map[string]interface{}{"params": params, "published": res.Published, "received_by_subscribers": res.Received, "exactly_once_streams": res.Complete})
		}
		out.End()
	}
}
