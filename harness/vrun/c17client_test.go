package vrun

import (
	"bytes"
	"fmt"
	"io"
	"testing"
	"time"

	"github.com/mdzio/go-mqtt/message"
	"github.com/mdzio/go-mqtt/service"

	"verif/harness/out"
	rc "verif/harness/refcodec"
	"verif/harness/spec"
)

// TestC17Client: client role of C17. The library Client queues large publishes
// and calls Disconnect at once; everything the peer receives must be a prefix
// of the sequence of whole packets the client was asked to send, with the
// DISCONNECT (if it arrives) on a packet boundary.
func TestC17Client(t *testing.T) {
	n := pick(60, 1500)
	for g := 0; g < n; g++ {
		id := fmt.Sprintf("c17/client/%d", g)
		if !mine(g) || !out.Only(id) {
			continue
		}
		seed := caseSeed("c17c", g)
		r := spec.NewRand(seed)
		sizes := []int{100 << 10, 30 << 10, 200 << 10, 9000}
		npub := 1 + r.Intn(3)
		params := map[string]interface{}{"publishes": npub}
		out.Begin(id, seed, params)
		func() {
			p, err := newPeer()
			if err != nil {
				out.Inconclusive("listen", nil)
				return
			}
			defer p.close()
			cid := uniqueCID("c17c")
			cln := &service.Client{ConnectTimeout: 5}
			// every fifth case: a slow transport. The sender is delayed before each of its 8 KiB writes
			// (delays only, at the ring's yield point), and the time Disconnect allows for draining is
			// 1 s: it runs out while packets are still queued. What arrives is cut short at the close,
			// and must still be a prefix of the whole packets.
			slow := !raceEnabled && g%5 == 4
			if slow {
				cln.ConnectTimeout = 1
				sizes = []int{150000, 200000, 180000}
				hook := func(pt string, obj interface{}) {
					if pt == "buf.peek.prelock" {
						time.Sleep(60 * time.Millisecond)
					}
				}
				yieldAnyBuf.Store(&hook)
				defer yieldAnyBuf.Store(nil)
				params["slow_transport"] = true
				out.Count("c17.client_slow_runs", 1)
			}
			errc := make(chan error, 1)
			go func() { errc <- cln.Connect(p.uri, clientConnectMsg(cid, 600)) }()
			conn, err := p.acceptRaw(5 * time.Second)
			if err != nil {
				out.Inconclusive("accept", nil)
				return
			}
			defer conn.Close()
			// read the CONNECT
			buf := make([]byte, 0, 256)
			tmp := make([]byte, 256)
			for {
				conn.SetReadDeadline(time.Now().Add(5 * time.Second))
				k, err := conn.Read(tmp)
				buf = append(buf, tmp[:k]...)
				if _, tot, derr := rc.Decode(buf); derr == nil {
					buf = buf[tot:]
					break
				}
				if err != nil {
					out.Inconclusive("no CONNECT", nil)
					return
				}
			}
			conn.Write([]byte{0x20, 2, 0, 0})
			if err := <-errc; err != nil {
				out.Inconclusive("Connect: "+err.Error(), nil)
				return
			}
			// the client queues its publishes and disconnects immediately
			var expected []byte
			for k := 0; k < npub; k++ {
				size := sizes[r.Intn(len(sizes))]
				pl := spec.MakePayload(uint64(g*10+k+1), uint32(k), size)
				topic := fmt.Sprintf("c17c/%d", k)
				m := message.NewPublishMessage()
				m.SetTopic([]byte(topic))
				m.SetQoS(0)
				m.SetPayload(pl)
				if err := cln.Publish(m, nil); err != nil {
					out.Violation("c17:client-publish", err.Error(), params)
					return
				}
				expected = append(expected, rc.Encode(&rc.Packet{Type: rc.PUBLISH, Topic: []byte(topic), Payload: pl})...)
			}
			if r.Intn(3) == 0 {
				time.Sleep(time.Duration(r.Intn(300)) * time.Microsecond)
			}
			cln.Disconnect()
			conn.SetReadDeadline(time.Now().Add(10 * time.Second))
			rest, _ := io.ReadAll(conn)
			got := append(buf, rest...)
			// got must be: a prefix of expected, optionally followed by DISCONNECT exactly at a packet boundary
			body := got
			disc := []byte{0xe0, 0x00}
			hasDisc := len(got) >= 2 && bytes.Equal(got[len(got)-2:], disc)
			okPlain := bytes.HasPrefix(expected, got)
			okDisc := false
			if hasDisc {
				body = got[:len(got)-2]
				if bytes.HasPrefix(expected, body) {
					// boundary?
					off := 0
					for off < len(body) {
						_, tot, derr := rc.Decode(expected[off:])
						if derr != nil {
							break
						}
						off += tot
						if off == len(body) {
							break
						}
					}
					okDisc = off == len(body)
				}
			}
			if !okPlain && !okDisc {
				// locate the first deviation
				i := 0
				for i < len(got) && i < len(expected) && got[i] == expected[i] {
					i++
				}
				ctx := got[i:]
				if len(ctx) > 16 {
					ctx = ctx[:16]
				}
				out.Violation("c17:client-stream", fmt.Sprintf("the client wrote %d bytes that are not a prefix of its %d queued PUBLISH packets (+ DISCONNECT on a packet boundary): first deviation at byte %d: %x", len(got), npub, i, ctx), params)
				return
			}
			out.Count("c17.client_runs", 1)
			out.Count("c17.client_bytes", int64(len(got)))
			if okDisc {
				out.Count("c17.client_disconnect_seen", 1)
			}
			if len(body) > 0 && len(body) < len(expected) {
				out.Count("c17.client_cut_mid_stream", 1)
			}
		}()
		noLibGoroutines(3 * time.Second)
		out.Class(fmt.Sprintf("client/npub%d", npub))
		out.End()
	}
}
