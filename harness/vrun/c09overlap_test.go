package vrun

import (
	"fmt"
	"testing"
	"time"

	"verif/harness/out"
	rc "verif/harness/refcodec"
	"verif/harness/spec"
)

// TestC09Overlap: the client reconnects before the broker has noticed that its
// previous connection is gone (the usual half-open TCP case): for a while two
// connections carry the same client identifier. When the older one ends, the will
// from ITS CONNECT is due (or none after a DISCONNECT), not the newer
// connection's; the newer connection's will is due when that one ends.
func c09Overlap(t *testing.T, idx int, seed uint64) {
	r := spec.NewRand(seed)
	endings := []string{"abrupt", "keepalive", "protocol-error", "disconnect"}
	endA, endB := endings[r.Intn(4)], endings[r.Intn(4)]
	cleanA, cleanB := r.Bool(), r.Bool()
	params := map[string]interface{}{"case": idx, "older_ends_by": endA, "newer_ends_by": endB, "older_clean": cleanA, "newer_clean": cleanB}
	bubble(t, "c09", params, func(cl *cleanup) {
		w := newWorld(worldCfg{BufferSize: 16384})
		cl.add(w.shutdown)
		fail := func(sig, desc string) { out.Violation(sig, desc, params) }
		wit, ack := w.connectB("witness", connectOpts{Clean: true, KeepAlive: 60000})
		if ack == nil {
			fail("c09:connect", "witness")
			return
		}
		if sa, _ := wit.subscribeB([]string{"will/#"}, []byte{2}); sa == nil {
			fail("c09:suback", "witness")
			return
		}
		mk := func(name string, uid uint64, clean bool, how string, present bool) connectOpts {
			o := connectOpts{ClientID: "same-id", Clean: clean, KeepAlive: 600}
			if how == "keepalive" {
				o.KeepAlive = 4
			}
			if present {
				o.Will = &rc.Packet{Topic: []byte("will/" + name), QoS: byte(r.Intn(3)), Payload: spec.MakePayload(uid, 0, 20+r.Intn(300))}
			}
			return o
		}
		willA, willB := r.Intn(4) != 0, r.Intn(4) != 0
		A, aa := w.connectB("older", mk("older", 1, cleanA, endA, willA))
		if aa == nil || aa.ReturnCode != 0 {
			fail("c09:connect", "older connection")
			return
		}
		B, ab := w.connectB("newer", mk("newer", 2, cleanB, endB, willB))
		if ab == nil || ab.ReturnCode != 0 {
			fail("c09:connect", fmt.Sprintf("the newer connection with the same client id was not accepted (%v)", ab))
			return
		}
		if A.Closed() {
			// a broker may close the older connection when the identifier is taken over; then that end is the one examined
			out.Count("c09.overlap_takeover_closed_older", 1)
		}
		// in two cases of three one of the two subscribes while both are there: with CleanSession=0 on
		// both the filter enters the session they share, although only one of them holds it in the tree
		if x := r.Intn(3); x > 0 && !A.Closed() && !B.Closed() {
			c := B
			if x == 2 {
				c = A
			}
			if sa, _ := c.subscribeB([]string{fmt.Sprintf("ov/%d", x)}, []byte{1}); sa == nil {
				fail("c09:suback", "subscription on one of two connections with one client id")
				return
			}
			out.Count("c09.overlap_subscribed_while_shared", 1)
		}
		end := func(c *bclient, how string) {
			switch how {
			case "abrupt":
				c.Close()
			case "keepalive":
				time.Sleep(9 * time.Second)
			case "protocol-error":
				c.Send([]byte{0xf0, 0x00})
			case "disconnect":
				c.SendPacket(&rc.Packet{Type: rc.DISCONNECT})
				settle()
				c.Close()
			}
			settle()
			c.Close()
			settle()
		}
		check := func(which string, how string, present bool, uid uint64, other uint64) bool {
			got := publishesIn(wit.fresh())
			want := 0
			if present && how != "disconnect" {
				want = 1
			}
			n, foreign := 0, 0
			for _, d := range got {
				if d.ok && d.uid == uid {
					n++
				} else {
					foreign++
				}
			}
			if foreign > 0 {
				fail("c09:overlap-foreign-will", fmt.Sprintf("two connections with one client id; when the %s one ended (%s) the witness received %d will(s) that are not from its CONNECT (the other connection's will has uid %d): %v", which, how, foreign, other, got))
				return false
			}
			if n != want {
				fail("c09:overlap-will-count", fmt.Sprintf("two connections with one client id; the %s one ended (%s, will present=%v): its will was published %d times, expected %d", which, how, present, n, want))
				return false
			}
			return true
		}
		wit.fresh()
		if endA == "keepalive" && endB == "keepalive" {
			// both expire together: examined as one end
			time.Sleep(9 * time.Second)
			settle()
			A.Close()
			B.Close()
			settle()
			got := publishesIn(wit.fresh())
			cnt := map[uint64]int{}
			for _, d := range got {
				cnt[d.uid]++
			}
			wa, wb := 0, 0
			if willA {
				wa = 1
			}
			if willB {
				wb = 1
			}
			if cnt[1] != wa || cnt[2] != wb || len(got) != wa+wb {
				fail("c09:overlap-will-count", fmt.Sprintf("both connections expired: wills seen %v, expected older %d newer %d", got, wa, wb))
				return
			}
		} else {
			if endB == "keepalive" && endA != "keepalive" {
				// the newer one would expire while the older is being ended: keep it alive with a ping first
				B.SendPacket(&rc.Packet{Type: rc.PINGREQ})
			}
			end(A, endA)
			if !check("older", endA, willA, 1, 2) {
				return
			}
			if endA == "keepalive" {
				// 9 virtual seconds have passed: a newer connection with the short keep-alive is gone too
				if endB == "keepalive" {
					return
				}
			}
			if B.Closed() {
				fail("c09:overlap-newer-closed", fmt.Sprintf("the newer connection was closed when the older one with the same client id ended (%s)", endA))
				return
			}
			end(B, endB)
			if !check("newer", endB, willB, 2, 1) {
				return
			}
		}
		out.Count("c09.overlap_cases", 1)
		out.Class(fmt.Sprintf("overlap/%s/%s/c%v%v/w%v%v", endA, endB, cleanA, cleanB, willA, willB))
	})
}

func TestC09Overlap(t *testing.T) {
	n := pick(400, 8000)
	for g := 0; g < n; g++ {
		id := fmt.Sprintf("c09/overlap/%d", g)
		if !mine(g) || !out.Only(id) {
			continue
		}
		seed := caseSeed("c09o", g)
		out.Begin(id, seed, nil)
		c09Overlap(t, g, seed)
		out.End()
	}
}
