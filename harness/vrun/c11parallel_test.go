package vrun

import (
	"fmt"
	"strings"
	"sync"
	"sync/atomic"
	"testing"
	"time"

	"github.com/mdzio/go-mqtt/auth"

	"verif/harness/out"
	"verif/harness/rawclient"
	rc "verif/harness/refcodec"
	"verif/harness/spec"
)

// TestC11Parallel: acceptable CONNECTs handled at the same moment. Groups of 2..4
// connections are opened first and then send their CONNECT together - the same new
// client identifier with CleanSession=0 (a client that reconnects while its first
// attempt is still in progress), the same with CleanSession mixed, or different
// identifiers. Every one of them is acceptable and must be answered with
// CONNACK 0; a refused CONNECT with bad credentials in the same instant must get
// code 4 and be closed. Real time over net.Pipe; the verdict waits for the
// answers, it is not a deadline.
// gateAuth accepts everybody; while a gate is armed it holds every Authenticate call until as many
// calls as the gate expects have arrived (or 2 s have passed), so that the CONNECTs of a group leave
// authentication - the step before the session lookup - at the same moment. Delays only.
type gateAuth struct{}

type authGate struct {
	mu      sync.Mutex
	want    int
	arrived int
	open    chan struct{}
}

var curGate atomic.Pointer[authGate]

func (gateAuth) Authenticate(id string, cred interface{}) error {
	g := curGate.Load()
	if g == nil {
		return nil
	}
	g.mu.Lock()
	g.arrived++
	if g.arrived == g.want {
		close(g.open)
	}
	g.mu.Unlock()
	select {
	case <-g.open:
	case <-time.After(2 * time.Second):
	}
	return nil
}

func init() { auth.Register("gateauth", gateAuth{}) }

func c11Parallel(idx int, seed uint64) {
	r := spec.NewRand(seed)
	groups := 150 + r.Intn(100)
	params := map[string]interface{}{"case": idx, "groups": groups}
	fail := func(sig, desc string) { out.Violation(sig, desc, params) }
	w := newWorld(worldCfg{BufferSize: 16384, Authenticator: "gateauth"})
	defer w.shutdown()
	defer curGate.Store(nil)
	const wait = 20 * time.Second
	for g := 0; g < groups; g++ {
		n := 2 + r.Intn(3)
		kind := []string{"same-id/cs0", "same-id/mixed", "different-ids"}[r.Intn(3)]
		conns := make([]*rawclient.Client, n)
		pkts := make([][]byte, n)
		for i := range conns {
			conns[i] = rawclient.New(fmt.Sprintf("g%d-%d", g, i), w.pipe(), nil)
			o := connectOpts{ClientID: fmt.Sprintf("par-%d-%d", idx, g), Clean: false, KeepAlive: 6000}
			switch kind {
			case "same-id/mixed":
				o.Clean = r.Bool()
			case "different-ids":
				o.ClientID = fmt.Sprintf("par-%d-%d-%d", idx, g, i)
				o.Clean = r.Bool()
			}
			pkts[i] = rc.Encode(connectPacket(o))
		}
		// two groups in three pass the gate: their CONNECTs are released from authentication together
		if g%3 != 2 {
			curGate.Store(&authGate{want: n, open: make(chan struct{})})
			out.Count("c11.parallel_gated_groups", 1)
		} else {
			curGate.Store(nil)
		}
		var wg sync.WaitGroup
		start := make(chan struct{})
		for i := range conns {
			wg.Add(1)
			go func(i int) {
				defer wg.Done()
				<-start
				conns[i].Send(pkts[i])
			}(i)
		}
		close(start)
		wg.Wait()
		for i, c := range conns {
			c.WaitFor(func(l []rawclient.Event, closed bool) bool { return len(l) > 0 || closed }, wait)
			l := c.Log()
			d := fmt.Sprintf("group %d (%s): %d connections sent an acceptable CONNECT at the same moment; connection %d", g, kind, n, i)
			if len(l) == 0 {
				how := "got no answer"
				if c.Closed() {
					how = "was closed without a CONNACK"
				}
				fail("c11:parallel:no-connack:"+kind, d+" "+how)
				return
			}
			if l[0].P.Type != rc.CONNACK || l[0].P.ReturnCode != 0 {
				fail("c11:parallel:refused:"+kind, d+fmt.Sprintf(" was answered with packet type %d return code %d", l[0].P.Type, l[0].P.ReturnCode))
				return
			}
			out.Count("c11.parallel_connects", 1)
		}
		// every accepted connection works: a PINGREQ is answered
		for i, c := range conns {
			c.SendPacket(&rc.Packet{Type: rc.PINGREQ})
			if c.WaitFor(func(l []rawclient.Event, closed bool) bool { return countType(l, rc.PINGRESP) >= 1 || closed }, wait) != nil || countType(c.Log(), rc.PINGRESP) < 1 {
				if kind == "different-ids" {
					fail("c11:parallel:dead:"+kind, fmt.Sprintf("group %d: connection %d was accepted with CONNACK 0 and does not answer a PINGREQ", g, i))
					return
				}
				out.Count("c11.parallel_same_id_ended", 1) // two connections of one client identifier: the broker may end the older one
			}
		}
		for _, c := range conns {
			c.SendPacket(&rc.Packet{Type: rc.DISCONNECT})
			c.Flush()
			c.Close()
		}
		// the client comes back alone with a CONNECT that is longer than any it sent before (a will and
		// credentials added): acceptable as well, whatever is stored for the identifier by now
		if kind != "different-ids" {
			curGate.Store(nil)
			o := connectOpts{ClientID: fmt.Sprintf("par-%d-%d", idx, g), Clean: false, KeepAlive: 6000, User: "user-" + strings.Repeat("x", r.Intn(200)), Pass: "pw",
				Will: &rc.Packet{Topic: []byte("par/will"), Payload: r.Bytes(1 + r.Intn(200))}}
			c := rawclient.New(fmt.Sprintf("g%d-again", g), w.pipe(), nil)
			c.SendPacket(connectPacket(o))
			c.WaitFor(func(l []rawclient.Event, closed bool) bool { return len(l) > 0 || closed }, wait)
			if l := c.Log(); len(l) == 0 || l[0].P.Type != rc.CONNACK || l[0].P.ReturnCode != 0 {
				fail("c11:parallel:longer-connect-refused", fmt.Sprintf("group %d: the client identifier reconnected alone (CleanSession=0) with a longer CONNECT (will, user name and password added, %d bytes): not answered with CONNACK 0 (closed=%v)", g, len(rc.Encode(connectPacket(o))), c.Closed()))
				return
			}
			c.SendPacket(&rc.Packet{Type: rc.DISCONNECT})
			c.Flush()
			c.Close()
			out.Count("c11.longer_reconnects", 1)
		}
		out.Count("c11.parallel_groups", 1)
		out.Class(fmt.Sprintf("parallel/%s/n%d", kind, n))
	}
	out.Count("c11.parallel_cases", 1)
}

func TestC11Parallel(t *testing.T) {
	n := pick(8, 64)
	for g := 0; g < n; g++ {
		id := fmt.Sprintf("c11/parallel/%d", g)
		if !mine(g) || !out.Only(id) {
			continue
		}
		seed := caseSeed("c11par", g)
		out.Begin(id, seed, nil)
		c11Parallel(g, seed)
		out.End()
	}
}
