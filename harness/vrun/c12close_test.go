package vrun

import (
	"fmt"
	"sync/atomic"
	"testing"
	"time"

	logging "github.com/mdzio/go-logging"
	"github.com/mdzio/go-mqtt/message"

	"verif/harness/out"
	"verif/harness/rawclient"
	rc "verif/harness/refcodec"
	"verif/harness/spec"
)

// TestC12AckThenClose: the peer writes the acknowledgements of all outstanding
// requests in one write and closes the connection at once, while the first
// completion callback is still busy. Every acknowledgement had arrived before the
// end of the stream, so every completion must fire, once. The verdict is taken
// at the client's teardown-finished event.
func c12AckThenClose(idx int, seed uint64) {
	r := spec.NewRand(seed)
	n := 3 + r.Intn(30)
	dwell := time.Duration(r.Intn(30)) * time.Millisecond
	params := map[string]interface{}{"case": idx, "requests": n, "first_completion_dwell_ms": dwell.Milliseconds()}
	sink := newSink()
	defer curSink.Store(nil)
	// the library's warnings and errors of this case go into the violation record (a recovered panic or
	// a decode error in the client's processor would explain a missing completion)
	var lg memLogT
	logging.SetWriter(&lg)
	logging.SetLevel(logging.WarningLevel)
	defer func() { logging.SetLevel(logging.OffLevel); logging.SetWriter(&memLog) }()
	s, err := openSession(nil, 1<<20)
	if err != nil {
		out.Inconclusive("session: "+err.Error(), nil)
		return
	}
	defer s.closeAll()
	fired := make([]int32, n)
	var first int32
	kinds := make([]string, n)
	for i := 0; i < n; i++ {
		i := i
		kinds[i] = []string{"pub1", "sub", "unsub"}[r.Intn(3)]
		cb := func(msg, ack message.Message, err error) error {
			atomic.AddInt32(&fired[i], 1)
			if atomic.AddInt32(&first, 1) == 1 {
				time.Sleep(dwell)
			}
			return nil
		}
		topic := []byte(fmt.Sprintf("c12x/%d", i))
		var e error
		switch kinds[i] {
		case "pub1":
			m := message.NewPublishMessage()
			m.SetTopic(topic)
			m.SetQoS(1)
			m.SetPayload(spec.MakePayload(uint64(i+1), 0, 20))
			e = s.cln.Publish(m, cb)
		case "sub":
			m := message.NewSubscribeMessage()
			m.AddTopic(topic, 1)
			e = s.cln.Subscribe(m, cb, func(*message.PublishMessage) error { return nil })
		default:
			m := message.NewUnsubscribeMessage()
			m.AddTopic(topic)
			e = s.cln.Unsubscribe(m, cb)
		}
		if e != nil {
			out.Violation("c12:request-error", e.Error(), params)
			return
		}
	}
	isReq := func(p *rc.Packet) bool {
		return (p.Type == rc.PUBLISH && p.QoS > 0) || p.Type == rc.SUBSCRIBE || p.Type == rc.UNSUBSCRIBE
	}
	var reqs []*rc.Packet
	s.srv.WaitFor(func(l []rawclient.Event, closed bool) bool {
		reqs = reqs[:0]
		for _, e := range l {
			if isReq(e.P) {
				reqs = append(reqs, e.P)
			}
		}
		return len(reqs) >= n
	}, 20*time.Second)
	if len(reqs) != n {
		out.Violation("c12:wire", fmt.Sprintf("%d of %d requests on the wire", len(reqs), n), params)
		return
	}
	var acks []byte
	for _, p := range reqs {
		switch p.Type {
		case rc.PUBLISH:
			acks = append(acks, rc.Encode(&rc.Packet{Type: rc.PUBACK, ID: p.ID})...)
		case rc.SUBSCRIBE:
			acks = append(acks, rc.Encode(&rc.Packet{Type: rc.SUBACK, ID: p.ID, Codes: []byte{1}})...)
		default:
			acks = append(acks, rc.Encode(&rc.Packet{Type: rc.UNSUBACK, ID: p.ID})...)
		}
	}
	s.srv.Send(acks)
	s.srv.Flush()
	s.srv.Close()
	if !sink.waitCount("stop.done", s.cid, 1, 20*time.Second) {
		out.Inconclusive("c12close: the client's teardown was not observed", params)
		return
	}
	total := int32(0)
	for i := 0; i < n; i++ {
		total += atomic.LoadInt32(&fired[i])
	}
	params["completions_fired_in_total"] = total
	params["packets_handled_by_the_client"] = sink.count("proc.handled", s.cid)
	lg.mu.Lock()
	if len(lg.b) > 0 {
		l := string(lg.b)
		if len(l) > 3000 {
			l = l[:3000]
		}
		params["library_log"] = l
	}
	lg.mu.Unlock()
	for i := 0; i < n; i++ {
		if f := atomic.LoadInt32(&fired[i]); f != 1 {
			out.Violation("c12:completion-missing-at-close", fmt.Sprintf("the peer acknowledged all %d outstanding requests in one write and closed the connection; the completion of request %d (%s) fired %d times", n, i, kinds[i], f), params)
			return
		}
	}
	out.Count("c12.ack_then_close_cases", 1)
	out.Count("c12.requests", int64(n))
	out.Class(fmt.Sprintf("ackclose/n%d", n/8))
}

func TestC12AckThenClose(t *testing.T) {
	if raceEnabled {
		return
	}
	n := pick(60, 1500)
	for g := 0; g < n; g++ {
		id := fmt.Sprintf("c12/ackclose/%d", g)
		if !mine(g) || !out.Only(id) {
			continue
		}
		seed := caseSeed("c12x", g)
		out.Begin(id, seed, nil)
		c12AckThenClose(g, seed)
		out.End()
	}
}
