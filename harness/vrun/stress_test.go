package vrun

import (
	"fmt"
	"net"
	"runtime"
	"strings"
	"sync"
	"sync/atomic"
	"time"

	"github.com/mdzio/go-mqtt/message"
	"github.com/mdzio/go-mqtt/service"

	"verif/harness/chaos"
	"verif/harness/rawclient"
	rc "verif/harness/refcodec"
	"verif/harness/spec"
)

// stressCfg describes one concurrent broker workload (real time, net.Pipe).
type stressCfg struct {
	Seed        uint64
	Publishers  int
	Subscribers int
	Msgs        int    // per publisher
	Retained    bool   // retained updates on shared topics while clients subscribe (W3)
	Churn       bool   // subscribers that connect/subscribe/close repeatedly during the traffic (W1/W2)
	InProc      int    // goroutines calling Server.Publish/Subscribe/Unsubscribe (W4)
	CloseServer bool   // Server.Close while traffic is still flowing (W5)
	Reconnect   bool   // a client id reconnecting right after closing (W7)
	Fragment    bool   // broker-side read fragmentation
	LastWords   bool   // every publisher ends with a QoS 0 message followed at once by the close of its connection
	Front       string // "" = net.Pipe handed to the connection handler; "tcp", "tls", "ws" = through the library's own listener / proxy (fronts_test.go)
	GOMAXPROCS  int
	BufferSize  int64
}

type stressResult struct {
	mu         sync.Mutex
	Violations []struct{ Sig, Desc string }
	Published  int64
	Received   int64
	Subs       int64
	Churns     int64
	OrderKeys  int64
	Complete   int64
	SpaceWaits int64 // times a producer (receiver or delivering processor) had to wait for ring space
	DataWaits  int64
	Retained   int64
	DupFlagged int64
	LastWords  int64
	Clears     int64
	Inconcl    string
}

func (r *stressResult) inc(why string) {
	r.mu.Lock()
	if r.Inconcl == "" {
		r.Inconcl = why
	}
	r.mu.Unlock()
}

func (r *stressResult) viol(sig, desc string) {
	r.mu.Lock()
	defer r.mu.Unlock()
	r.Violations = append(r.Violations, struct{ Sig, Desc string }{sig, desc})
}

// uid layout: publisher(16) | topic(8) | qos(4) | reserved ; seq carries the order
func stressUID(pub, topic int, qos byte) uint64 {
	return uint64(pub)<<48 | uint64(topic)<<40 | uint64(qos)<<36
}

var stressSizes = []int{spec.PayloadMin, 100, 4096, 8192 - 40, 12000, 15900} // the last two: packets close to the 16 KiB ring (see repair 4c29119)

func runStress(cfg stressCfg) *stressResult {
	res := &stressResult{}
	if cfg.GOMAXPROCS > 0 {
		old := runtime.GOMAXPROCS(cfg.GOMAXPROCS)
		defer runtime.GOMAXPROCS(old)
	}
	if cfg.BufferSize == 0 {
		cfg.BufferSize = 16384
	}
	w := newWorld(worldCfg{BufferSize: cfg.BufferSize})
	defer w.unregister()
	raceYieldOn = raceEnabled
	defer func() { raceYieldOn = false }()
	var spaceWaits, dataWaits int64
	if !raceEnabled {
		h := func(pt string, obj interface{}) {
			switch pt {
			case "buf.wspace.prewait":
				atomic.AddInt64(&spaceWaits, 1)
			case "buf.readwait.prewait", "buf.peek.prewait":
				atomic.AddInt64(&dataWaits, 1)
			}
		}
		yieldAnyBuf.Store(&h)
		defer yieldAnyBuf.Store(nil)
	}
	defer func() {
		res.SpaceWaits, res.DataWaits = atomic.LoadInt64(&spaceWaits), atomic.LoadInt64(&dataWaits)
	}()
	var connMu sync.Mutex
	var conns []net.Conn
	var fr *front
	if cfg.Front != "" {
		var err error
		if fr, err = openFront(w, cfg.Front); err != nil {
			res.inc("front " + cfg.Front + ": " + err.Error())
			return res
		}
	}
	dial := func(name string, o connectOpts, seed uint64) *rawclient.Client {
		c, s := net.Pipe()
		var srv net.Conn = s
		if fr != nil {
			fc, err := fr.dial()
			for try := 0; err != nil && try < 20; try++ { // a full accept backlog under load is not an observation
				time.Sleep(20 * time.Millisecond)
				fc, err = fr.dial()
			}
			if err != nil {
				res.inc("front " + cfg.Front + ": dial: " + err.Error())
				fc = c // a dead pipe: nobody serves s
				s.Close()
			}
			if fc != c {
				c.Close()
				s.Close()
			}
			c, srv = fc, nil
		}
		if cfg.Fragment && srv != nil {
			fr := spec.NewRand(seed)
			var fmu sync.Mutex
			cc := chaos.Wrap(s)
			cc.Frag = func() int {
				fmu.Lock()
				defer fmu.Unlock()
				switch fr.Intn(4) {
				case 0:
					return 1 + fr.Intn(7)
				case 1:
					return 1 + fr.Intn(300)
				}
				return 0
			}
			srv = cc
		}
		if srv != nil {
			go w.svr.VerifServe(srv)
		}
		connMu.Lock()
		conns = append(conns, c)
		connMu.Unlock()
		rcl := rawclient.New(name, c, o.Policy)
		if o.ClientID == "" {
			o.ClientID = name
		}
		rcl.SendPacket(connectPacket(o))
		return rcl
	}
	waitConnack := func(c *rawclient.Client) bool {
		return c.WaitFor(func(l []rawclient.Event, closed bool) bool { return len(l) > 0 && l[0].P.Type == rc.CONNACK }, 20*time.Second) == nil
	}
	waitType := func(c *rawclient.Client, t byte, n int) bool {
		return c.WaitFor(func(l []rawclient.Event, closed bool) bool { return countType(l, t) >= n }, 30*time.Second) == nil
	}
	nTopics := 3
	topicName := func(pub, t int) string {
		if t == 0 {
			return fmt.Sprintf("st/own/%d", pub)
		}
		return fmt.Sprintf("st/shared/%d", t)
	}

	// ---- stable subscribers (their streams are checked)
	type subT struct {
		c    *rawclient.Client
		name string
	}
	var subs []subT
	for i := 0; i < cfg.Subscribers; i++ {
		name := fmt.Sprintf("sub%d", i)
		c := dial(name, connectOpts{Clean: true, KeepAlive: 600}, spec.Mix(cfg.Seed, uint64(100+i)))
		kind := i % 4
		sr := spec.NewRand(spec.Mix(cfg.Seed, uint64(200+i)))
		var smu sync.Mutex
		switch kind {
		case 1: // slow
			c.SetOnRead(func(n int) {
				smu.Lock()
				d := sr.Intn(40)
				smu.Unlock()
				time.Sleep(time.Duration(d) * time.Microsecond)
			})
		case 3: // stalling: long enough pauses that the publishers' processors block on this subscriber's full ring
			c.SetOnRead(func(n int) {
				smu.Lock()
				x := sr.Intn(12)
				smu.Unlock()
				if x == 0 {
					time.Sleep(8 * time.Millisecond)
				}
			})
		case 2: // bursty
			c.SetOnRead(func(n int) {
				smu.Lock()
				x := sr.Intn(50)
				smu.Unlock()
				if x == 0 {
					time.Sleep(2 * time.Millisecond)
				}
			})
		}
		if !waitConnack(c) {
			res.inc("subscriber CONNACK")
			return res
		}
		c.SendPacket(&rc.Packet{Type: rc.SUBSCRIBE, ID: 1, Filters: [][]byte{[]byte("st/#")}, QoSs: []byte{byte(i % 3)}})
		if !waitType(c, rc.SUBACK, 1) {
			res.inc("subscriber SUBACK")
			return res
		}
		subs = append(subs, subT{c, name})
	}

	var wg sync.WaitGroup
	stop := make(chan struct{})
	var published int64
	var pubTotals sync.Map // uid -> number of messages published under it
	var lastWords sync.Map // uid -> sequence number of the message a publisher sent right before closing its connection
	// ---- publishers
	pubDone := make([]chan struct{}, cfg.Publishers)
	for p := 0; p < cfg.Publishers; p++ {
		pubDone[p] = make(chan struct{})
		wg.Add(1)
		go func(p int) {
			defer wg.Done()
			defer close(pubDone[p])
			r := spec.NewRand(spec.Mix(cfg.Seed, uint64(300+p)))
			c := dial(fmt.Sprintf("pub%d", p), connectOpts{Clean: true, KeepAlive: 600}, spec.Mix(cfg.Seed, uint64(400+p)))
			if !waitConnack(c) {
				return
			}
			var id idGen
			seqs := map[[2]int]uint32{}
			acks := 0
			for m := 0; m < cfg.Msgs; m++ {
				t := r.Intn(nTopics)
				q := byte(r.Intn(3))
				key := [2]int{t, int(q)}
				seqs[key]++
				size := stressSizes[r.Intn(len(stressSizes))]
				if size > int(cfg.BufferSize)-300 {
					size = 4096
				}
				pk := &rc.Packet{Type: rc.PUBLISH, Topic: []byte(topicName(p, t)), QoS: q, Payload: spec.MakePayload(stressUID(p, t, q), seqs[key], size)}
				if cfg.Retained && t > 0 && r.Intn(4) == 0 {
					pk.Retain = true
				}
				if q > 0 {
					pk.ID = id.next()
					acks++
					if r.Intn(6) == 0 {
						pk.Dup = true // a retransmission flag on a packet the broker sees for the first time
						atomic.AddInt64(&res.DupFlagged, 1)
					}
				}
				c.SendPacket(pk)
				atomic.AddInt64(&published, 1)
				if cfg.Retained && t > 0 && r.Intn(10) == 0 {
					// a retained publish with an empty payload clears what is stored for the topic (it is
					// forwarded like any message and recognised by its empty payload; it takes no sequence number)
					c.SendPacket(&rc.Packet{Type: rc.PUBLISH, Topic: []byte(topicName(p, t)), Retain: true})
					atomic.AddInt64(&res.Clears, 1)
				}
				if m%16 == 15 {
					// keep the number of unacknowledged publishes bounded
					want := acks
					c.WaitFor(func(l []rawclient.Event, closed bool) bool {
						return countType(l, rc.PUBACK)+countType(l, rc.PUBCOMP) >= want-8
					}, 30*time.Second)
				}
			}
			want := acks
			if err := c.WaitFor(func(l []rawclient.Event, closed bool) bool {
				return countType(l, rc.PUBACK)+countType(l, rc.PUBCOMP) >= want
			}, 60*time.Second); err != nil && !cfg.CloseServer {
				res.inc(fmt.Sprintf("publisher %d: acks missing (%v)", p, err))
			}
			c.SendPacket(&rc.Packet{Type: rc.PINGREQ})
			waitType(c, rc.PINGRESP, 1)
			if cfg.LastWords {
				// one more QoS 0 message and the connection is closed at once: the transport may hand the
				// broker these bytes together with the end of the stream
				key := [2]int{0, 0}
				seqs[key]++
				c.SendPacket(&rc.Packet{Type: rc.PUBLISH, Topic: []byte(topicName(p, 0)), Payload: spec.MakePayload(stressUID(p, 0, 0), seqs[key], 100)})
				atomic.AddInt64(&published, 1)
				c.Flush()
				c.Close()
				lastWords.Store(stressUID(p, 0, 0), seqs[key])
			}
			for key, n := range seqs {
				pubTotals.Store(stressUID(p, key[0], byte(key[1])), n)
			}
		}(p)
	}
	// ---- in-process API users
	for g := 0; g < cfg.InProc; g++ {
		wg.Add(1)
		go func(g int) {
			defer wg.Done()
			r := spec.NewRand(spec.Mix(cfg.Seed, uint64(500+g)))
			var fn service.OnPublishFunc = func(m *message.PublishMessage) error { return nil }
			seq := uint32(0)
			for m := 0; m < cfg.Msgs; m++ {
				select {
				case <-stop:
					return
				default:
				}
				switch r.Intn(6) {
				case 0:
					w.svr.Subscribe("st/shared/+", byte(r.Intn(3)), &fn)
				case 1:
					w.svr.Unsubscribe("st/shared/+", &fn)
				default:
					seq++
					pm := message.NewPublishMessage()
					pm.SetTopic([]byte(fmt.Sprintf("st/inproc/%d", g)))
					q := byte(r.Intn(3))
					pm.SetQoS(q)
					pm.SetPayload(spec.MakePayload(stressUID(1000+g, 0, 0), seq, stressSizes[r.Intn(3)]))
					if cfg.Retained && r.Intn(8) == 0 {
						pm.SetRetain(true)
					}
					w.svr.Publish(pm)
					atomic.AddInt64(&published, 1)
				}
			}
			if seq > 0 {
				pubTotals.Store(stressUID(1000+g, 0, 0), seq)
			}
		}(g)
	}
	// ---- churn: short-lived subscribers torn down while deliveries are addressed to them
	var churns int64
	if cfg.Churn {
		for g := 0; g < 3; g++ {
			wg.Add(1)
			go func(g int) {
				defer wg.Done()
				r := spec.NewRand(spec.Mix(cfg.Seed, uint64(600+g)))
				for k := 0; ; k++ {
					select {
					case <-stop:
						return
					default:
					}
					name := fmt.Sprintf("churn%d-%d", g, k)
					if cfg.Reconnect {
						name = fmt.Sprintf("churn%d", g) // the same id again, right after the close
					}
					c := dial(name, connectOpts{ClientID: name, Clean: r.Bool(), KeepAlive: 600,
						Will: &rc.Packet{Topic: []byte("st/will"), QoS: byte(r.Intn(2)), Payload: spec.MakePayload(stressUID(2000+g, 0, 0), uint32(k), 40)}}, spec.Mix(cfg.Seed, uint64(700+g*1000+k)))
					if !waitConnack(c) {
						c.Close()
						continue
					}
					c.SendPacket(&rc.Packet{Type: rc.SUBSCRIBE, ID: 1, Filters: [][]byte{[]byte("st/shared/#"), []byte("st/own/+")}, QoSs: []byte{byte(r.Intn(3)), 0}})
					waitType(c, rc.SUBACK, 1)
					time.Sleep(time.Duration(r.Intn(3000)) * time.Microsecond)
					if r.Intn(3) == 0 {
						c.SendPacket(&rc.Packet{Type: rc.UNSUBSCRIBE, ID: 2, Filters: [][]byte{[]byte("st/own/+")}})
					}
					if r.Bool() {
						c.SendPacket(&rc.Packet{Type: rc.DISCONNECT})
					}
					if ferr := c.FrameErr(); ferr != nil {
						res.viol("c17:framing", fmt.Sprintf("%s: %v", name, ferr))
					}
					for _, e := range c.Log() {
						if e.P.Type == rc.PUBLISH {
							if len(e.P.Payload) == 0 {
								continue // a clearing publish
							}
							if _, _, ok := spec.ParsePayload(e.P.Payload); !ok {
								res.viol("c17:payload", fmt.Sprintf("%s: PUBLISH on %q (retain=%v) with a payload that fails its CRC (%d bytes)", name, e.P.Topic, e.P.Retain, len(e.P.Payload)))
							}
							if e.P.Retain {
								atomic.AddInt64(&res.Retained, 1)
							}
						}
					}
					c.Close()
					atomic.AddInt64(&churns, 1)
				}
			}(g)
		}
	}
	// ---- wait for the publishers, optionally closing the server under them
	if cfg.CloseServer {
		select {
		case <-pubDone[0]:
		case <-time.After(time.Duration(2+cfg.Seed%5) * time.Millisecond):
		}
		func() {
			defer func() { recover() }()
			w.svr.Close()
		}()
	}
	for _, d := range pubDone {
		select {
		case <-d:
		case <-time.After(90 * time.Second):
			res.inc("publishers did not finish")
		}
	}
	close(stop)
	wg.Wait()
	// ---- barrier on every stable subscriber, then check its stream
	if !cfg.CloseServer {
		for _, s := range subs {
			s.c.SendPacket(&rc.Packet{Type: rc.PINGREQ})
			if !waitType(s.c, rc.PINGRESP, 1) {
				res.inc(s.name + ": no PINGRESP at the final barrier")
			}
		}
	}
	// messages sent right before the publisher's close are behind no barrier of the subscribers: the
	// broker forwards them while it winds that connection up. They are waited for (generously); one that
	// does not come is reported by the exactly-once comparison below.
	if cfg.LastWords && !cfg.CloseServer {
		lwDeadline := time.Now().Add(10 * time.Second) // for all of them together
		lastWords.Range(func(k, v interface{}) bool {
			uid, seq := k.(uint64), v.(uint32)
			for _, s := range subs {
				s.c.WaitFor(func(l []rawclient.Event, closed bool) bool {
					if closed {
						return true
					}
					for i := len(l) - 1; i >= 0 && i >= len(l)-64; i-- {
						if l[i].P.Type == rc.PUBLISH {
							if u, q, ok := spec.ParsePayload(l[i].P.Payload); ok && u == uid && q == seq {
								return true
							}
						}
					}
					return false
				}, max(time.Until(lwDeadline), 50*time.Millisecond))
			}
			res.LastWords++
			return true
		})
	}
	for _, s := range subs {
		if ferr := s.c.FrameErr(); ferr != nil {
			res.viol("c17:framing", fmt.Sprintf("%s received a byte stream that is not a sequence of well-formed packets: %v", s.name, ferr))
			continue
		}
		last := map[uint64]uint32{}
		count := map[uint64]uint32{}
		for _, e := range s.c.Log() {
			if e.P.Type != rc.PUBLISH {
				continue
			}
			res.Received++
			if len(e.P.Payload) == 0 && !e.P.Retain {
				continue // a clearing publish, forwarded live
			}
			uid, seq, ok := spec.ParsePayload(e.P.Payload)
			if !ok {
				res.viol("c17:payload", fmt.Sprintf("%s: PUBLISH on %q with a payload that fails its CRC (%d bytes)", s.name, e.P.Topic, len(e.P.Payload)))
				break
			}
			if e.P.Retain {
				res.Retained++
				continue // retained copies replay old values
			}
			if uid>>48 >= 2000 {
				continue // wills
			}
			if prev, seen := last[uid]; seen && seq <= prev {
				res.viol("c17:order", fmt.Sprintf("%s: publisher %d topic %d QoS %d: sequence %d arrived after %d", s.name, uid>>48, (uid>>40)&0xff, (uid>>36)&0xf, seq, prev))
				break
			}
			last[uid] = seq
			count[uid]++
		}
		res.OrderKeys += int64(len(last))
		// exactly once: a stable subscriber holds one matching subscription for the whole run, so every
		// publish acknowledged to its publisher (or returned from Server.Publish) arrives exactly once
		if !cfg.CloseServer && res.Inconcl == "" {
			pubTotals.Range(func(k, v interface{}) bool {
				uid, n := k.(uint64), v.(uint32)
				if count[uid] != n || last[uid] != n {
					res.viol("c01:exactly-once", fmt.Sprintf("%s (subscribed to st/# during the whole run): publisher %d topic %d QoS %d published %d messages, %d arrived (last sequence %d)", s.name, uid>>48, (uid>>40)&0xff, (uid>>36)&0xf, n, count[uid], last[uid]))
					return false
				}
				res.Complete++
				return true
			})
		}
	}
	if fr != nil {
		for _, sg := range fr.shutdown() {
			res.viol(sg[0], sg[1])
		}
	} else if !cfg.CloseServer {
		func() {
			defer func() { recover() }()
			w.svr.Close()
		}()
	}
	connMu.Lock()
	for _, c := range conns {
		c.Close()
	}
	connMu.Unlock()
	for _, s := range subs {
		s.c.Close()
	}
	res.Published = atomic.LoadInt64(&published)
	res.Subs = int64(len(subs))
	res.Churns = atomic.LoadInt64(&churns)
	// let the library's goroutines drain before the next scenario
	left := noLibGoroutines(5 * time.Second)
	if fr != nil && len(left) > 0 {
		res.viol("c16:front:goroutines-left:"+cfg.Front+":"+strings.Join(libTopsNow(), "+"), fmt.Sprintf("the server behind the %s front is closed and every client connection has been closed: %d goroutine(s) of the library remain: %v", cfg.Front, len(left), libTopsNow()))
	}
	return res
}
