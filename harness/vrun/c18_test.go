package vrun

import (
	"fmt"
	"testing"

	"github.com/mdzio/go-mqtt/service"

	"verif/harness/out"
	"verif/harness/spec"
)

// TestC18 drives the concurrent workloads W1..W7 of the design; in the -race
// build the Go race detector is the monitor (its reports are parsed by the
// driver from the GORACE log files), here only the overlap evidence is counted.
func TestC18(t *testing.T) {
	n := pick(36, 360)
	workloads := []string{"W1-churn", "W2-fanout-to-dying", "W3-retained-vs-subscribe", "W4-inprocess-api", "W5-server-close"}
	if out.EnvStr("VERIF_WORKLOAD", "main") == "w7" {
		// reported separately: the same client id reconnecting while its previous connection is still being torn down
		workloads = []string{"W7-reconnect-same-id"}
		n = pick(8, 60)
	}
	for g := 0; g < n; g++ {
		id := fmt.Sprintf("c18/%d", g)
		if !mine(g) || !out.Only(id) {
			continue
		}
		seed := caseSeed("c18", g)
		r := spec.NewRand(seed)
		wl := workloads[g%len(workloads)]
		cfg := stressCfg{Seed: seed, Publishers: 2 + r.Intn(5), Subscribers: 2 + r.Intn(3), Msgs: pick(80, 200), Fragment: r.Bool(), GOMAXPROCS: []int{2, 4, 16}[(g/len(workloads))%3], BufferSize: 16384}
		switch wl {
		case "W1-churn":
			cfg.Churn = true
		case "W2-fanout-to-dying":
			cfg.Churn = true
			cfg.Publishers = 6
		case "W3-retained-vs-subscribe":
			cfg.Churn, cfg.Retained, cfg.InProc = true, true, 1
		case "W4-inprocess-api":
			cfg.InProc, cfg.Churn = 3, true
		case "W5-server-close":
			cfg.Churn, cfg.CloseServer = true, true
		case "W7-reconnect-same-id":
			cfg.Churn, cfg.Reconnect = true, true
		}
		params := map[string]interface{}{"workload": wl, "publishers": cfg.Publishers, "subscribers": cfg.Subscribers, "msgs": cfg.Msgs, "gomaxprocs": cfg.GOMAXPROCS, "race_build": raceEnabled}
		out.Begin(id, seed, params)
		var before [service.VerifCountLen]int64
		copy(before[:], service.VerifCount[:])
		res := runStress(cfg)
		reportStress("c18", cfg, res, params)
		names := []string{"writes", "writes_during_target_teardown", "writes_after_target_teardown", "teardowns", "retain_calls", "subscribe_processing", "subscribe_processing_during_retain", "retain_during_subscribe_processing", "subscriber_lookups"}
		for i, nm := range names {
			out.Count("c18.overlap."+nm, service.VerifCount[i]-before[i])
		}
		out.Class(fmt.Sprintf("wl/%s/mp%d/frag%v", wl, cfg.GOMAXPROCS, cfg.Fragment))
		if g < len(workloads) {
			out.Sample("c18", 6, map[string]interface{}{"params": params, "published": res.Published, "churned_connections": res.Churns})
		}
		out.End()
	}
}
