package vrun

import (
	"fmt"
	"strings"
	"sync"
	"testing"
	"time"

	"github.com/mdzio/go-mqtt/message"

	"verif/harness/out"
	"verif/harness/rawclient"
	rc "verif/harness/refcodec"
	"verif/harness/spec"
)

// TestC20SameID: two or three library Clients of one process use the same client
// identifier, each towards its own server (scripted TCP peers on different
// ports) - a bridge that presents one identity to several brokers. Every server
// answers CONNACK 0, so every Connect must succeed; each client's callbacks see
// exactly the messages its own server delivers; ending one client leaves the
// others working, and it can connect again under the same identifier.
func c20SameID(idx int, seed uint64) {
	r := spec.NewRand(seed)
	n := 2 + r.Intn(2)
	cid := fmt.Sprintf("bridge-%d", idx)
	params := map[string]interface{}{"case": idx, "clients": n, "client_id": cid}
	fail := func(sig, desc string) { out.Violation(sig, desc, params) }
	ss := make([]*session, n)
	var mu sync.Mutex
	got := make([][]uint64, n)
	open := func(i int) bool {
		s, err := openSessionID(rawclient.AckPrompt, 0, cid)
		if err != nil {
			if strings.Contains(err.Error(), "panic:") {
				fail("c20:connect-panic:same-id", fmt.Sprintf("client %d of %d with client identifier %q, its server answered (or would have answered) CONNACK 0: Connect panicked: %v", i, n, cid, err))
			} else {
				fail("c20:connect-refused:same-id", fmt.Sprintf("client %d of %d with client identifier %q, its server answered CONNACK 0: %v", i, n, cid, err))
			}
			return false
		}
		ss[i] = s
		sm := message.NewSubscribeMessage()
		sm.AddTopic([]byte("br/#"), 0)
		done := make(chan struct{}, 2)
		if err := s.cln.Subscribe(sm, func(msg, ack message.Message, err error) error { done <- struct{}{}; return nil },
			func(pm *message.PublishMessage) error {
				u, _, _ := spec.ParsePayload(pm.Payload())
				mu.Lock()
				got[i] = append(got[i], u)
				mu.Unlock()
				return nil
			}); err != nil {
			fail("c20:subscribe-call", err.Error())
			return false
		}
		var sub *rc.Packet
		s.srv.WaitFor(func(l []rawclient.Event, closed bool) bool {
			for _, e := range l {
				if e.P.Type == rc.SUBSCRIBE {
					sub = e.P
					return true
				}
			}
			return closed
		}, 10*time.Second)
		if sub == nil {
			fail("c20:subscribe-wire", "no SUBSCRIBE on the wire")
			return false
		}
		s.srv.SendPacket(&rc.Packet{Type: rc.SUBACK, ID: sub.ID, Codes: []byte{0}})
		select {
		case <-done:
		case <-time.After(10 * time.Second):
			fail("c20:subscribe-completion", "Subscribe completion did not fire")
			return false
		}
		return true
	}
	defer func() {
		for _, s := range ss {
			if s != nil {
				s.closeAll()
			}
		}
	}()
	for i := 0; i < n; i++ {
		if !open(i) {
			return
		}
	}
	uid := uint64(0)
	want := make([][]uint64, n)
	deliver := func(i int) {
		uid++
		want[i] = append(want[i], uid)
		ss[i].srv.SendPacket(&rc.Packet{Type: rc.PUBLISH, Topic: []byte(fmt.Sprintf("br/%d", i)), Payload: spec.MakePayload(uid, 0, 30)})
	}
	check := func(when string) bool {
		for i, s := range ss {
			if s == nil {
				continue
			}
			if !s.barrier(10 * time.Second) {
				fail("c20:barrier", fmt.Sprintf("%s: client %d does not answer its server's PINGREQ", when, i))
				return false
			}
		}
		mu.Lock()
		defer mu.Unlock()
		for i := range ss {
			if fmt.Sprint(got[i]) != fmt.Sprint(want[i]) {
				fail("c20:dispatch:same-id", fmt.Sprintf("%s: %d clients share the client identifier %q; client %d's callback saw messages %v, its server delivered %v", when, n, cid, i, got[i], want[i]))
				return false
			}
		}
		return true
	}
	for k := 0; k < 6; k++ {
		deliver(r.Intn(n))
	}
	if !check("all connected") {
		return
	}
	// one of them ends; the others go on; it comes back
	v := r.Intn(n)
	ss[v].closeAll()
	ss[v] = nil
	for k := 0; k < 6; k++ {
		if i := r.Intn(n); i != v {
			deliver(i)
		}
	}
	if !check("one client disconnected") {
		return
	}
	if !open(v) {
		return
	}
	for k := 0; k < 6; k++ {
		deliver(r.Intn(n))
	}
	if !check("reconnected") {
		return
	}
	out.Count("c20.sameid_cases", 1)
	out.Class(fmt.Sprintf("sameid/n%d", n))
}

func TestC20SameID(t *testing.T) {
	n := pick(24, 200)
	for g := 0; g < n; g++ {
		id := fmt.Sprintf("c20/sameid/%d", g)
		if !mine(g) || !out.Only(id) {
			continue
		}
		seed := caseSeed("c20sid", g)
		out.Begin(id, seed, nil)
		c20SameID(g, seed)
		out.End()
	}
}
