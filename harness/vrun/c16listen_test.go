package vrun

import (
	"fmt"
	"sort"
	"strings"
	"testing"
	"time"

	"verif/harness/out"
	"verif/harness/spec"
)

// TestC16ListenClose: Server.Close against a server whose ListenAndServe has just
// been started in another goroutine (a program that shuts down during start-up).
// Close is called after a seeded delay of 0..400 microseconds. Whenever Close has
// returned, ListenAndServe has to return as well and no goroutine of the library
// may remain; in particular the listener must not stay open behind a server that
// has been closed, and Close itself must return normally however early it comes. Decided on goroutine snapshots once ListenAndServe has had
// ample time (the accept loop is parked in Accept when it was missed).
func c16ListenClose(idx int, seed uint64) {
	r := spec.NewRand(seed)
	rounds := 200
	params := map[string]interface{}{"case": idx, "rounds": rounds}
	for rd := 0; rd < rounds; rd++ {
		w := newWorld(worldCfg{})
		svr := w.svr
		ret := make(chan error, 1)
		started := make(chan struct{})
		go func() {
			close(started)
			ret <- svr.ListenAndServe("tcp://127.0.0.1:0")
		}()
		<-started
		delay := time.Duration(r.Intn(400)) * time.Microsecond
		if rd%4 == 0 {
			delay = 0
		}
		time.Sleep(delay)
		closed := make(chan struct{})
		var closePanic interface{}
		go func() {
			defer close(closed)
			defer func() { closePanic = recover() }()
			svr.Close()
		}()
		select {
		case <-closed:
		case <-time.After(20 * time.Second):
			out.Violation("c16:server-close-stuck:listen", "Server.Close did not return on a server that was starting to listen", params)
			return
		}
		if closePanic != nil {
			out.Violation("c16:server-close-panic:listen", fmt.Sprintf("round %d: Server.Close, called %v after ListenAndServe had been started in another goroutine, panicked: %v", rd, delay, closePanic), params)
			return
		}
		select {
		case <-ret:
			out.Count("c16.listen_close_rounds", 1)
		case <-time.After(3 * time.Second):
			var tops []string
			for _, g := range libGoroutines() {
				tops = append(tops, g.libTop()+":"+g.state)
			}
			sort.Strings(tops)
			out.Violation("c16:listener-left-open:"+strings.Join(uniq(tops), "+"), fmt.Sprintf("round %d: Server.Close was called %v after ListenAndServe had been started and has returned; ListenAndServe is still running 3 s later (library goroutines: %v)", rd, delay, uniq(tops)), params)
			return
		}
		w.unregister()
	}
	if left := noLibGoroutines(3 * time.Second); len(left) > 0 {
		out.Violation("c16:goroutines-left:listen", fmt.Sprintf("%d library goroutines remain: %s", len(left), left[0].libTop()), params)
		return
	}
	out.Count("c16.listen_close_cases", 1)
	out.Class("listen-close")
}

func TestC16ListenClose(t *testing.T) {
	n := pick(8, 64)
	for g := 0; g < n; g++ {
		id := fmt.Sprintf("c16/listenclose/%d", g)
		if !mine(g) || !out.Only(id) {
			continue
		}
		seed := caseSeed("c16lc", g)
		out.Begin(id, seed, nil)
		c16ListenClose(g, seed)
		out.End()
	}
}
