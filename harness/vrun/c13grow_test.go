package vrun

import (
	"bytes"
	"fmt"
	"testing"
	"time"

	"github.com/mdzio/go-mqtt/message"

	"verif/harness/out"
	rc "verif/harness/refcodec"
)

// slowAck is an acknowledgement whose Encode takes a while: Ackqueue.Ack calls
// the Encode of the message it is given, so a slow message (any message.Message
// implementation is allowed) keeps that call in progress while another
// goroutine registers a request.
type slowAck struct {
	message.Message
	hook func()
}

func (s slowAck) Encode(b []byte) (int, error) {
	s.hook()
	return s.Message.Encode(b)
}

// c13Grow: the queue is full and its ring wrapped (head != 0); while one
// in-flight request is being acknowledged, another goroutine registers one
// more request, which makes the queue grow and move every entry. Both calls
// commute in the model, so afterwards the queue must hold every request in
// registration order, the acknowledged one (and only it) carrying its own
// acknowledgement.
func c13Grow(k qkind, capN, head, xpos int) (sig, desc string) {
	q := newQueue(k)
	type ent struct {
		id       uint16
		req, ack []byte
		token    int
	}
	var model []*ent
	reg := func(id uint16) error {
		rec := reqRecord(k, id, int(id))
		m, err := libBuild(rec, false)
		if err != nil {
			return err
		}
		if err := q.Wait(m, int(id)); err != nil {
			return err
		}
		model = append(model, &ent{id: id, req: rc.Encode(rec), token: int(id)})
		return nil
	}
	ackMsg := func(id uint16) (message.Message, []byte) {
		rec := ackRecord(k.terminal, id)
		m, _ := libBuild(rec, false)
		return m, rc.Encode(rec)
	}
	next := uint16(1)
	// the queue grows 16 -> 32 -> ... ; bring it to capacity capN with everything collected
	for c := 16; c < capN; c *= 2 {
		for i := 0; i < c+1; i++ {
			if err := reg(next); err != nil {
				return "c13:wait-error:" + k.name, err.Error()
			}
			next++
		}
		for _, e := range model {
			m, a := ackMsg(e.id)
			q.Ack(m)
			e.ack = a
		}
		if got := q.Acked(); len(got) != len(model) {
			return "c13:collect-count:" + k.name, fmt.Sprintf("warm-up: %d of %d collected", len(got), len(model))
		}
		model = nil
	}
	// fill, release `head` entries, refill: full and wrapped
	for i := 0; i < capN; i++ {
		if err := reg(next); err != nil {
			return "c13:wait-error:" + k.name, err.Error()
		}
		next++
	}
	for _, e := range model[:head] {
		m, a := ackMsg(e.id)
		q.Ack(m)
		e.ack = a
	}
	if got := q.Acked(); len(got) != head {
		return "c13:collect-count:" + k.name, fmt.Sprintf("setup: %d of %d collected", len(got), head)
	}
	model = model[head:]
	for i := 0; i < head; i++ {
		if err := reg(next); err != nil {
			return "c13:wait-error:" + k.name, err.Error()
		}
		next++
	}
	// concurrent pair: Ack(x) in progress while Wait(new) grows the queue
	x := model[xpos%len(model)]
	am, abytes := ackMsg(x.id)
	inEncode := make(chan struct{})
	regDone := make(chan error, 1)
	newID := next
	next++
	go func() {
		<-inEncode
		regDone <- reg(newID)
	}()
	overlapped := false
	err := q.Ack(slowAck{Message: am, hook: func() {
		close(inEncode)
		select {
		case e := <-regDone: // the registration completed inside the Ack call
			regDone <- e
			overlapped = true
		case <-time.After(2 * time.Millisecond): // the queue keeps it out (its lock is held): fine
		}
	}})
	if err != nil {
		return "c13:ack-error:" + k.name, err.Error()
	}
	x.ack = abytes
	if e := <-regDone; e != nil {
		return "c13:wait-error:" + k.name, e.Error()
	}
	if overlapped {
		out.Count("c13.grow.overlapped", 1)
	}
	// nothing but x (if it is the head) may be released now
	got := q.Acked()
	wantN := 0
	if model[0] == x {
		wantN = 1
	}
	if len(got) != wantN || (wantN == 1 && got[0].Pktid != x.id) {
		var ids []uint16
		for _, g := range got {
			ids = append(ids, g.Pktid)
		}
		return "c13:collect-count:" + k.name, fmt.Sprintf("request %d (position %d of %d in flight, ring head %d, capacity %d) was acknowledged while request %d was being registered: collect returned %v, expected %d entries", x.id, xpos%len(model), len(model), head, capN, newID, ids, wantN)
	}
	var rest []*ent
	if wantN == 1 {
		if !bytes.Equal(got[0].Ackbuf, x.ack) || !bytes.Equal(got[0].Msgbuf, x.req) {
			return "c13:ack-bytes:" + k.name, "released head carries foreign bytes"
		}
		rest = model[1:]
	} else {
		rest = model
	}
	// acknowledge everything else in order; the whole list must come back in registration order
	for _, e := range rest {
		if e == x {
			continue
		}
		m, a := ackMsg(e.id)
		q.Ack(m)
		e.ack = a
	}
	got = q.Acked()
	if len(got) != len(rest) {
		var ids []uint16
		for _, g := range got {
			ids = append(ids, g.Pktid)
		}
		return "c13:collect-count:" + k.name, fmt.Sprintf("request %d was acknowledged while request %d was being registered (queue full, ring head %d, capacity %d); after acknowledging all %d requests in flight collect returned %d: %v", x.id, newID, head, capN, len(rest), len(got), ids)
	}
	for i, w := range rest {
		g := got[i]
		if g.Pktid != w.id {
			return "c13:collect-order:" + k.name, fmt.Sprintf("entry %d has id %d, registration order says %d", i, g.Pktid, w.id)
		}
		if byte(g.State) != k.terminal || !bytes.Equal(g.Msgbuf, w.req) || !bytes.Equal(g.Ackbuf, w.ack) {
			return "c13:ack-bytes:" + k.name, fmt.Sprintf("id %d: state %v, request %s, ack %s (own ack %s)", w.id, g.State, hex(g.Msgbuf), hex(g.Ackbuf), hex(w.ack))
		}
		if tk, ok := g.OnComplete.(int); !ok || tk != w.token {
			return "c13:completion-token:" + k.name, fmt.Sprintf("id %d completion token %v, registered %d", w.id, g.OnComplete, w.token)
		}
	}
	return "", ""
}

func TestC13Grow(t *testing.T) {
	i := 0
	for _, k := range qkinds {
		for _, capN := range []int{16, 32, 64} {
			for head := 1; head < capN; head += 1 + capN/16 {
				for _, xpos := range []int{0, 1, capN / 2, capN - 2, capN - 1} {
					i++
					id := fmt.Sprintf("c13/grow/%s/%d/%d/%d", k.name, capN, head, xpos)
					if !mine(i) || !out.Only(id) {
						continue
					}
					out.Begin(id, 0, nil)
					if sig, desc := c13Grow(k, capN, head, xpos); sig != "" {
						out.Violation(sig, desc, map[string]interface{}{"queue": k.name, "capacity": capN, "head": head, "acked_position": xpos})
					} else {
						out.Count("c13.grow.cells", 1)
						out.Class(fmt.Sprintf("grow/%s/%d", k.name, capN))
					}
					out.End()
				}
			}
		}
	}
}
