package vrun

import (
	"fmt"
	"io"
	"strings"
	"sync"
	"sync/atomic"
	"testing"
	"time"

	"verif/harness/out"
)

const c15Size = 16384

type c15State struct {
	name         string
	offset, fill int64
}

var c15States = []c15State{
	{"empty", 100, 0},
	{"partial", 100, 1000},
	{"full", 0, c15Size},
	{"wrapped-partial", c15Size - 500, 1000},
	{"wrapped-full", c15Size - 500, c15Size},
	{"nearly-full", 100, c15Size - 4000}, // less than one 8 KiB block free
}

var c15Ops = []string{"Read", "ReadPeek", "ReadWait", "WriteTo", "Write", "WriteWait", "WriteCommit", "ReadFrom"}
var c15Events = []string{"enough", "short-then-rest", "close1", "close2", "close-par", "close-from-blocked-side"}
var c15Timings = []string{"parked", "prewait-yield", "prelock-hold"}

func isConsumerOp(op string) bool {
	return op == "Read" || op == "ReadPeek" || op == "ReadWait" || op == "WriteTo"
}

// c15Cell runs one cell of the matrix. It returns a class key ("" if the cell
// does not apply).
func c15Cell(st c15State, op, ev, timing string, seed uint64) string {
	avail := st.fill
	free := int64(c15Size) - st.fill
	// how much the blocked op asks for, and how much the peer must supply
	var n, need int64
	blocks := false
	switch op {
	case "Read", "ReadPeek":
		n = 64
		blocks = avail == 0
		need = 1
	case "WriteTo":
		n = 64
		blocks = true // drains what is there, then parks until data or Close
		need = 1
	case "ReadWait":
		n = avail + 300
		if n > c15Size {
			n = c15Size
		}
		blocks = n > avail
		need = n - avail
	case "Write", "WriteWait", "WriteCommit":
		n = free + 300
		if n > c15Size {
			n = c15Size
		}
		blocks = n > free
		need = n - free
	case "ReadFrom":
		n = 8192
		blocks = free < 8192
		need = 8192 - free
	}
	if timing != "parked" && !blocks {
		return "" // yield points are only reached on the wait path
	}
	if timing == "prelock-hold" && op == "Read" {
		return "" // Read has no pre-lock point
	}
	if (ev == "enough" || ev == "short-then-rest") && !blocks {
		return ""
	}
	if ev == "short-then-rest" && need < 2 {
		return ""
	}

	b := prepRing(c15Size, st.offset, st.fill, seed)
	var ids []int
	var idmu sync.Mutex
	addID := func() {
		idmu.Lock()
		ids = append(ids, goid())
		idmu.Unlock()
	}
	getIDs := func() []int {
		idmu.Lock()
		defer idmu.Unlock()
		return append([]int{}, ids...)
	}
	var pending int64
	spawn := func(f func()) {
		atomic.AddInt64(&pending, 1)
		go func() {
			addID()
			defer atomic.AddInt64(&pending, -1)
			f()
		}()
	}
	finished := func() bool { return atomic.LoadInt64(&pending) == 0 }

	// yield steering for this buffer
	atPrewait := make(chan struct{}, 8)
	atPrelock := make(chan struct{}, 8)
	release := make(chan struct{})
	var prelockOnce, prewaitOnce sync.Once
	yieldTable.Store(b, func(point string) {
		switch {
		case strings.HasSuffix(point, ".prewait") && timing == "prewait-yield":
			prewaitOnce.Do(func() {
				atPrewait <- struct{}{}
				time.Sleep(5 * time.Millisecond) // holds the condition's mutex: delay only
			})
		case strings.HasSuffix(point, ".prelock") && timing == "prelock-hold":
			prelockOnce.Do(func() {
				atPrelock <- struct{}{}
				<-release // no lock held here: an arbitrarily long preemption is a legal schedule
			})
		}
	})
	defer yieldTable.Delete(b)

	detail := map[string]interface{}{"state": st.name, "op": op, "event": ev, "timing": timing, "n": n, "avail": avail, "free": free}
	var bDone int64
	var blockedID int64
	var opErr atomic.Pointer[error]
	// the operation under test
	spawn(func() {
		atomic.StoreInt64(&blockedID, int64(goid()))
		defer atomic.StoreInt64(&bDone, 1)
		var err error
		switch op {
		case "Read":
			p := make([]byte, n)
			_, err = b.Read(p)
		case "ReadPeek":
			_, err = b.ReadPeek(int(n))
		case "ReadWait":
			_, err = b.ReadWait(int(n))
		case "WriteTo":
			_, err = b.WriteTo(&streamWriter{seed: seed, pos: st.offset, badAt: -1})
		case "Write":
			p := make([]byte, n)
			fillStream(p, seed, st.offset+st.fill)
			_, err = b.Write(p)
		case "WriteWait":
			_, _, err = b.WriteWait(int(n))
		case "WriteCommit":
			_, err = b.WriteCommit(int(n))
		case "ReadFrom":
			_, err = b.ReadFrom(&streamReader{seed: seed, pos: st.offset + st.fill, end: st.offset + st.fill + 8192, final: errStop})
		}
		opErr.Store(&err)
		if ev == "close-from-blocked-side" {
			b.Close()
		}
	})

	// wait for the timing point
	reached := true
	switch timing {
	case "parked":
		if blocks {
			reached = waitParked(&blockedID, &bDone, 2*time.Second)
		} else {
			reached = waitFlag(&bDone, 2*time.Second) || op == "WriteTo" || op == "ReadFrom"
		}
	case "prewait-yield":
		reached = waitChan(atPrewait, 2*time.Second)
	case "prelock-hold":
		reached = waitChan(atPrelock, 2*time.Second)
	}
	if !reached {
		out.Inconclusive("timing point not reached", detail)
		close(release)
		b.Close()
		return ""
	}

	// the enabling event, from a peer goroutine
	// the peer uses either pair of calls the service uses: Write / Read, or reserve+commit / peek+commit
	viaCommit := seed%2 == 1
	detail["peer_uses_commit_calls"] = viaCommit
	supply := func(k int64) {
		if isConsumerOp(op) {
			p := make([]byte, k)
			fillStream(p, seed, st.offset+st.fill)
			if viaCommit {
				if dst, wrap, err := b.WriteWait(int(k)); err == nil && !wrap && int64(len(dst)) >= k {
					copy(dst, p)
					b.WriteCommit(int(k))
					return
				}
			}
			b.Write(p)
		} else if viaCommit {
			// free k bytes through peek + commit
			left := k
			for left > 0 {
				m := left
				if m > 4096 {
					m = 4096
				}
				b.ReadPeek(int(m))
				got, err := b.ReadCommit(int(m))
				if err != nil {
					return
				}
				left -= int64(got)
			}
		} else {
			// free k bytes
			left := k
			tmp := make([]byte, 4096)
			for left > 0 {
				m := int64(len(tmp))
				if left < m {
					m = left
				}
				got, err := b.Read(tmp[:m])
				if err != nil {
					return
				}
				left -= int64(got)
			}
		}
	}
	evDone := make(chan struct{})
	spawn(func() {
		defer close(evDone)
		switch ev {
		case "enough":
			supply(need)
		case "short-then-rest":
			supply(need - 1)
			time.Sleep(time.Millisecond)
			if isConsumerOp(op) {
				p := []byte{streamByte(seed, st.offset+st.fill+need-1)}
				b.Write(p)
			} else {
				supply(1)
			}
		case "close1", "close-from-blocked-side":
			b.Close()
		case "close2":
			b.Close()
			b.Close()
		case "close-par":
			var wg sync.WaitGroup
			for i := 0; i < 2; i++ {
				wg.Add(1)
				spawn(func() { defer wg.Done(); b.Close() })
			}
			wg.Wait()
		}
	})
	if timing == "prelock-hold" {
		// the event must have completed entirely before the held call continues;
		// an event that itself cannot complete is already the finding
		select {
		case <-evDone:
		case <-time.After(2 * time.Second):
		}
		close(release)
	}

	// phase 1: everything that can return must return. WriteTo/ReadFrom only
	// return on Close, so for the data/space events close afterwards.
	if ev == "enough" || ev == "short-then-rest" {
		if op == "WriteTo" || op == "ReadFrom" {
			// give the drain loop a moment, then end it
			time.Sleep(2 * time.Millisecond)
			<-evDone
			spawn(func() { b.Close() })
		}
	}
	stuck, inc := stuckVerdict(getIDs, finished, 5*time.Second)
	if inc {
		out.Inconclusive("goroutines still running at the watchdog", detail)
		return ""
	}
	if stuck != nil {
		reportStuck("c15:stuck", stuck, detail)
		return fmt.Sprintf("cell/%s/%s/%s/%s/stuck", st.name, op, ev, timing)
	}

	// a call that could only wait and was ended by Close must report end-of-stream
	if blocks && strings.HasPrefix(ev, "close") {
		if ep := opErr.Load(); ep != nil {
			res := "nil"
			if *ep != nil {
				res = (*ep).Error()
			}
			out.Count("c15.closed_results", 1)
			if *ep != io.EOF {
				out.Violation("c15:closed-result:"+op+":"+res, fmt.Sprintf("%s could only wait (%d bytes asked, %d available, %d free) and the buffer was closed meanwhile: it returned %s instead of end-of-stream", op, n, avail, free, res), detail)
				return fmt.Sprintf("cell/%s/%s/%s/%s/result", st.name, op, ev, timing)
			}
		}
	}

	// phase 2: Close (again) and the later-calls probe
	probes := map[string]func(){
		"Close":       func() { b.Close() },
		"Len":         func() { b.Len() },
		"Read":        func() { b.Read(make([]byte, 1)) },
		"ReadPeek":    func() { b.ReadPeek(1) },
		"ReadWait":    func() { b.ReadWait(1) },
		"ReadCommit":  func() { b.ReadCommit(0) },
		"Write":       func() { b.Write([]byte{0}) },
		"WriteWait":   func() { b.WriteWait(1) },
		"WriteCommit": func() { b.WriteCommit(0) },
	}
	spawn(func() { b.Close() })
	stuck, inc = stuckVerdict(getIDs, finished, 5*time.Second)
	if stuck == nil && !inc {
		// one call at a time (the ring is single-producer/single-consumer)
		for _, name := range []string{"Close", "Len", "Read", "ReadPeek", "ReadWait", "ReadCommit", "Write", "WriteWait", "WriteCommit"} {
			f := probes[name]
			detail["probe"] = name
			spawn(f)
			stuck, inc = stuckVerdict(getIDs, finished, 5*time.Second)
			if stuck != nil || inc {
				break
			}
		}
	}
	if inc {
		out.Inconclusive("later-calls probe still running at the watchdog", detail)
		return ""
	}
	if stuck != nil {
		pl, cl := b.VerifLocksFree()
		detail["producer_lock_free"], detail["consumer_lock_free"] = pl, cl
		reportStuck("c15:later-call-stuck", stuck, detail)
		return fmt.Sprintf("cell/%s/%s/%s/%s/stuck", st.name, op, ev, timing)
	}
	if pl, cl := b.VerifLocksFree(); !pl || !cl {
		// no probe was caught but a lock is leaked: show it with one more call
		detail["producer_lock_free"], detail["consumer_lock_free"] = pl, cl
		out.Violation("c15:lock-leaked", fmt.Sprintf("after all calls returned an internal mutex is still held (producer free=%v consumer free=%v)", pl, cl), detail)
	}
	out.Count("c15.cells", 1)
	if blocks {
		out.Count("c15.cells_blocking", 1)
	}
	return fmt.Sprintf("cell/%s/%s/%s/%s", st.name, op, ev, timing)
}

func reportStuck(prefix string, stuck []*gInfo, detail map[string]interface{}) {
	// signature: innermost library frames and states of the stuck goroutines
	var parts []string
	var stacks []string
	seen := map[string]bool{}
	for _, g := range stuck {
		p := g.libTop() + ":" + g.state
		if !seen[p] {
			seen[p] = true
			parts = append(parts, p)
		}
		s := g.stack
		if len(s) > 1500 {
			s = s[:1500]
		}
		stacks = append(stacks, s)
	}
	sortStrings(parts)
	d := map[string]interface{}{"stuck_goroutines": stacks}
	for k, v := range detail {
		d[k] = v
	}
	out.Violation(prefix+":"+strings.Join(parts, "+"), fmt.Sprintf("%d goroutine(s) parked with no enabled action left to wake them: %s", len(stuck), strings.Join(parts, ", ")), d)
}

func sortStrings(s []string) {
	for i := 1; i < len(s); i++ {
		for j := i; j > 0 && s[j] < s[j-1]; j-- {
			s[j], s[j-1] = s[j-1], s[j]
		}
	}
}

func waitChan(c chan struct{}, d time.Duration) bool {
	select {
	case <-c:
		return true
	case <-time.After(d):
		return false
	}
}

func waitFlag(f *int64, d time.Duration) bool {
	dl := time.Now().Add(d)
	for time.Now().Before(dl) {
		if atomic.LoadInt64(f) != 0 {
			return true
		}
		time.Sleep(200 * time.Microsecond)
	}
	return false
}

// waitParked waits until the goroutine whose id is stored in *idp is parked in
// sync.Cond.Wait (or has finished).
func waitParked(idp, done *int64, d time.Duration) bool {
	dl := time.Now().Add(d)
	for time.Now().Before(dl) {
		if atomic.LoadInt64(done) != 0 {
			return true
		}
		if id := int(atomic.LoadInt64(idp)); id != 0 {
			if g := snapshot()[id]; g != nil && strings.HasPrefix(g.state, "sync.Cond.Wait") {
				return true
			}
		}
		time.Sleep(300 * time.Microsecond)
	}
	return false
}

func TestC15(t *testing.T) {
	reps := pick(1, 6)
	i := 0
	for rep := 0; rep < reps; rep++ {
		for _, st := range c15States {
			for _, op := range c15Ops {
				for _, ev := range c15Events {
					for _, tm := range c15Timings {
						i++
						id := fmt.Sprintf("c15/%s/%s/%s/%s/%d", st.name, op, ev, tm, rep)
						if !mine(i) || !out.Only(id) {
							continue
						}
						seed := caseSeed("c15", i)
						// Begin is written only for applicable cells (c15Cell decides);
						// emit it first so a crash is attributable.
						out.Begin(id, seed, nil)
						if key := c15Cell(st, op, ev, tm, seed); key != "" {
							out.Class(key)
							if i%97 == 0 {
								out.Sample("c15.cell", 4, map[string]string{"state": st.name, "op": op, "event": ev, "timing": tm})
							}
						} else {
							out.Count("c15.not_applicable", 1)
						}
						out.End()
					}
				}
			}
		}
	}
}
