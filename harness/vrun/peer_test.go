package vrun

import (
	"crypto/tls"
	"fmt"
	"net"
	"sync/atomic"
	"time"

	"github.com/mdzio/go-mqtt/message"
	"github.com/mdzio/go-mqtt/service"

	"verif/harness/rawclient"
	rc "verif/harness/refcodec"
)

// peer is a scripted MQTT server on 127.0.0.1 for driving the library Client
// (client role). It strict-parses everything the client sends.
type peer struct {
	ln  net.Listener
	uri string
	tls bool
}

// peerTLS: the peers opened while it is set speak TLS, and the library Client reaches them through
// ConnectTLS instead of Connect (a second copy of the connect sequence in the library).
var peerTLS atomic.Bool

func newPeer() (*peer, error) {
	ln, err := net.Listen("tcp", "127.0.0.1:0")
	if err != nil {
		return nil, err
	}
	p := &peer{ln: ln, uri: "tcp://" + ln.Addr().String()}
	if peerTLS.Load() {
		cert, err := selfSigned()
		if err != nil {
			ln.Close()
			return nil, err
		}
		p.ln, p.tls = tls.NewListener(ln, &tls.Config{Certificates: []tls.Certificate{cert}}), true
	}
	return p, nil
}

// connect makes the library Client connect to the peer the way the peer speaks.
func (p *peer) connect(cln *service.Client, msg *message.ConnectMessage) error {
	if p.tls {
		return cln.ConnectTLS(p.uri, msg, &tls.Config{InsecureSkipVerify: true})
	}
	return cln.Connect(p.uri, msg)
}

func (p *peer) close() { p.ln.Close() }

// acceptRaw accepts one connection.
func (p *peer) acceptRaw(d time.Duration) (net.Conn, error) {
	if tl, ok := p.ln.(*net.TCPListener); ok {
		tl.SetDeadline(time.Now().Add(d))
	}
	return p.ln.Accept()
}

var cidSeq int64

func uniqueCID(prefix string) string {
	return fmt.Sprintf("%s%d", prefix, atomic.AddInt64(&cidSeq, 1))
}

func clientConnectMsg(cid string, keepAlive uint16) *message.ConnectMessage {
	m := message.NewConnectMessage()
	m.SetVersion(4)
	m.SetCleanSession(true)
	m.SetClientID([]byte(cid))
	m.SetKeepAlive(keepAlive)
	return m
}

// session is a connected library Client with its scripted peer side.
type session struct {
	cln  *service.Client
	srv  *rawclient.Client // peer side (server role), policy AckNone unless set
	cid  string
	peer *peer
}

// openSession connects a library Client to a fresh peer that answers CONNACK 0.
func openSession(policy rawclient.AckPolicy, bufSize int64) (*session, error) {
	return openSessionID(policy, bufSize, uniqueCID("cl"))
}

// sessionConnectTimeout is the ConnectTimeout (seconds) of the Clients openSessionID creates.
var sessionConnectTimeout = 5

// openSessionID is openSession with a given client identifier. A panic inside Client.Connect is
// returned as an error that starts with "panic:".
func openSessionID(policy rawclient.AckPolicy, bufSize int64, cid string) (*session, error) {
	p, err := newPeer()
	if err != nil {
		return nil, err
	}
	cln := &service.Client{ConnectTimeout: sessionConnectTimeout, BufferSize: bufSize}
	errc := make(chan error, 1)
	go func() {
		defer func() {
			if r := recover(); r != nil {
				errc <- fmt.Errorf("panic: %v", r)
			}
		}()
		errc <- p.connect(cln, clientConnectMsg(cid, 600))
	}()
	conn, err := p.acceptRaw(5 * time.Second)
	if err != nil {
		p.close()
		return nil, fmt.Errorf("accept: %v", err)
	}
	if policy == nil {
		policy = rawclient.AckNone
	}
	srv := rawclient.New("peer", conn, policy)
	// wait for the CONNECT, answer CONNACK 0
	if err := srv.WaitFor(func(l []rawclient.Event, closed bool) bool { return len(l) > 0 }, 5*time.Second); err != nil {
		srv.Close()
		p.close()
		return nil, fmt.Errorf("no CONNECT: %v", err)
	}
	srv.SendPacket(&rc.Packet{Type: rc.CONNACK})
	select {
	case err := <-errc:
		if err != nil {
			srv.Close()
			p.close()
			return nil, fmt.Errorf("Connect: %v", err)
		}
	case <-time.After(10 * time.Second):
		srv.Close()
		p.close()
		return nil, fmt.Errorf("Connect did not return")
	}
	return &session{cln: cln, srv: srv, cid: cid, peer: p}, nil
}

// barrier: the peer sends PINGREQ and waits for the client's PINGRESP; the
// client's processor is sequential, so everything the peer sent before has
// been processed when it returns true.
func (s *session) barrier(d time.Duration) bool {
	n := 0
	for _, e := range s.srv.Log() {
		if e.P.Type == rc.PINGRESP {
			n++
		}
	}
	s.srv.SendPacket(&rc.Packet{Type: rc.PINGREQ})
	err := s.srv.WaitFor(func(l []rawclient.Event, closed bool) bool {
		c := 0
		for _, e := range l {
			if e.P.Type == rc.PINGRESP {
				c++
			}
		}
		return c > n
	}, d)
	return err == nil
}

func (s *session) closeAll() {
	func() {
		defer func() { recover() }()
		s.cln.Disconnect()
	}()
	s.srv.Close()
	s.peer.close()
}

// noLibGoroutines waits (bounded) until no goroutine has a frame inside the
// library; it returns the leftovers.
func noLibGoroutines(d time.Duration) []*gInfo {
	deadline := time.Now().Add(d)
	for {
		gs := libGoroutines()
		if len(gs) == 0 || time.Now().After(deadline) {
			return gs
		}
		time.Sleep(5 * time.Millisecond)
	}
}
