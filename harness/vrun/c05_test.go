package vrun

import (
	"bufio"
	"fmt"
	"net"
	"os"
	"os/exec"
	"path/filepath"
	"strings"
	"sync"
	"testing"
	"time"

	"github.com/mdzio/go-mqtt/service"

	"verif/harness/out"
	"verif/harness/rawclient"
	rc "verif/harness/refcodec"
	"verif/harness/spec"
)

// TestBrokerProc is the broker child process of C05: a real ListenAndServe on
// 127.0.0.1. It only runs when VERIF_BROKER is set (re-exec of this binary).
func TestBrokerProc(t *testing.T) {
	if os.Getenv("VERIF_BROKER") == "" {
		return
	}
	l, err := net.Listen("tcp", "127.0.0.1:0")
	if err != nil {
		fmt.Println("ERR", err)
		os.Exit(3)
	}
	addr := l.Addr().String()
	l.Close()
	svr := &service.Server{BufferSize: 16384, ConnectTimeout: 1, KeepAlive: 600}
	go func() {
		// announce the address once the listener accepts
		for i := 0; i < 200; i++ {
			c, err := net.Dial("tcp", addr)
			if err == nil {
				c.Close()
				fmt.Println("PORT", addr)
				os.Stdout.Sync()
				return
			}
			time.Sleep(5 * time.Millisecond)
		}
		fmt.Println("ERR no listener")
		os.Exit(3)
	}()
	err = svr.ListenAndServe("tcp://" + addr)
	fmt.Println("ListenAndServe returned:", err)
	os.Exit(4)
}

type brokerProc struct {
	cmd    *exec.Cmd
	addr   string
	errlog string
	exited chan struct{}
	err    error
}

func startBroker(tag string) (*brokerProc, error) {
	dir := os.Getenv("VERIF_WORK")
	if dir == "" {
		dir = os.TempDir()
	}
	b := &brokerProc{errlog: filepath.Join(dir, fmt.Sprintf("broker-%s-%d.stderr", tag, os.Getpid())), exited: make(chan struct{})}
	cmd := exec.Command(os.Args[0], "-test.run", "^TestBrokerProc$", "-test.timeout", "0")
	cmd.Env = append(os.Environ(), "VERIF_BROKER=1", "VERIF_OUT="+filepath.Join(dir, fmt.Sprintf("broker-%s-%d.jsonl", tag, os.Getpid())))
	ef, err := os.Create(b.errlog)
	if err != nil {
		return nil, err
	}
	cmd.Stderr = ef
	so, err := cmd.StdoutPipe()
	if err != nil {
		return nil, err
	}
	if err := cmd.Start(); err != nil {
		return nil, err
	}
	b.cmd = cmd
	sc := bufio.NewScanner(so)
	got := make(chan string, 1)
	go func() {
		for sc.Scan() {
			l := sc.Text()
			if strings.HasPrefix(l, "PORT ") {
				got <- strings.TrimPrefix(l, "PORT ")
			}
		}
	}()
	go func() { b.err = cmd.Wait(); ef.Close(); close(b.exited) }()
	select {
	case b.addr = <-got:
	case <-b.exited:
		return nil, fmt.Errorf("broker process exited at start: %v", b.err)
	case <-time.After(20 * time.Second):
		cmd.Process.Kill()
		return nil, fmt.Errorf("broker process did not announce its port")
	}
	return b, nil
}

func (b *brokerProc) alive() bool {
	select {
	case <-b.exited:
		return false
	default:
		return true
	}
}

func (b *brokerProc) stderrHead() string {
	d, _ := os.ReadFile(b.errlog)
	if len(d) > 4000 {
		d = d[:4000]
	}
	return string(d)
}

func (b *brokerProc) kill() {
	if b.alive() {
		b.cmd.Process.Kill()
		<-b.exited
	}
	os.Remove(b.errlog)
}

func (b *brokerProc) dial(name string, policy rawclient.AckPolicy) (*rawclient.Client, error) {
	c, err := net.DialTimeout("tcp", b.addr, 5*time.Second)
	if err != nil {
		return nil, err
	}
	return rawclient.New(name, c, policy), nil
}

func (b *brokerProc) connect(name string, o connectOpts) (*rawclient.Client, error) {
	c, err := b.dial(name, o.Policy)
	if err != nil {
		return nil, err
	}
	if o.ClientID == "" {
		o.ClientID = name
	}
	c.SendPacket(connectPacket(o))
	if err := c.WaitFor(func(l []rawclient.Event, closed bool) bool {
		return len(l) > 0 && l[0].P.Type == rc.CONNACK && l[0].P.ReturnCode == 0
	}, 10*time.Second); err != nil {
		c.Close()
		return nil, fmt.Errorf("no CONNACK: %v", err)
	}
	return c, nil
}

// attack is one hostile connection scenario.
type attack struct {
	name  string
	class string
	run   func(b *brokerProc, r *spec.Rand) (detail map[string]interface{})
}

func sendRawAndClose(pre []byte, linger time.Duration) func(b *brokerProc, r *spec.Rand) map[string]interface{} {
	return func(b *brokerProc, r *spec.Rand) map[string]interface{} {
		c, err := net.DialTimeout("tcp", b.addr, 5*time.Second)
		if err != nil {
			return map[string]interface{}{"dial": err.Error()}
		}
		c.Write(pre)
		if linger > 0 {
			c.SetReadDeadline(time.Now().Add(linger))
			buf := make([]byte, 64)
			c.Read(buf)
		}
		c.Close()
		return map[string]interface{}{"bytes": hex(pre)}
	}
}

// afterConnect runs f on a connection that completed the MQTT handshake.
func afterConnect(f func(c *rawclient.Client, r *spec.Rand) map[string]interface{}) func(b *brokerProc, r *spec.Rand) map[string]interface{} {
	return func(b *brokerProc, r *spec.Rand) map[string]interface{} {
		c, err := b.connect(uniqueCID("atk"), connectOpts{Clean: true, KeepAlive: 600, Policy: rawclient.AckNone})
		if err != nil {
			return map[string]interface{}{"connect": err.Error()}
		}
		defer c.Close()
		return f(c, r)
	}
}

func buildAttacks(r *spec.Rand, n int) []attack {
	var as []attack
	add := func(class, name string, run func(b *brokerProc, r *spec.Rand) map[string]interface{}) {
		as = append(as, attack{name: name, class: class, run: run})
	}
	validConnect := rc.Encode(connectPacket(connectOpts{ClientID: "atk-pre", Clean: true, KeepAlive: 60, Will: &rc.Packet{Topic: []byte("atk/will"), Payload: []byte("w")}, User: "u", Pass: "p"}))
	// ---- pre-CONNECT
	for i := 0; i <= len(validConnect); i++ {
		add("pre/prefix-close", fmt.Sprintf("CONNECT cut at %d then close", i), sendRawAndClose(validConnect[:i], 0))
	}
	for i := 1; i < len(validConnect) && i < 48; i++ {
		for _, v := range []byte{0xff, 0x00, validConnect[i] + 1} {
			m := append([]byte{}, validConnect...)
			m[i] = v
			add("pre/field-corrupt", fmt.Sprintf("CONNECT byte %d = %#x", i, v), sendRawAndClose(m, 20*time.Millisecond))
		}
	}
	// well-framed short CONNECTs: the fixed header announces exactly the k body bytes that follow
	// (protocol 3.1.1 and 3.1), so the decoder sees a complete packet that ends inside a field
	oldConnect := rc.Encode(&rc.Packet{Type: rc.CONNECT, ProtoName: "MQIsdp", Level: 3, CleanSession: true, KeepAlive: 60, ClientID: []byte("atk-pre3"), HasUser: true, User: []byte("u")})
	for _, vc := range [][]byte{validConnect, oldConnect} {
		body := vc[2:] // both are shorter than 128 bytes: one length byte
		for k := 0; k < len(body); k++ {
			m := append([]byte{0x10, byte(k)}, body[:k]...)
			add("pre/framed-short", fmt.Sprintf("CONNECT (protocol name of %d bytes) framed to its first %d body bytes", vc[3], k), sendRawAndClose(m, 20*time.Millisecond))
		}
	}
	// the mutation corpus of the codec check, applied to CONNECT packets, as the first packet
	for i := 0; i < n/8; i++ {
		p := genRecord(r, rc.CONNECT)
		w := rc.Encode(canonical(p))
		if len(w) > 6000 {
			continue
		}
		var variants [][]byte
		var kinds []string
		mutations(r, w, func(kind string, b []byte) {
			variants = append(variants, append([]byte{}, b...))
			kinds = append(kinds, kind)
		})
		k := r.Intn(len(variants))
		add("pre/mutated", "CONNECT "+kinds[k], sendRawAndClose(variants[k], 20*time.Millisecond))
	}
	for t := byte(2); t <= 14; t++ {
		p := []byte{t<<4 | rc.FixedFlags(t), 0}
		add("pre/wrong-first", "first packet type "+rc.TypeName(t), sendRawAndClose(p, 20*time.Millisecond))
	}
	add("pre/remlen", "unterminated remaining length", sendRawAndClose([]byte{0x10, 0xff, 0xff, 0xff, 0xff, 0xff, 0xff, 0xff}, 20*time.Millisecond))
	add("pre/remlen", "maximum remaining length then close", sendRawAndClose([]byte{0x10, 0xff, 0xff, 0xff, 0x7f, 0, 4}, 0))
	add("pre/remlen", "remaining length larger than the ring", sendRawAndClose(append([]byte{0x10}, rc.AppendVarint(nil, 100000)...), 0))
	for i := 0; i < n/8; i++ {
		add("pre/random", "random bytes", sendRawAndClose(r.Bytes(1+r.Intn(64)), 0))
	}
	add("pre/silence", "connect and say nothing (connect timeout)", sendRawAndClose(nil, 1500*time.Millisecond))
	add("pre/silence", "half a CONNECT and silence (connect timeout)", sendRawAndClose(validConnect[:len(validConnect)/2], 1500*time.Millisecond))
	// ---- post-CONNECT: mutated packets of every type
	for i := 0; i < n/2; i++ {
		ty := allTypes[i%len(allTypes)]
		p := genRecord(r, ty)
		if len(p.Payload) > 3000 {
			p.Payload = p.Payload[:3000]
		}
		w := rc.Encode(canonical(p))
		if len(w) > 6000 {
			continue
		}
		var variants [][]byte
		var kinds []string
		mutations(r, w, func(kind string, b []byte) {
			variants = append(variants, append([]byte{}, b...))
			kinds = append(kinds, kind)
		})
		k := r.Intn(len(variants))
		v, kind := variants[k], kinds[k]
		add("post/mutated", fmt.Sprintf("%s %s", rc.TypeName(ty), kind), afterConnect(func(c *rawclient.Client, r *spec.Rand) map[string]interface{} {
			c.Send(v)
			c.Flush()
			time.Sleep(time.Duration(r.Intn(2000)) * time.Microsecond)
			return map[string]interface{}{"bytes": hex(v)}
		}))
	}
	// packets around and beyond the ring size
	for _, sz := range []int{8192 - 16, 8192, 8192 + 16, 16384 - 8, 16384, 16384 + 8, 40000, 1 << 20} {
		sz := sz
		add("post/oversized", fmt.Sprintf("PUBLISH of %d bytes", sz), afterConnect(func(c *rawclient.Client, r *spec.Rand) map[string]interface{} {
			pk := rc.Encode(&rc.Packet{Type: rc.PUBLISH, Topic: []byte("atk/big"), Payload: make([]byte, sz)})
			c.Send(pk)
			c.WaitFor(func(l []rawclient.Event, closed bool) bool { return closed }, 300*time.Millisecond)
			return map[string]interface{}{"size": sz}
		}))
	}
	// valid packets a client must not send
	for _, p := range []*rc.Packet{{Type: rc.CONNACK}, {Type: rc.SUBACK, ID: 1, Codes: []byte{0}}, connectPacket(connectOpts{ClientID: "again", Clean: true}), {Type: rc.PINGRESP}, {Type: rc.PUBREL, ID: 77}, {Type: rc.PUBCOMP, ID: 78}, {Type: rc.PUBACK, ID: 79}, {Type: rc.PUBREC, ID: 80}, {Type: rc.UNSUBACK, ID: 81}} {
		p := p
		add("post/unexpected-type", "client sends "+rc.TypeName(p.Type), afterConnect(func(c *rawclient.Client, r *spec.Rand) map[string]interface{} {
			c.SendPacket(p)
			c.SendPacket(&rc.Packet{Type: rc.PINGREQ})
			c.WaitFor(func(l []rawclient.Event, closed bool) bool { return closed || countType(l, rc.PINGRESP) > 0 }, 300*time.Millisecond)
			return nil
		}))
	}
	// valid packets with unusual but legal contents: topic names with a '$'-leading level (nothing
	// forbids a client to publish there), a will on such a topic, QoS 1/2; the connection holds a
	// subscription, so its own teardown has to change the subscription tree afterwards
	for _, tp := range []string{"$SYS/not/for/clients", "$x", "a/$b/c", "$"} {
		for _, q := range []byte{0, 1, 2} {
			tp, q := tp, q
			add("post/dollar-topic", fmt.Sprintf("PUBLISH to %q at QoS %d, then leave", tp, q), func(b *brokerProc, r *spec.Rand) map[string]interface{} {
				c, err := b.connect(uniqueCID("atk"), connectOpts{Clean: true, KeepAlive: 600, Will: &rc.Packet{Topic: []byte(tp), QoS: q, Payload: []byte("w")}})
				if err != nil {
					return map[string]interface{}{"connect": err.Error()}
				}
				defer c.Close()
				c.SendPacket(&rc.Packet{Type: rc.SUBSCRIBE, ID: 1, Filters: [][]byte{[]byte("atk/own/#")}, QoSs: []byte{1}})
				pk := &rc.Packet{Type: rc.PUBLISH, QoS: q, Topic: []byte(tp), Payload: spec.MakePayload(5, 0, 40), Retain: r.Bool()}
				if q > 0 {
					pk.ID = 9
				}
				c.SendPacket(pk)
				c.SendPacket(&rc.Packet{Type: rc.PINGREQ})
				c.WaitFor(func(l []rawclient.Event, closed bool) bool { return closed || countType(l, rc.PINGRESP) > 0 }, 300*time.Millisecond)
				if r.Bool() {
					c.Send([]byte{0xf0, 0x00}) // ends abnormally: the will (on the '$' topic) is due as well
					c.Flush()
				}
				return map[string]interface{}{"topic": tp, "qos": q}
			})
		}
	}
	// ---- a client identifier with a large stored session whose live connection keeps changing its
	// subscriptions while further connections with the same identifier come (resuming the session) and
	// are cut: set-up and teardown of those walk the session's filter list while the live connection
	// changes it
	for i := 0; i < 8; i++ {
		add("disc/same-id-churn", "connections resuming a session of 2000 filters are cut while the live connection of that client subscribes and unsubscribes", func(b *brokerProc, r *spec.Rand) map[string]interface{} {
			id := uniqueCID("dev")
			live, err := b.connect(id, connectOpts{ClientID: id, Clean: false, KeepAlive: 600})
			if err != nil {
				return map[string]interface{}{"connect": err.Error()}
			}
			defer live.Close()
			var pid idGen
			req := func(ty byte, base, n int) *rc.Packet {
				p := &rc.Packet{Type: ty, ID: pid.next()}
				for k := 0; k < n; k++ {
					p.Filters = append(p.Filters, []byte(fmt.Sprintf("atk/dev/%d/%d", base, k)))
					if ty == rc.SUBSCRIBE {
						p.QoSs = append(p.QoSs, byte(k%3))
					}
				}
				return p
			}
			for g := 0; g < 20; g++ {
				live.SendPacket(req(rc.SUBSCRIBE, g, 100))
			}
			live.WaitFor(func(l []rawclient.Event, closed bool) bool { return closed || countType(l, rc.SUBACK) >= 20 }, 10*time.Second)
			stop := make(chan struct{})
			done := make(chan struct{})
			go func() {
				defer close(done)
				for k := 0; ; k++ {
					select {
					case <-stop:
						return
					default:
					}
					live.SendPacket(req(rc.SUBSCRIBE, 1000+k%3, 100))
					live.SendPacket(req(rc.UNSUBSCRIBE, 1000+k%3, 100))
					want := k + 1
					live.WaitFor(func(l []rawclient.Event, closed bool) bool { return closed || countType(l, rc.UNSUBACK) >= want }, 5*time.Second)
				}
			}()
			cuts := 0
			for k := 0; k < 60 && b.alive(); k++ {
				c, err := b.dial("dev-again", nil)
				if err != nil {
					break
				}
				c.SendPacket(connectPacket(connectOpts{ClientID: id, Clean: false, KeepAlive: 600}))
				if r.Intn(3) > 0 {
					c.WaitFor(func(l []rawclient.Event, closed bool) bool { return closed || len(l) > 0 }, 5*time.Second)
				} else {
					c.Flush()
				}
				c.Close()
				cuts++
			}
			close(stop)
			<-done
			out.Count("c05.same_id_churn_attacks", 1)
			out.Count("c05.same_id_connections_cut", int64(cuts))
			return map[string]interface{}{"same_id_connections_cut": cuts}
		})
	}
	// ---- disconnects: close at every byte offset of a packet
	sub := rc.Encode(&rc.Packet{Type: rc.SUBSCRIBE, ID: 5, Filters: [][]byte{[]byte("atk/x/#"), []byte("atk/y")}, QoSs: []byte{1, 2}})
	pub := rc.Encode(&rc.Packet{Type: rc.PUBLISH, QoS: 2, ID: 6, Topic: []byte("atk/x/1"), Payload: spec.MakePayload(1, 0, 40)})
	for _, w := range [][]byte{sub, pub} {
		w := w
		for i := 0; i <= len(w); i += 1 + len(w)/24 {
			i := i
			add("disc/cut-packet", fmt.Sprintf("close after %d of %d bytes", i, len(w)), afterConnect(func(c *rawclient.Client, r *spec.Rand) map[string]interface{} {
				c.Send(w[:i])
				c.Flush()
				return nil
			}))
		}
	}
	// close while subscribed to the witness topic with witness traffic flowing
	for i := 0; i < n/4; i++ {
		add("disc/during-delivery", "subscriber of the witness topic closes mid-traffic", nil) // handled specially
	}
	add("disc/half-close", "half-close after SUBSCRIBE", afterConnect(func(c *rawclient.Client, r *spec.Rand) map[string]interface{} {
		c.SendPacket(&rc.Packet{Type: rc.SUBSCRIBE, ID: 1, Filters: [][]byte{[]byte("wit/#")}, QoSs: []byte{1}})
		c.Flush()
		c.CloseWrite()
		time.Sleep(5 * time.Millisecond)
		return nil
	}))
	for i := 0; i < 6; i++ {
		add("disc/stopped-reading", "subscriber of the witness topic stops reading, then closes", nil) // special
	}
	for i := 0; i < 4; i++ {
		add("disc/stalled-then-cut", "subscriber stops reading until a bystander's deliveries block on it, then is cut", nil) // special
	}
	return as
}

// c05Batch runs attacks against one broker process with a witness pair.
func c05Batch(batchID int, seed uint64, n int) {
	r := spec.NewRand(seed)
	b, err := startBroker(fmt.Sprintf("b%d", batchID))
	if err != nil {
		out.Inconclusive("broker start: "+err.Error(), nil)
		return
	}
	defer b.kill()
	wsub, err := b.connect(uniqueCID("wsub"), connectOpts{Clean: true, KeepAlive: 600})
	if err != nil {
		out.Inconclusive("witness: "+err.Error(), nil)
		return
	}
	defer wsub.Close()
	wpub, err := b.connect(uniqueCID("wpub"), connectOpts{Clean: true, KeepAlive: 600})
	if err != nil {
		out.Inconclusive("witness: "+err.Error(), nil)
		return
	}
	defer wpub.Close()
	idle, err := b.connect(uniqueCID("idle"), connectOpts{Clean: true, KeepAlive: 600})
	if err != nil {
		out.Inconclusive("witness: "+err.Error(), nil)
		return
	}
	defer idle.Close()
	wsub.SendPacket(&rc.Packet{Type: rc.SUBSCRIBE, ID: 1, Filters: [][]byte{[]byte("wit/#")}, QoSs: []byte{1}})
	if err := wsub.WaitFor(func(l []rawclient.Event, closed bool) bool { return countType(l, rc.SUBACK) == 1 }, 10*time.Second); err != nil {
		out.Inconclusive("witness SUBACK", nil)
		return
	}
	var wseq uint32
	var pid idGen
	var wmu sync.Mutex
	// witnessRound publishes k numbered messages and demands exactly them, in order
	witnessRound := func(k int) (string, string) {
		wmu.Lock()
		defer wmu.Unlock()
		start := wseq
		for i := 0; i < k; i++ {
			wseq++
			wpub.SendPacket(&rc.Packet{Type: rc.PUBLISH, QoS: 1, ID: pid.next(), Topic: []byte("wit/t"), Payload: spec.MakePayload(42, wseq, 60)})
		}
		want := wseq
		err := wsub.WaitFor(func(l []rawclient.Event, closed bool) bool {
			for i := len(l) - 1; i >= 0; i-- {
				if l[i].P.Type == rc.PUBLISH {
					_, s, ok := spec.ParsePayload(l[i].P.Payload)
					return ok && s >= want
				}
			}
			return false
		}, 15*time.Second)
		if !b.alive() {
			return "c05:broker-died", fmt.Sprintf("the broker process exited (%v); stderr: %s", b.err, b.stderrHead())
		}
		if wsub.Closed() || wpub.Closed() || idle.Closed() {
			return "c05:bystander-disconnected", fmt.Sprintf("a bystander connection was closed by the broker (witness subscriber closed=%v, witness publisher closed=%v, idle observer closed=%v)", wsub.Closed(), wpub.Closed(), idle.Closed())
		}
		if err != nil {
			return "c05:witness-traffic-stalled", fmt.Sprintf("witness message %d did not arrive: %v", want, err)
		}
		if ferr := wsub.FrameErr(); ferr != nil {
			return "c05:witness-stream-corrupt", ferr.Error()
		}
		// exact sequence start+1..want, nothing else
		var seen []uint32
		for _, e := range wsub.Log() {
			if e.P.Type == rc.PUBLISH {
				uid, s, ok := spec.ParsePayload(e.P.Payload)
				if !ok || uid != 42 || string(e.P.Topic) != "wit/t" {
					return "c05:witness-foreign-message", fmt.Sprintf("the witness subscriber received a message it should not get: topic %q (payload ok=%v)", e.P.Topic, ok)
				}
				if s > start {
					seen = append(seen, s)
				}
			}
		}
		for i, s := range seen {
			if s != start+uint32(i)+1 {
				return "c05:witness-sequence", fmt.Sprintf("witness sequence after %d: %v", start, seen)
			}
		}
		if len(seen) != k {
			return "c05:witness-sequence", fmt.Sprintf("witness received %d of %d messages: %v", len(seen), k, seen)
		}
		return "", ""
	}
	if sig, desc := witnessRound(3); sig != "" {
		out.Violation(sig, "before any attack: "+desc, nil)
		return
	}
	attacks := buildAttacks(r, n)
	for ai, a := range attacks {
		if !mine(ai) {
			continue
		}
		caseID := fmt.Sprintf("c05/%d", ai)
		if !out.Only(caseID) {
			continue
		}
		out.Begin(caseID, seed, map[string]interface{}{"attack": a.name, "class": a.class})
		var detail map[string]interface{}
		switch a.class {
		case "disc/during-delivery":
			c, err := b.connect(uniqueCID("dying"), connectOpts{Clean: r.Bool(), KeepAlive: 600, Will: &rc.Packet{Topic: []byte("atk/will"), QoS: 1, Payload: []byte("w")}})
			if err == nil {
				c.SendPacket(&rc.Packet{Type: rc.SUBSCRIBE, ID: 1, Filters: [][]byte{[]byte("wit/#")}, QoSs: []byte{byte(r.Intn(3))}})
				c.WaitFor(func(l []rawclient.Event, closed bool) bool { return countType(l, rc.SUBACK) == 1 }, 5*time.Second)
				// a second bystander subscribes AFTER the dying client, so it comes later in the broker's
				// subscriber list: a delivery error on the dying one must not cost it any message
				late, lerr := b.connect(uniqueCID("late"), connectOpts{Clean: true, KeepAlive: 600})
				if lerr == nil {
					late.SendPacket(&rc.Packet{Type: rc.SUBSCRIBE, ID: 1, Filters: [][]byte{[]byte("wit/#")}, QoSs: []byte{1}})
					late.WaitFor(func(l []rawclient.Event, closed bool) bool { return countType(l, rc.SUBACK) == 1 }, 5*time.Second)
				}
				wmu.Lock()
				from := wseq
				wmu.Unlock()
				done := make(chan struct{})
				go func() {
					defer close(done)
					time.Sleep(time.Duration(r.Intn(1500)) * time.Microsecond)
					c.Close()
				}()
				if sig, desc := witnessRound(40); sig != "" {
					out.Violation(sig, a.name+": "+desc, nil)
					<-done
					out.End()
					return
				}
				<-done
				if lerr == nil {
					// the late bystander must hold exactly from+1 .. from+40. The witness subscriber comes
					// first in the fan-out, so its having message 40 does not mean the fan-out of message 40
					// is over: the publisher's next round trip does (its processor is sequential).
					wmu.Lock()
					npr := countType(wpub.Log(), rc.PINGRESP)
					wpub.SendPacket(&rc.Packet{Type: rc.PINGREQ})
					wpub.WaitFor(func(l []rawclient.Event, closed bool) bool { return countType(l, rc.PINGRESP) > npr }, 10*time.Second)
					wmu.Unlock()
					late.SendPacket(&rc.Packet{Type: rc.PINGREQ})
					late.WaitFor(func(l []rawclient.Event, closed bool) bool { return countType(l, rc.PINGRESP) >= 1 }, 10*time.Second)
					var seen []uint32
					for _, e := range late.Log() {
						if e.P.Type == rc.PUBLISH {
							if _, s, ok := spec.ParsePayload(e.P.Payload); ok {
								seen = append(seen, s)
							}
						}
					}
					okSeq := len(seen) == 40
					for i, s := range seen {
						if s != from+uint32(i)+1 {
							okSeq = false
						}
					}
					late.Close()
					if !okSeq {
						out.Violation("c05:bystander-missed-messages", fmt.Sprintf("%s: a bystander that subscribed after the dying client received %d of the 40 witness messages published while it was torn down: %v", a.name, len(seen), seen), nil)
						out.End()
						return
					}
					out.Count("c05.late_bystander_rounds", 1)
				}
			}
		case "disc/stopped-reading":
			c, err := b.connect(uniqueCID("stuck"), connectOpts{Clean: true, KeepAlive: 600})
			if err == nil {
				c.SendPacket(&rc.Packet{Type: rc.SUBSCRIBE, ID: 1, Filters: [][]byte{[]byte("wit/#")}, QoSs: []byte{0}})
				c.WaitFor(func(l []rawclient.Event, closed bool) bool { return countType(l, rc.SUBACK) == 1 }, 5*time.Second)
				c.PauseReading()
				go func() {
					time.Sleep(30 * time.Millisecond)
					c.Close()
				}()
			}
		case "disc/stalled-then-cut":
			if sig, desc := c05Stalled(b, r); sig != "" {
				out.Violation(sig, a.name+": "+desc, nil)
				out.End()
				return
			}
		default:
			detail = a.run(b, r)
		}
		if sig, desc := witnessRound(2 + r.Intn(3)); sig != "" {
			d := map[string]interface{}{"attack": a.name, "class": a.class}
			for k, v := range detail {
				d[k] = v
			}
			out.Violation(sig, "after attack '"+a.name+"': "+desc, d)
			out.End()
			return
		}
		out.Count("c05.attacks", 1)
		out.Class("attack/" + a.class + "/" + strings.SplitN(a.name, " ", 3)[0])
		if ai%211 == 0 {
			out.Sample("c05", 4, map[string]interface{}{"attack": a.name, "class": a.class, "detail": detail})
		}
		out.End()
	}
	// a fresh client can still connect, and the broker is still the same process
	if c, err := b.connect(uniqueCID("fresh"), connectOpts{Clean: true, KeepAlive: 60}); err != nil {
		out.Violation("c05:broker-unusable", "after all attacks a fresh CONNECT is not answered: "+err.Error(), nil)
	} else {
		c.Close()
	}
	out.Count("c05.witness_messages", int64(wseq))
	out.Count("c05.broker_processes", 1)
}

// c05Stalled: an offender subscribes and stops reading (small receive buffer);
// a bystander floods the topic until its own pings stop being answered, i.e. its
// processor in the broker is parked delivering to the offender; then the
// offender is cut. The bystander must come back to life.
func c05Stalled(b *brokerProc, r *spec.Rand) (string, string) {
	conn, err := net.DialTimeout("tcp", b.addr, 5*time.Second)
	if err != nil {
		return "", ""
	}
	if tc, ok := conn.(*net.TCPConn); ok {
		tc.SetReadBuffer(4096)
	}
	off := rawclient.New("offender", conn, rawclient.AckNone)
	defer off.Close()
	off.SendPacket(connectPacket(connectOpts{ClientID: uniqueCID("off"), Clean: true, KeepAlive: 600}))
	off.SendPacket(&rc.Packet{Type: rc.SUBSCRIBE, ID: 1, Filters: [][]byte{[]byte("flood/a")}, QoSs: []byte{0}})
	if err := off.WaitFor(func(l []rawclient.Event, closed bool) bool { return countType(l, rc.SUBACK) == 1 }, 5*time.Second); err != nil {
		return "", ""
	}
	off.PauseReading()
	by, err := b.connect(uniqueCID("bystander"), connectOpts{Clean: true, KeepAlive: 600})
	if err != nil {
		return "", ""
	}
	defer by.Close()
	payload := make([]byte, 8000)
	pings := 0
	parked := false
	for sent := 0; sent < 48<<20 && !parked; {
		for k := 0; k < 64; k++ {
			by.SendPacket(&rc.Packet{Type: rc.PUBLISH, Topic: []byte("flood/a"), Payload: payload})
			sent += 8011
		}
		by.SendPacket(&rc.Packet{Type: rc.PINGREQ})
		pings++
		want := pings
		if err := by.WaitFor(func(l []rawclient.Event, closed bool) bool { return countType(l, rc.PINGRESP) >= want }, 250*time.Millisecond); err != nil {
			parked = true // the bystander's processor is blocked on the offender's full outgoing ring
		}
	}
	if !parked {
		out.Count("c05.stalled_not_reached", 1)
		return "", ""
	}
	out.Count("c05.stalled_reached", 1)
	off.Close() // the cut
	want := pings
	if err := by.WaitFor(func(l []rawclient.Event, closed bool) bool { return countType(l, rc.PINGRESP) >= want }, 10*time.Second); err != nil {
		if by.Closed() {
			return "c05:bystander-disconnected", "the flooding bystander was disconnected when the stalled subscriber was cut"
		}
		return "c05:bystander-stuck", fmt.Sprintf("after the stalled subscriber was cut the bystander's connection stays dead: %d of %d PINGREQ answered (%v)", countType(by.Log(), rc.PINGRESP), pings, err)
	}
	return "", ""
}

func TestC05(t *testing.T) {
	out.Begin(fmt.Sprintf("c05/batch/%d", batch), caseSeed("c05", batch), nil)
	out.End()
	c05Batch(batch, caseSeed("c05", 0), pick(1200, 40000))
}
