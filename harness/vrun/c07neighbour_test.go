package vrun

import (
	"fmt"
	"testing"
	"time"

	"verif/harness/out"
	"verif/harness/rawclient"
	rc "verif/harness/refcodec"
	"verif/harness/spec"
)

// TestC07Neighbour: an acknowledged subscription applies to every message the
// broker accepts afterwards, whatever happens to the other subscribers of the
// same filter. Per round a short-lived client subscribes to a filter first, the
// subject subscribes to it second (behind it at the same node of the tree), a
// publisher streams numbered messages, and the short-lived client's connection
// is cut (abruptly, or by a protocol error) somewhere inside the stream: its
// teardown runs while messages are addressed to it. The subject must receive
// every message of the stream, in order, and none after its UNSUBACK.
// In-process broker over net.Pipe, real time, PINGREQ/PINGRESP barriers.
func c07Neighbour(idx int, seed uint64) {
	r := spec.NewRand(seed)
	rounds := 8 + r.Intn(8)
	params := map[string]interface{}{"case": idx, "rounds": rounds}
	fail := func(sig, desc string) { out.Violation(sig, desc, params) }
	w := newWorld(worldCfg{BufferSize: 65536})
	defer w.shutdown()
	const wait = 30 * time.Second
	connect := func(name string) *rawclient.Client {
		c := w.dial(name, connectOpts{ClientID: name, Clean: true, KeepAlive: 6000})
		if c.WaitFor(func(l []rawclient.Event, closed bool) bool { return len(l) > 0 }, wait) != nil || c.Log()[0].P.Type != rc.CONNACK {
			return nil
		}
		return c
	}
	pings := map[*rawclient.Client]int{}
	ping := func(c *rawclient.Client) bool {
		pings[c]++
		n := pings[c]
		c.SendPacket(&rc.Packet{Type: rc.PINGREQ})
		return c.WaitFor(func(l []rawclient.Event, closed bool) bool { return countType(l, rc.PINGRESP) >= n }, wait) == nil
	}
	acks := map[*rawclient.Client]int{}
	request := func(c *rawclient.Client, p *rc.Packet, ack byte) bool {
		acks[c]++
		n := acks[c]
		p.ID = uint16(n)
		c.SendPacket(p)
		return c.WaitFor(func(l []rawclient.Event, closed bool) bool { return countType(l, rc.SUBACK)+countType(l, rc.UNSUBACK) >= n }, wait) == nil
	}
	pub, subj := connect("pub"), connect("subject")
	if pub == nil || subj == nil {
		out.Inconclusive("c07neighbour: could not connect", params)
		return
	}
	seen := 0 // events of the subject already looked at
	for rd := 0; rd < rounds; rd++ {
		filter := fmt.Sprintf("nb/%d/%d", idx, rd)
		gq := byte(r.Intn(3))
		nb := connect(fmt.Sprintf("nb-%d-%d", idx, rd))
		if nb == nil {
			out.Inconclusive("c07neighbour: neighbour could not connect", params)
			return
		}
		if !request(nb, &rc.Packet{Type: rc.SUBSCRIBE, Filters: [][]byte{[]byte(filter)}, QoSs: []byte{byte(r.Intn(3))}}, rc.SUBACK) ||
			!request(subj, &rc.Packet{Type: rc.SUBSCRIBE, Filters: [][]byte{[]byte(filter)}, QoSs: []byte{gq}}, rc.SUBACK) {
			out.Inconclusive("c07neighbour: SUBACK missing", params)
			return
		}
		n := 60 + r.Intn(200)
		cutAt := r.Intn(n)
		how := []string{"abrupt close", "protocol error"}[r.Intn(2)]
		pq := byte(r.Intn(2))
		size := []int{20, 200, 1500}[r.Intn(3)]
		for k := 0; k < n; k++ {
			if k == cutAt {
				if how == "protocol error" {
					nb.Send([]byte{0xf0, 0x00})
					nb.Flush()
				} else {
					nb.Close()
				}
			}
			pub.SendPacket(&rc.Packet{Type: rc.PUBLISH, Topic: []byte(filter), QoS: pq, ID: uint16(k + 1), Payload: spec.MakePayload(uint64(rd+1), uint32(k), size)})
			if k%8 == 7 {
				time.Sleep(time.Duration(r.Intn(150)) * time.Microsecond)
			}
		}
		// the publisher's PINGRESP follows the complete fan-out of everything it sent before
		if !ping(pub) || !ping(subj) {
			fail("c07:neighbour:stuck", fmt.Sprintf("round %d: publisher or subject does not answer a PINGREQ after the stream", rd))
			return
		}
		d := fmt.Sprintf("round %d: %q subscribed first by a client whose connection ended by %s at message %d of %d (QoS %d), then by the subject (granted QoS %d)", rd, filter, how, cutAt, n, pq, gq)
		evs := subj.Log()
		next := uint32(0)
		for _, e := range evs[seen:] {
			if e.P.Type != rc.PUBLISH {
				continue
			}
			dl := decodeDelivery(e.P)
			if !dl.ok || string(e.P.Topic) != filter || dl.uid != uint64(rd+1) {
				fail("c07:neighbour:spurious", d+fmt.Sprintf("; the subject received an unexpected PUBLISH on %q", e.P.Topic))
				return
			}
			if dl.seq != next {
				fail("c07:neighbour:missing", d+fmt.Sprintf("; the subject's subscription was acknowledged before the stream began, message %d of the stream did not reach it (next received: %d)", next, dl.seq))
				return
			}
			if e.P.QoS != minQ(pq, gq) {
				fail("c07:neighbour:qos", d+fmt.Sprintf("; delivered with QoS %d", e.P.QoS))
				return
			}
			next++
		}
		if int(next) != n {
			fail("c07:neighbour:missing", d+fmt.Sprintf("; the subject's subscription was acknowledged before the stream began, it received %d of the %d messages", next, n))
			return
		}
		seen = len(evs)
		nb.Close()
		if !request(subj, &rc.Packet{Type: rc.UNSUBSCRIBE, Filters: [][]byte{[]byte(filter)}}, rc.UNSUBACK) {
			fail("c07:no-unsuback", d+"; no UNSUBACK")
			return
		}
		pub.SendPacket(&rc.Packet{Type: rc.PUBLISH, Topic: []byte(filter), QoS: 1, ID: 60000, Payload: spec.MakePayload(9999, 0, 20)})
		if !ping(pub) || !ping(subj) {
			fail("c07:neighbour:stuck", "no PINGRESP after the UNSUBSCRIBE")
			return
		}
		for _, e := range subj.Log()[seen:] {
			if e.P.Type == rc.PUBLISH {
				fail("c07:neighbour:after-unsuback", d+"; a message accepted after the UNSUBACK was delivered")
				return
			}
		}
		seen = len(subj.Log())
		out.Count("c07.neighbour_rounds", 1)
		out.Count("c07.neighbour_messages", int64(n))
		out.Class(fmt.Sprintf("neighbour/%s/q%d/g%d", how, pq, gq))
	}
	out.Count("c07.neighbour_cases", 1)
}

func TestC07Neighbour(t *testing.T) {
	n := pick(16, 200)
	for g := 0; g < n; g++ {
		id := fmt.Sprintf("c07/neighbour/%d", g)
		if !mine(g) || !out.Only(id) {
			continue
		}
		seed := caseSeed("c07nb", g)
		out.Begin(id, seed, nil)
		c07Neighbour(g, seed)
		out.End()
	}
}
