package vrun

import (
	"fmt"
	"sync/atomic"
	"testing"
	"time"

	"verif/harness/out"
)

// TestC15Mutual: producer and consumer must not end up waiting for each other while
// room is free and data is pending. The ring is exactly full: k bytes the consumer is
// about to take, then the first part of an n-byte unit (n up to the ring size) whose rest
// the producer (ReadFrom, the socket pump) still has to read. The consumer commits the k
// bytes - fewer than one read block - and waits for the whole unit (ReadWait(n)). Room is
// free, data is pending: ReadWait must return. Decided on goroutine state, as in the
// other C15 cells.
func c15Mutual(size int64, offset, k, n int64, seed uint64) string {
	detail := map[string]interface{}{"size": size, "offset": offset, "first_commit": k, "unit": n}
	b := prepRing(size, offset, size, seed) // full: stream positions offset .. offset+size
	var pid, pdone, cdone int64
	var cerr atomic.Value
	go func() {
		atomic.StoreInt64(&pid, int64(goid()))
		defer atomic.StoreInt64(&pdone, 1)
		// the rest of the stream comes from the "socket"; more than enough for the unit
		b.ReadFrom(&streamReader{seed: seed, pos: offset + size, end: offset + size + 3*size, final: errStop})
	}()
	if !waitParked(&pid, &pdone, 2*time.Second) || atomic.LoadInt64(&pdone) != 0 {
		out.Inconclusive("c15mutual: the producer did not park on the full ring", detail)
		b.Close()
		return ""
	}
	var cid int64
	go func() {
		atomic.StoreInt64(&cid, int64(goid()))
		defer atomic.StoreInt64(&cdone, 1)
		if err := consume(b, "ReadWait", seed, offset, k, int(k)); err != nil {
			cerr.Store(err.Error())
			return
		}
		p, err := b.ReadWait(int(n))
		if err != nil {
			cerr.Store("ReadWait: " + err.Error())
			return
		}
		if i := verifyStream(p, seed, offset+k); i >= 0 {
			cerr.Store(fmt.Sprintf("byte at stream position %d is wrong", offset+k+int64(i)))
			return
		}
		b.ReadCommit(int(n))
	}()
	ids := func() []int { return []int{int(atomic.LoadInt64(&pid)), int(atomic.LoadInt64(&cid))} }
	stuck, inc := stuckVerdict(ids, func() bool { return atomic.LoadInt64(&cdone) != 0 }, 5*time.Second)
	res := ""
	switch {
	case atomic.LoadInt64(&cdone) != 0:
		if e := cerr.Load(); e != nil {
			out.Violation("c15:mutual:consumer", e.(string), detail)
		} else {
			res = "ok"
		}
	case stuck != nil && !inc:
		var tops []string
		for _, g := range stuck {
			tops = append(tops, g.libTop()+":"+g.state)
		}
		sortStrings(tops)
		out.Violation("c15:mutual-wait:"+fmt.Sprint(tops), fmt.Sprintf("ring of %d bytes exactly full; the consumer committed %d bytes and waits for a unit of %d bytes of which %d are in the ring, the producer (ReadFrom) has the rest pending and %d bytes of room: both are parked (%v)", size, k, n, size-k, k, tops), detail)
	default:
		out.Inconclusive("c15mutual: neither finished nor provably stuck", detail)
	}
	b.Close()
	waitFlag(&pdone, 2*time.Second)
	waitFlag(&cdone, 2*time.Second)
	return res
}

func TestC15Mutual(t *testing.T) {
	i := 0
	for _, size := range []int64{16384, 32768} {
		for _, off := range []int64{0, 100, size - 500, 8192, 3*size - 1} {
			for _, k := range []int64{1, 2, 100, 3000, 8191} {
				for _, n := range []int64{size - 8191, size - 8000, size - 4000, size - 100, size - 1, size} {
					i++
					id := fmt.Sprintf("c15/mutual/%d/%d/%d/%d", size, off, k, n)
					if !mine(i) || !out.Only(id) {
						continue
					}
					if n > size-k+k { // the unit must fit the ring
						continue
					}
					out.Begin(id, caseSeed("c15m", i), nil)
					if c15Mutual(size, off, k, n, caseSeed("c15m", i)) == "ok" {
						out.Count("c15.mutual_cells", 1)
						out.Class(fmt.Sprintf("mutual/%d/%d/%d", size, k, n))
					}
					out.End()
				}
			}
		}
	}
}
