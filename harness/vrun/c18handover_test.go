package vrun

import (
	"fmt"
	"sync/atomic"
	"testing"
	"time"

	"verif/harness/out"
	"verif/harness/rawclient"
	rc "verif/harness/refcodec"
	"verif/harness/spec"
)

// TestC18Handover (workload W8, for the race detector): a client with a stored
// session (CleanSession=0) moves to a new connection while its previous one is
// still busy. Connection A holds 20..120 unacknowledged QoS 1 deliveries; the
// client writes all their acknowledgements on A and at the same moment connects
// B with the same client identifier, which resumes the session, receives the
// running stream and acknowledges promptly; then A is closed. Both connections'
// processors work on the acknowledgement queues of the one session during the
// overlap (B is up and acknowledging when the acknowledgements A owed arrive). The verdict comes from the race detector's log; the counters show
// that both connections really had acknowledgements in flight.
func c18Handover(idx int, seed uint64) {
	r := spec.NewRand(seed)
	rounds := 6 + r.Intn(6)
	params := map[string]interface{}{"case": idx, "rounds": rounds, "race_build": raceEnabled}
	w := newWorld(worldCfg{BufferSize: 65536})
	defer w.shutdown()
	const wait = 20 * time.Second
	connected := func(c *rawclient.Client) bool {
		return c.WaitFor(func(l []rawclient.Event, closed bool) bool { return len(l) > 0 }, wait) == nil && c.Log()[0].P.Type == rc.CONNACK && c.Log()[0].P.ReturnCode == 0
	}
	pub := w.dial("pub", connectOpts{ClientID: "pub", Clean: true, KeepAlive: 6000})
	if !connected(pub) {
		out.Inconclusive("c18handover: publisher", params)
		return
	}
	var stop atomic.Bool
	done := make(chan struct{})
	var published int64
	pr := spec.NewRand(spec.Mix(seed, 99)) // the publisher's own generator
	go func() {
		defer close(done)
		for k := 0; !stop.Load(); k++ {
			pub.SendPacket(&rc.Packet{Type: rc.PUBLISH, Topic: []byte("ho/t"), QoS: 1, ID: uint16(k%60000 + 1), Payload: spec.MakePayload(7, uint32(k), 40)})
			atomic.AddInt64(&published, 1)
			time.Sleep(time.Duration(50+pr.Intn(200)) * time.Microsecond)
		}
	}()
	defer func() { stop.Store(true); <-done }()
	id := fmt.Sprintf("ho-%d", idx)
	for rd := 0; rd < rounds; rd++ {
		A := w.dial(fmt.Sprintf("A%d", rd), connectOpts{ClientID: id, Clean: false, KeepAlive: 6000, Policy: rawclient.AckNone})
		if !connected(A) {
			out.Inconclusive("c18handover: connection A", params)
			return
		}
		if rd == 0 {
			A.SendPacket(&rc.Packet{Type: rc.SUBSCRIBE, ID: 1, Filters: [][]byte{[]byte("ho/t")}, QoSs: []byte{1}})
		}
		// A acknowledges its first deliveries (so the request identifiers of the two connections differ
		// during the overlap), then holds 20..120 back
		first := 100 + r.Intn(200)
		hold := 20 + r.Intn(100)
		if A.WaitFor(func(l []rawclient.Event, closed bool) bool { return countType(l, rc.PUBLISH) >= first+hold }, wait) != nil {
			out.Inconclusive("c18handover: A did not receive the stream", params)
			return
		}
		var early, burst []byte
		n := 0
		for _, e := range A.Log() {
			if e.P.Type == rc.PUBLISH && e.P.QoS > 0 {
				b := rc.Encode(&rc.Packet{Type: rc.PUBACK, ID: e.P.ID})
				if n < first {
					early = append(early, b...)
				} else {
					burst = append(burst, b...)
				}
				n++
			}
		}
		n -= first
		A.Send(early)
		A.SendPacket(&rc.Packet{Type: rc.PINGREQ})
		if A.WaitFor(func(l []rawclient.Event, closed bool) bool { return countType(l, rc.PINGRESP) >= 1 }, wait) != nil {
			out.Inconclusive("c18handover: A got no PINGRESP", params)
			return
		}
		// B takes over: it resumes the session, receives the running stream and acknowledges promptly;
		// while it does, the acknowledgements A still owed arrive on A
		B := rawclient.New(fmt.Sprintf("B%d", rd), w.pipe(), nil)
		B.SendPacket(connectPacket(connectOpts{ClientID: id, Clean: false, KeepAlive: 6000}))
		if !connected(B) {
			out.Inconclusive("c18handover: connection B", params)
			return
		}
		if B.WaitFor(func(l []rawclient.Event, closed bool) bool { return countType(l, rc.PUBLISH) >= 10+r.Intn(30) }, wait) != nil {
			out.Inconclusive("c18handover: B did not receive the stream", params)
			return
		}
		A.Send(burst)
		A.Flush()
		before := countType(B.Log(), rc.PUBLISH)
		if B.WaitFor(func(l []rawclient.Event, closed bool) bool { return countType(l, rc.PUBLISH) >= before+20 }, wait) != nil {
			out.Inconclusive("c18handover: B did not go on receiving the stream", params)
			return
		}
		out.Count("c18.handover_acks_on_old_connection", int64(n))
		out.Count("c18.handover_deliveries_on_new_connection", int64(countType(B.Log(), rc.PUBLISH)))
		A.Close()
		time.Sleep(time.Duration(r.Intn(2000)) * time.Microsecond)
		B.Close()
		if w.sink != nil {
			w.sink.waitCount("stop.done", id, 2*(rd+1), wait)
		} else {
			time.Sleep(5 * time.Millisecond)
		}
		out.Count("c18.handover_rounds", 1)
	}
	out.Count("c18.handover_cases", 1)
	out.Count("c18.handover_published", atomic.LoadInt64(&published))
	out.Class("wl/W8-handover")
}

func TestC18Handover(t *testing.T) {
	n := pick(8, 64)
	for g := 0; g < n; g++ {
		id := fmt.Sprintf("c18/handover/%d", g)
		if !mine(g) || !out.Only(id) {
			continue
		}
		seed := caseSeed("c18ho", g)
		out.Begin(id, seed, nil)
		c18Handover(g, seed)
		out.End()
	}
}
