package vrun

import (
	"fmt"
	"testing"

	"verif/harness/out"
	"verif/harness/rawclient"
	rc "verif/harness/refcodec"
	"verif/harness/spec"
)

// TestC02GoneAtRelease (broker role, synctest): the PUBRELs of K open QoS 2 exchanges are in the
// broker's hands - read from the connection, waiting in its inbound ring behind traffic whose
// delivery is held up by a subscriber that has stopped reading - when the sender's connection goes
// away. The sender never read anything, so the broker's writes towards it fail and its outgoing ring
// is closed before the processor gets to the PUBRELs: their PUBCOMPs cannot be written any more. A
// PUBREL the broker has received releases its message all the same: once the subscriber reads again
// every exchange's first content must be handed on exactly once, in PUBREL order.
func c02Gone(t *testing.T, idx int, seed uint64) {
	r := spec.NewRand(seed)
	K := 1 + r.Intn(3)
	params := map[string]interface{}{"case": idx, "open_exchanges": K}
	bubble(t, "c02", params, func(cl *cleanup) {
		fail := func(sig, desc string) { out.Violation(sig, desc, params) }
		w := newWorld(worldCfg{BufferSize: 16384})
		cl.add(w.shutdown)
		sub, a1 := w.connectB("sub", connectOpts{Clean: true, KeepAlive: 6000, Policy: rawclient.AckNone})
		pub, a2 := w.connectB("pub", connectOpts{ClientID: "pub", Clean: true, KeepAlive: 6000, Policy: rawclient.AckNone})
		if a1 == nil || a2 == nil {
			fail("c02:connect", "no CONNACK")
			return
		}
		if sa, _ := sub.subscribeB([]string{"c02/#"}, []byte{2}); sa == nil {
			fail("c02:suback", "no SUBACK")
			return
		}
		pub.PauseReading() // from here on the sender reads nothing the broker writes to it
		var uids uidGen
		var want []uint64
		for id := uint16(1); id <= uint16(K); id++ {
			u := uids.next()
			want = append(want, u)
			pub.SendPacket(&rc.Packet{Type: rc.PUBLISH, QoS: 2, ID: id, Dup: r.Intn(4) == 0, Topic: []byte("c02/q2"), Payload: spec.MakePayload(u, 0, 40+r.Intn(500))})
		}
		settle() // the PUBRECs are on their way: the broker's sender sits in a write the client does not take
		sub.PauseReading()
		// traffic whose delivery parks the processor on the subscriber's full ring, with the PUBRELs right behind it
		nfill := 0
		for _, sz := range []int{5000, 5000, 5000, 5000, 3000 + r.Intn(2000)} {
			pub.SendPacket(&rc.Packet{Type: rc.PUBLISH, Topic: []byte("c02/hold"), Payload: spec.MakePayload(1000+uint64(nfill), 0, sz)})
			nfill++
		}
		for id := uint16(1); id <= uint16(K); id++ {
			pub.SendPacket(&rc.Packet{Type: rc.PUBREL, ID: id})
		}
		pub.Flush()
		settle() // everything is in the broker's inbound ring or parked in front of the subscriber
		pub.Close()
		settle() // the broker's write to the sender has failed, its outgoing ring is closed
		sub.ResumeReading()
		settle()
		if sub.Closed() {
			fail("c02:connection-lost", "the subscriber's connection was closed")
			return
		}
		if err := sub.FrameErr(); err != nil {
			fail("c02:framing", "the subscriber received a malformed stream: "+err.Error())
			return
		}
		var got []uint64
		fills := 0
		for _, d := range publishesIn(sub.fresh()) {
			if !d.ok {
				fail("c02:payload", fmt.Sprintf("a message handed on is corrupted (topic %q, %d bytes)", d.topic, d.n))
				return
			}
			if d.uid >= 1000 {
				fills++
				continue
			}
			got = append(got, d.uid)
		}
		if fills != nfill {
			// the traffic in front of the PUBRELs did not get through: the PUBRELs were not reached either
			out.Inconclusive(fmt.Sprintf("c02gone: %d of %d held-up messages were delivered after the sender had gone", fills, nfill), params)
			return
		}
		if fmt.Sprint(got) != fmt.Sprint(want) {
			fail("c02:release-after-sender-gone", fmt.Sprintf("%d QoS 2 exchanges had their PUBREL in the broker's inbound ring when the sender's connection went away (its outgoing ring closed, no PUBCOMP can be written); everything in front of the PUBRELs was delivered, but of the released messages %v were handed on, expected %v once each", K, got, want))
			return
		}
		out.Count("c02.gone_at_release_cases", 1)
		out.Class(fmt.Sprintf("gone-at-release/k%d", K))
	})
}

func TestC02GoneAtRelease(t *testing.T) {
	n := pick(40, 400)
	for g := 0; g < n; g++ {
		id := fmt.Sprintf("c02/gone/%d", g)
		if !mine(g) || !out.Only(id) {
			continue
		}
		seed := caseSeed("c02g", g)
		out.Begin(id, seed, nil)
		c02Gone(t, g, seed)
		out.End()
	}
}
