package vrun

import (
	"errors"
	"io"
	"runtime"
	"sync"
	"sync/atomic"
	"time"

	"github.com/mdzio/go-mqtt/service"
)

type ring = service.VerifBuffer

func newRing(size int64) *ring {
	b, err := service.VerifNewBuffer(size)
	if err != nil {
		panic(err)
	}
	return b
}

// streamByte is the position-dependent pseudo-random stream of C14.
func streamByte(seed uint64, i int64) byte {
	x := uint64(i)*0x9E3779B97F4A7C15 ^ seed
	x ^= x >> 29
	x *= 0xBF58476D1CE4E5B9
	x ^= x >> 32
	return byte(x)
}

func fillStream(p []byte, seed uint64, pos int64) {
	for i := range p {
		p[i] = streamByte(seed, pos+int64(i))
	}
}

// verifyStream returns the index of the first wrong byte or -1.
func verifyStream(p []byte, seed uint64, pos int64) int {
	for i := range p {
		if p[i] != streamByte(seed, pos+int64(i)) {
			return i
		}
	}
	return -1
}

var errStop = errors.New("harness: stop")

// ---------------------------------------------------------------------------
// Yield-hook dispatch. The library's hook variable is set once (TestMain); the
// per-scenario behaviour is looked up by the object the point refers to. The
// table is a sync.Map and therefore only used in the non-race build; in the
// race build the dispatcher only injects delays derived from the clock, with
// no synchronisation (so the detector sees the library's own edges only).

var yieldTable sync.Map // obj -> func(point string)

// yieldAnyBuf handles buffer points of rings the scenario cannot name (the
// rings inside a connection's service).
var yieldAnyBuf atomic.Pointer[func(point string, obj interface{})]

func yieldDispatch(point string, obj interface{}) {
	if raceEnabled {
		raceYield(point)
		return
	}
	if len(point) > 4 && point[:4] == "buf." {
		if f, ok := yieldTable.Load(obj); ok {
			f.(func(string))(point)
		} else if g := yieldAnyBuf.Load(); g != nil {
			(*g)(point, obj)
		}
		return
	}
	yieldDispatchSvc(point)
}

var raceYieldOn bool // set before the workload starts, cleared after it ended

//go:norace
func raceYield(point string) {
	if !raceYieldOn {
		return
	}
	x := uint64(time.Now().UnixNano())
	x ^= x >> 7
	x *= 0x9E3779B97F4A7C15
	switch (x >> 20) % 16 {
	case 0:
		time.Sleep(time.Duration((x>>30)%200) * time.Microsecond)
	case 1, 2, 3:
		runtime.Gosched()
	}
}

func init() {
	service.VerifYieldHook = yieldDispatch
}

// ---------------------------------------------------------------------------

// prepRing returns a ring whose cursors stand at absolute position offset and
// which then holds fill bytes of the stream (positions offset..offset+fill).
func prepRing(size int64, offset, fill int64, seed uint64) *ring {
	b := newRing(size)
	chunk := make([]byte, 4096)
	var pos int64
	for pos < offset {
		n := int64(len(chunk))
		if offset-pos < n {
			n = offset - pos
		}
		fillStream(chunk[:n], seed, pos)
		if _, err := b.Write(chunk[:n]); err != nil {
			panic(err)
		}
		got := int64(0)
		for got < n {
			k, err := b.Read(chunk[:n-got])
			if err != nil {
				panic(err)
			}
			got += int64(k)
		}
		pos += n
	}
	for w := int64(0); w < fill; {
		n := int64(len(chunk))
		if fill-w < n {
			n = fill - w
		}
		fillStream(chunk[:n], seed, offset+w)
		if _, err := b.Write(chunk[:n]); err != nil {
			panic(err)
		}
		w += n
	}
	return b
}

// streamReader produces the stream from a position; after limit bytes it
// returns the given final error.
type streamReader struct {
	seed  uint64
	pos   int64
	end   int64
	final error
	max   int // max bytes per Read (0 = unlimited)
}

func (r *streamReader) Read(p []byte) (int, error) {
	if r.pos >= r.end {
		return 0, r.final
	}
	n := int64(len(p))
	if r.max > 0 && n > int64(r.max) {
		n = int64(r.max)
	}
	if r.end-r.pos < n {
		n = r.end - r.pos
	}
	fillStream(p[:n], r.seed, r.pos)
	r.pos += n
	return int(n), nil
}

// streamWriter verifies what it is given against the stream.
type streamWriter struct {
	seed    uint64
	pos     int64
	stopAt  int64 // return errStop once pos reaches stopAt (0 = never)
	badAt   int64 // first mismatching absolute position, -1 if none
	slow    func()
	partial bool // accept only part of each write
}

func (w *streamWriter) Write(p []byte) (int, error) {
	if w.slow != nil {
		w.slow()
	}
	n := len(p)
	if w.partial && n > 1 {
		n = n/2 + 1
	}
	if i := verifyStream(p[:n], w.seed, w.pos); i >= 0 && w.badAt < 0 {
		w.badAt = w.pos + int64(i)
	}
	w.pos += int64(n)
	if w.stopAt > 0 && w.pos >= w.stopAt {
		return n, errStop
	}
	return n, nil
}

var _ io.Writer = (*streamWriter)(nil)
