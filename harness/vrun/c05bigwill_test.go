package vrun

import (
	"fmt"
	"sort"
	"strings"
	"testing"
	"time"

	"verif/harness/out"
	"verif/harness/rawclient"
	rc "verif/harness/refcodec"
	"verif/harness/spec"
)

// TestC05BigWill: Server.BufferSize is a public setting and a CONNECT does not
// travel through the connection's inbound ring, so a will may be larger than the
// rings of the connections it has to be delivered to. Attackers connect with
// wills around and beyond the ring size and end their connection abnormally.
// Whatever the broker does with a will it cannot fit into a subscriber's ring,
// the subscriber's connection must go on working (C05) and the teardown of the
// attacker must finish (C16); a will that does fit must arrive intact, once.
// In-process broker over net.Pipe, real time, PINGREQ/PINGRESP barriers.
func c05BigWill(idx int, seed uint64) {
	r := spec.NewRand(seed)
	size := []int{4096, 8192, 16384, 65536}[idx%4]
	rounds := 4 + r.Intn(5)
	gq := byte(r.Intn(3))
	params := map[string]interface{}{"case": idx, "ring": size, "rounds": rounds, "granted": gq}
	fail := func(sig, desc string) { out.Violation(sig, desc, params) }
	w := newWorld(worldCfg{BufferSize: int64(size)})
	defer w.shutdown()
	const wait = 20 * time.Second
	connect := func(o connectOpts) *rawclient.Client {
		c := w.dial(o.ClientID, o)
		if c.WaitFor(func(l []rawclient.Event, closed bool) bool { return len(l) > 0 }, wait) != nil || c.Log()[0].P.Type != rc.CONNACK || c.Log()[0].P.ReturnCode != 0 {
			return nil
		}
		return c
	}
	sent := map[*rawclient.Client]int{}
	pingOK := func(c *rawclient.Client) bool {
		sent[c]++
		n := sent[c]
		c.SendPacket(&rc.Packet{Type: rc.PINGREQ})
		return c.WaitFor(func(l []rawclient.Event, closed bool) bool { return countType(l, rc.PINGRESP) >= n }, wait) == nil
	}
	wit := connect(connectOpts{ClientID: "witness", Clean: true, KeepAlive: 6000})
	obs := connect(connectOpts{ClientID: "observer", Clean: true, KeepAlive: 6000})
	if wit == nil || obs == nil {
		out.Inconclusive("c05bigwill: witness/observer not connected", params)
		return
	}
	wit.SendPacket(&rc.Packet{Type: rc.SUBSCRIBE, ID: 1, Filters: [][]byte{[]byte("will/#"), []byte("ok/#")}, QoSs: []byte{gq, gq}})
	if wit.WaitFor(func(l []rawclient.Event, closed bool) bool { return countType(l, rc.SUBACK) == 1 }, wait) != nil {
		out.Inconclusive("c05bigwill: SUBACK", params)
		return
	}
	uid := uint64(0)
	expect := map[uint64]int{} // uid -> payload length, for the messages that must arrive
	mayCome := map[uint64]int{}
	for rd := 0; rd < rounds; rd++ {
		wq := byte(r.Intn(3))
		dq := minQ(wq, gq)
		topic := fmt.Sprintf("will/%d/%d", idx, rd)
		// length of the PUBLISH the witness would receive, without the payload
		probe := rc.Encode(&rc.Packet{Type: rc.PUBLISH, Topic: []byte(topic), QoS: dq, ID: 1, Payload: make([]byte, 200)})
		over := len(probe) - 200 // header bytes for payloads of 128..16383 bytes (2-byte remaining length)
		if size >= 16384 {
			over++ // 3-byte remaining length
		}
		kind := []string{"fits", "edge-1", "edge", "edge+1", "over", "over", "far-over"}[r.Intn(7)]
		var pktLen int
		switch kind {
		case "fits":
			pktLen = size/2 + r.Intn(size/2-64)
		case "edge-1":
			pktLen = size - 1
		case "edge":
			pktLen = size
		case "edge+1":
			pktLen = size + 1
		case "over":
			pktLen = size + 2 + r.Intn(size)
		default:
			pktLen = 2*size + r.Intn(size)
		}
		pl := pktLen - over
		if pl > 65535 {
			pl = 65535
		}
		uid++
		payload := spec.MakePayload(uid, 0, pl)
		real := len(rc.Encode(&rc.Packet{Type: rc.PUBLISH, Topic: []byte(topic), QoS: dq, ID: 1, Payload: payload}))
		end := []string{"abrupt", "garbage", "DISCONNECT"}[r.Intn(3)]
		name := fmt.Sprintf("att-%d-%d", idx, rd)
		a := connect(connectOpts{ClientID: name, Clean: true, KeepAlive: 6000, Will: &rc.Packet{Topic: []byte(topic), Payload: payload, QoS: wq}})
		if a == nil {
			out.Inconclusive("c05bigwill: attacker not accepted", params)
			return
		}
		switch end {
		case "garbage":
			a.Send([]byte{0x00, 0x00})
			a.Flush()
		case "DISCONNECT":
			a.SendPacket(&rc.Packet{Type: rc.DISCONNECT})
			a.Flush()
		}
		if end != "garbage" {
			a.Close()
		}
		d := fmt.Sprintf("round %d: rings of %d bytes; a client connected with a will whose PUBLISH to the witness takes %d bytes (%s) and ended by %s", rd, size, real, kind, end)
		if w.sink != nil && !w.sink.waitCount("stop.done", name, 1, wait) {
			var tops []string
			for _, g := range libGoroutines() {
				tops = append(tops, g.libTop()+":"+g.state)
			}
			sort.Strings(tops)
			fail("c16:teardown-stuck:bigwill", d+"; the teardown of that connection did not finish; library goroutines: "+strings.Join(uniq(tops), " "))
			return
		}
		a.Close()
		if end != "DISCONNECT" {
			if real <= size {
				expect[uid] = pl
				out.Count("c05.bigwill_fitting", 1)
			} else {
				mayCome[uid] = pl
				out.Count("c05.bigwill_oversize", 1)
			}
		}
		// the witness goes on working: a marker from the observer arrives, PINGREQs are answered
		uid++
		expect[uid] = 40
		obs.SendPacket(&rc.Packet{Type: rc.PUBLISH, Topic: []byte(fmt.Sprintf("ok/%d", rd)), QoS: 1, ID: uint16(rd + 1), Payload: spec.MakePayload(uid, 0, 40)})
		if !pingOK(obs) {
			fail("c05:bystander-stuck:bigwill", d+"; an uninvolved publisher is not answered any more")
			return
		}
		if !pingOK(wit) {
			sig, how := "c05:bystander-stuck:bigwill", "does not answer a PINGREQ any more"
			if wit.Closed() {
				sig, how = "c05:bystander-disconnected:bigwill", "was disconnected by the broker"
			}
			fail(sig, d+"; the subscriber of the will topic "+how)
			return
		}
		out.Count("c05.bigwill_rounds", 1)
		out.Class("bigwill/" + kind + "/" + end)
	}
	got := map[uint64]int{}
	for _, e := range wit.Log() {
		if e.P.Type != rc.PUBLISH {
			continue
		}
		dl := decodeDelivery(e.P)
		if !dl.ok {
			fail("c05:bystander-corrupt:bigwill", fmt.Sprintf("the witness received a PUBLISH on %q whose payload (%d bytes) is not one that was sent", e.P.Topic, len(e.P.Payload)))
			return
		}
		got[dl.uid]++
		want, ok := expect[dl.uid]
		if !ok {
			want, ok = mayCome[dl.uid]
		}
		if !ok || want != dl.n {
			fail("c05:bystander-spurious:bigwill", fmt.Sprintf("the witness received uid %d (%d bytes) which it should not have", dl.uid, dl.n))
			return
		}
	}
	for u := range expect {
		if got[u] != 1 {
			fail("c05:bystander-missed:bigwill", fmt.Sprintf("a message of %d bytes (will or marker, uid %d) that fits the %d-byte ring reached the witness %d times", expect[u], u, size, got[u]))
			return
		}
	}
	for u := range mayCome {
		if got[u] > 1 {
			fail("c05:bystander-duplicate:bigwill", fmt.Sprintf("an oversize will reached the witness %d times", got[u]))
			return
		}
	}
	wit.Close()
	obs.Close()
	closed := make(chan struct{})
	go func() { defer close(closed); defer func() { recover() }(); w.svr.Close() }()
	select {
	case <-closed:
	case <-time.After(wait):
		fail("c16:server-close-stuck:bigwill", "Server.Close did not return after all connections had ended")
		return
	}
	if left := noLibGoroutines(3 * time.Second); len(left) > 0 {
		var tops []string
		for _, g := range left {
			tops = append(tops, g.libTop()+":"+g.state)
		}
		sort.Strings(tops)
		fail("c16:goroutines-left:bigwill:"+strings.Join(uniq(tops), "+"), fmt.Sprintf("%d library goroutines remain after every connection ended and Server.Close returned", len(left)))
		return
	}
	out.Count("c05.bigwill_cases", 1)
}

func TestC05BigWill(t *testing.T) {
	n := pick(32, 400)
	for g := 0; g < n; g++ {
		id := fmt.Sprintf("c05/bigwill/%d", g)
		if !mine(g) || !out.Only(id) {
			continue
		}
		seed := caseSeed("c05bw", g)
		out.Begin(id, seed, nil)
		c05BigWill(g, seed)
		out.End()
	}
}
