package vrun

import (
	"fmt"
	"io"
	"runtime"
	"sync"
	"sync/atomic"
	"testing"
	"time"

	"verif/harness/out"
	"verif/harness/spec"
)

var c14ProdOps = []string{"Write", "WriteWait", "ReadFrom"}
var c14ConsOps = []string{"Read", "ReadPeek", "ReadWait", "WriteTo"}

// produce writes stream bytes [pos,pos+n) with the given producer op
// (single-threaded: the caller guarantees the space is there).
func produce(b *ring, op string, seed uint64, pos, n int64) error {
	switch op {
	case "Write":
		p := make([]byte, n)
		fillStream(p, seed, pos)
		k, err := b.Write(p)
		if err == nil && int64(k) != n {
			return fmt.Errorf("Write returned %d for %d bytes", k, n)
		}
		return err
	case "WriteWait":
		buf, wrap, err := b.WriteWait(int(n))
		if err != nil {
			return err
		}
		if wrap {
			// the documented protocol (service.writeMessage): fall back to Write
			p := make([]byte, n)
			fillStream(p, seed, pos)
			_, err := b.Write(p)
			return err
		}
		if int64(len(buf)) < n {
			return fmt.Errorf("WriteWait(%d) returned a slice of %d bytes without the wrap flag", n, len(buf))
		}
		fillStream(buf[:n], seed, pos)
		k, err := b.WriteCommit(int(n))
		if err == nil && int64(k) != n {
			return fmt.Errorf("WriteCommit returned %d for %d", k, n)
		}
		return err
	case "ReadFrom":
		r := &streamReader{seed: seed, pos: pos, end: pos + n, final: errStop}
		k, err := b.ReadFrom(r)
		if err != errStop {
			return fmt.Errorf("ReadFrom returned %v", err)
		}
		if k != n {
			return fmt.Errorf("ReadFrom reported %d of %d bytes", k, n)
		}
		return nil
	}
	return fmt.Errorf("bad op")
}

// consume obtains n bytes with the given consumer op and verifies them
// against the stream at absolute position pos.
func consume(b *ring, op string, seed uint64, pos, n int64, chunk int) error {
	got := int64(0)
	bad := func(at int64, how string) error {
		return fmt.Errorf("%s: byte at stream position %d is wrong (consumer position %d)", how, at, pos+got)
	}
	switch op {
	case "Read":
		p := make([]byte, chunk)
		for got < n {
			want := int64(chunk)
			if n-got < want {
				want = n - got
			}
			k, err := b.Read(p[:want])
			if err != nil {
				return fmt.Errorf("Read: %v after %d bytes", err, got)
			}
			if i := verifyStream(p[:k], seed, pos+got); i >= 0 {
				return bad(pos+got+int64(i), "Read")
			}
			got += int64(k)
		}
	case "ReadPeek":
		for got < n {
			want := int64(chunk)
			if n-got < want {
				want = n - got
			}
			p, err := b.ReadPeek(int(want))
			if err != nil && len(p) == 0 {
				return fmt.Errorf("ReadPeek: %v after %d bytes", err, got)
			}
			if int64(len(p)) > want {
				return fmt.Errorf("ReadPeek(%d) returned %d bytes", want, len(p))
			}
			if i := verifyStream(p, seed, pos+got); i >= 0 {
				return bad(pos+got+int64(i), "ReadPeek")
			}
			// commit part of it now and then
			m := len(p)
			if m > 1 && (pos+got)%3 == 0 {
				m = m / 2
			}
			if k, err := b.ReadCommit(m); err != nil || k != m {
				return fmt.Errorf("ReadCommit(%d) = %d, %v", m, k, err)
			}
			got += int64(m)
		}
	case "ReadWait":
		for got < n {
			want := int64(chunk)
			if n-got < want {
				want = n - got
			}
			p, err := b.ReadWait(int(want))
			if err != nil {
				return fmt.Errorf("ReadWait: %v after %d bytes", err, got)
			}
			if int64(len(p)) != want {
				return fmt.Errorf("ReadWait(%d) returned %d bytes", want, len(p))
			}
			if i := verifyStream(p, seed, pos+got); i >= 0 {
				return bad(pos+got+int64(i), "ReadWait")
			}
			if k, err := b.ReadCommit(int(want)); err != nil || int64(k) != want {
				return fmt.Errorf("ReadCommit(%d) = %d, %v", want, k, err)
			}
			got += want
		}
	case "WriteTo":
		w := &streamWriter{seed: seed, pos: pos, stopAt: pos + n, badAt: -1}
		_, err := b.WriteTo(w)
		if w.badAt >= 0 {
			return bad(w.badAt, "WriteTo")
		}
		if w.pos != pos+n {
			if err == io.EOF && w.pos < pos+n {
				// WriteTo does not drain a ring that is already closed: a shorter
				// prefix is all the property promises
				out.Count("c14.seq.closed_short", 1)
				return nil
			}
			return fmt.Errorf("WriteTo delivered %d of %d bytes (err=%v)", w.pos-pos, n, err)
		}
	}
	return nil
}

// TestC14Seq: single-threaded enumeration of sizes x start offsets x chunk
// sizes x producer op x consumer op.
// c14Sizes: rings asked for with sizes an application might configure (BufferSize need not be a power
// of two). The effective size must be the next power of two (at least 16 KiB), and a stream of three
// ring sizes pushed through in odd chunks must come out unchanged.
func c14Sizes() {
	for _, req := range []int64{1, 100, 16383, 16384, 16385, 20000, 24576, 32767, 32768, 32769, 50000, 65535, 65537, 100000, 262143, 262144, 300000} {
		id := fmt.Sprintf("c14/size/%d", req)
		if !out.Only(id) {
			continue
		}
		out.Begin(id, uint64(req), nil)
		want := int64(16384)
		for want < req {
			want *= 2
		}
		b := newRing(req)
		detail := map[string]interface{}{"requested": req, "expected_effective": want}
		if eff := b.VerifBufferSize(); eff != want {
			out.Violation("c14:ring-size", fmt.Sprintf("a ring asked for with %d bytes has an effective size of %d (expected %d)", req, eff, want), detail)
			out.End()
			continue
		}
		seed := uint64(req) * 77
		var wpos, rpos int64
		chunk := make([]byte, 4093)
		bad := false
		for wpos < 3*want && !bad {
			// fill up to the brim in odd chunks, then drain completely
			for wpos-rpos+int64(len(chunk)) <= want {
				fillStream(chunk, seed, wpos)
				if n, err := b.Write(chunk); err != nil || n != len(chunk) {
					out.Violation("c14:size-write", fmt.Sprintf("Write: n=%d err=%v", n, err), detail)
					bad = true
					break
				}
				wpos += int64(len(chunk))
			}
			for rpos < wpos && !bad {
				n, err := b.Read(chunk)
				if err != nil {
					out.Violation("c14:size-read", err.Error(), detail)
					bad = true
					break
				}
				if k := verifyStream(chunk[:n], seed, rpos); k >= 0 {
					out.Violation("c14:corrupt:odd-size", fmt.Sprintf("ring asked for with %d bytes: byte at stream position %d is wrong (%d bytes committed)", req, rpos+int64(k), wpos), detail)
					bad = true
					break
				}
				rpos += int64(n)
			}
		}
		if !bad {
			out.Count("c14.size_cases", 1)
			out.Count("c14.size_bytes", rpos)
			out.Class(fmt.Sprintf("size/%d", req))
		}
		out.End()
	}
}

func TestC14Seq(t *testing.T) {
	if mine(0) {
		c14Sizes()
	}
	i := 0
	for _, size := range []int64{16384, 32768} {
		offsets := []int64{size - 2, size - 1, 0, 1, 8191, 8192, size - 8192, size - 8193, 3*size - 1}
		chunks := []int64{1, 2, 3, 8191, 8192, 8193, size - 1, size}
		for _, off := range offsets {
			for _, ch := range chunks {
				for _, pop := range c14ProdOps {
					for _, cop := range c14ConsOps {
						i++
						id := fmt.Sprintf("c14/seq/%d/%d/%d/%s/%s", size, off, ch, pop, cop)
						if !mine(i) || !out.Only(id) {
							continue
						}
						if pop == "ReadFrom" && ch > size-8192 {
							continue // single-threaded: ReadFrom wants a free 8 KiB block before every read
						}
						seed := caseSeed("c14s", i)
						out.Begin(id, seed, nil)
						func() {
							detail := map[string]interface{}{"size": size, "offset": off, "chunk": ch, "producer": pop, "consumer": cop}
							defer func() {
								if r := recover(); r != nil {
									site, class := panicSite(r)
									out.Violation("c14:panic:"+site+":"+class, fmt.Sprint(r), detail)
								}
							}()
							b := prepRing(size, off, 0, seed)
							pos := off
							rounds := 3
							if pop == "ReadFrom" || cop == "WriteTo" {
								rounds = 1 // both close the buffer when they return
							}
							for rd := 0; rd < rounds; rd++ {
								n := ch
								if err := produce(b, pop, seed, pos, n); err != nil {
									out.Violation("c14:producer:"+pop, err.Error(), detail)
									return
								}
								if l := int64(b.Len()); l != n {
									out.Violation("c14:len", fmt.Sprintf("Len()=%d after committing %d bytes to an empty ring", l, n), detail)
									return
								}
								cchunk := 1 + int(spec.Mix(seed, uint64(rd))%uint64(n))
								if rd == 0 {
									cchunk = int(n)
								}
								if cchunk > int(size) {
									cchunk = int(size)
								}
								if err := consume(b, cop, seed, pos, n, cchunk); err != nil {
									out.Violation("c14:stream:"+cop, err.Error(), detail)
									return
								}
								pos += n
								out.Count("c14.seq.bytes", n)
							}
							wrapCase := "nowrap"
							if off%size+ch > size {
								wrapCase = "wrap"
							}
							out.Count("c14.seq.cells", 1)
							out.Class(fmt.Sprintf("seq/%d/%s/%s/%s/%d", size, pop, cop, wrapCase, ch))
						}()
						out.End()
					}
				}
			}
		}
	}
}

// TestC14Conc: one producer goroutine and one consumer goroutine with seeded
// mixes of operations and chunk sizes; every byte the consumer obtains is
// verified at its own committed position.
func TestC14Conc(t *testing.T) {
	runs := pick(64, 600)
	if raceEnabled {
		runs = pick(24, 200)
	}
	for g := 0; g < runs; g++ {
		id := fmt.Sprintf("c14/conc/%d", g)
		if !mine(g) || !out.Only(id) {
			continue
		}
		seed := caseSeed("c14c", g)
		r := spec.NewRand(seed)
		size := []int64{16384, 32768, 65536}[r.Intn(3)]
		total := int64(pick(4, 16)) << 20
		if raceEnabled {
			total = int64(pick(1, 4)) << 20
		}
		dist := []string{"tiny", "block", "nearsize", "mixed", "waitbig"}[g%5]
		procs := []int{2, 4, 16}[(g/5)%3]
		useReadFrom := r.Intn(3) == 0
		useWriteTo := r.Intn(3) == 0
		yields := g%2 == 0
		params := map[string]interface{}{"size": size, "total": total, "dist": dist, "gomaxprocs": procs, "readfrom_tail": useReadFrom, "writeto_tail": useWriteTo, "yields": yields}
		out.Begin(id, seed, params)
		old := runtime.GOMAXPROCS(procs)
		c14Run(seed, size, total, dist, useReadFrom, useWriteTo, yields, params)
		runtime.GOMAXPROCS(old)
		out.End()
	}
}

// pmaxOf is the largest chunk the producer of a distribution writes; a
// consumer may wait for at most size-pmax bytes, otherwise producer (needs
// space) and consumer (needs data) can legitimately wait for each other.
func pmaxOf(dist string, size int64) int64 {
	switch dist {
	case "tiny", "waitbig":
		return 16
	case "block":
		return 8200
	}
	return size
}

func chunkSize(r *spec.Rand, dist string, size int64) int64 {
	switch dist {
	case "tiny":
		return int64(1 + r.Intn(16))
	case "block":
		return int64(8192 - 8 + r.Intn(17))
	case "nearsize":
		return size - int64(r.Intn(64))
	case "waitbig":
		return int64(1 + r.Intn(16))
	}
	switch r.Intn(4) {
	case 0:
		return int64(1 + r.Intn(16))
	case 1:
		return int64(1 + r.Intn(int(size)))
	case 2:
		return int64(8192 - 8 + r.Intn(17))
	}
	return int64(1 + r.Intn(2000))
}

func c14Run(seed uint64, size, total int64, dist string, useReadFrom, useWriteTo, yields bool, params map[string]interface{}) {
	// the ring is asked for with the size an application would configure: in every third run a value
	// that is not a power of two (BufferSize is documented to be rounded up); the effective size must
	// be the next power of two, and everything below works with that
	req := size
	if sr := spec.NewRand(seed ^ 0x5151); sr.Intn(3) == 0 {
		req = size/2 + 1 + int64(sr.Intn(int(size/2-1)))
		out.Count("c14.conc.odd_requested_sizes", 1)
	}
	params["requested_size"] = req
	b := newRing(req)
	if eff := b.VerifBufferSize(); eff != size {
		out.Violation("c14:ring-size", fmt.Sprintf("a ring asked for with %d bytes has an effective size of %d (expected the next power of two, %d): positions are mapped to cells by masking with size-1", req, eff, size), params)
		return
	}
	var pblocks, cblocks, peekTmp int64
	if !raceEnabled {
		yieldTable.Store(b, func(point string) {
			switch point {
			case "buf.wspace.prewait":
				atomic.AddInt64(&pblocks, 1)
			case "buf.read.prewait", "buf.peek.prewait", "buf.readwait.prewait":
				atomic.AddInt64(&cblocks, 1)
			}
			if yields && (point == "buf.peek.prelock" || point == "buf.readwait.prelock" || point == "buf.wspace.prelock") {
				// no lock held here
				if time.Now().UnixNano()&7 == 0 {
					runtime.Gosched()
				}
			}
		})
		defer yieldTable.Delete(b)
	} else {
		raceYieldOn = yields
		defer func() { raceYieldOn = false }()
	}
	var wg sync.WaitGroup
	var perr, cerr error
	var consumed int64
	tailAt := total
	if useReadFrom {
		tailAt = total / 2
	}
	wg.Add(2)
	go func() { // producer
		defer wg.Done()
		r := spec.NewRand(spec.Mix(seed, 11))
		pos := int64(0)
		for pos < tailAt {
			n := chunkSize(r, dist, size)
			if tailAt-pos < n {
				n = tailAt - pos
			}
			op := "Write"
			if r.Bool() {
				op = "WriteWait"
			}
			if err := produce(b, op, seed, pos, n); err != nil {
				perr = fmt.Errorf("%s at %d: %v", op, pos, err)
				b.Close()
				return
			}
			pos += n
		}
		if useReadFrom {
			rd := &streamReader{seed: seed, pos: pos, end: total, final: io.EOF, max: 1 + r.Intn(9000)}
			n, err := b.ReadFrom(rd) // closes the ring when the reader is exhausted
			if err != io.EOF || n != total-pos {
				perr = fmt.Errorf("ReadFrom = %d, %v (expected %d, EOF)", n, err, total-pos)
			}
			return
		}
		b.Close()
	}()
	go func() { // consumer
		defer wg.Done()
		r := spec.NewRand(spec.Mix(seed, 12))
		pos := int64(0)
		wtAt := total + 1
		if useWriteTo {
			wtAt = total / 3
		}
		for {
			if pos >= wtAt {
				w := &streamWriter{seed: seed, pos: pos, badAt: -1, partial: r.Bool()}
				if r.Bool() {
					w.slow = func() {
						if time.Now().UnixNano()&31 == 0 {
							time.Sleep(20 * time.Microsecond)
						}
					}
				}
				b.WriteTo(w) // returns when the ring is closed
				if w.badAt >= 0 {
					cerr = fmt.Errorf("WriteTo: byte at stream position %d is wrong", w.badAt)
					return
				}
				pos = w.pos
				wtAt = total + 1
				continue // drain what is left with the other operations
			}
			n := chunkSize(r, dist, size)
			var p []byte
			var err error
			op := r.Intn(3)
			switch op {
			case 0:
				buf := make([]byte, n)
				var k int
				k, err = b.Read(buf)
				p = buf[:k]
				if i := verifyStream(p, seed, pos); i >= 0 {
					cerr = fmt.Errorf("Read: byte at stream position %d is wrong", pos+int64(i))
					return
				}
				pos += int64(k)
			case 1:
				p, err = b.ReadPeek(int(n))
				if len(p) > 0 {
					if i := verifyStream(p, seed, pos); i >= 0 {
						cerr = fmt.Errorf("ReadPeek: byte at stream position %d is wrong", pos+int64(i))
						return
					}
					// the producer must not overwrite what is peeked but not committed
					runtime.Gosched()
					if i := verifyStream(p, seed, pos); i >= 0 {
						cerr = fmt.Errorf("peeked bytes changed before commit at stream position %d (producer overwrote uncommitted data)", pos+int64(i))
						return
					}
					m := len(p)
					if m > 1 && r.Intn(3) == 0 {
						m = 1 + r.Intn(m)
					}
					if k, e := b.ReadCommit(m); e != nil || k != m {
						cerr = fmt.Errorf("ReadCommit(%d) = %d, %v", m, k, e)
						return
					}
					pos += int64(m)
					atomic.AddInt64(&peekTmp, 1)
					err = nil
				}
			case 2:
				if dist == "waitbig" {
					n = size - 16 - int64(r.Intn(64))
				}
				lim := size - pmaxOf(dist, size)
				if useReadFrom && lim > size-8192 {
					lim = size - 8192
				}
				if n > lim {
					n = lim
				}
				if rem := total - pos; rem < n {
					n = rem // do not wait for more than will ever come
				}
				if n <= 0 {
					n = 1
				}
				p, err = b.ReadWait(int(n))
				if err == nil {
					if int64(len(p)) != n {
						cerr = fmt.Errorf("ReadWait(%d) returned %d bytes", n, len(p))
						return
					}
					if i := verifyStream(p, seed, pos); i >= 0 {
						cerr = fmt.Errorf("ReadWait: byte at stream position %d is wrong", pos+int64(i))
						return
					}
					time.Sleep(0)
					if i := verifyStream(p, seed, pos); i >= 0 {
						cerr = fmt.Errorf("waited bytes changed before commit at stream position %d", pos+int64(i))
						return
					}
					if k, e := b.ReadCommit(int(n)); e != nil || int64(k) != n {
						cerr = fmt.Errorf("ReadCommit(%d) = %d, %v", n, k, e)
						return
					}
					pos += n
				}
			}
			atomic.StoreInt64(&consumed, pos)
			if err == io.EOF {
				if b.Len() == 0 {
					return
				}
				// closed with data left (ReadWait for more than remains): keep draining with Read
				continue
			}
			if err != nil && len(p) == 0 {
				cerr = fmt.Errorf("consumer op %d: %v at %d", op, err, pos)
				return
			}
		}
	}()
	done := make(chan struct{})
	go func() { wg.Wait(); close(done) }()
	select {
	case <-done:
	case <-time.After(120 * time.Second):
		out.Inconclusive("ring workload did not finish within the watchdog", params)
		b.Close()
		return
	}
	if perr != nil {
		out.Violation("c14:producer", perr.Error(), params)
	}
	if cerr != nil {
		out.Violation("c14:stream", cerr.Error(), params)
	}
	got := atomic.LoadInt64(&consumed)
	if perr == nil && cerr == nil && got != total {
		out.Violation("c14:loss", fmt.Sprintf("consumer obtained %d of %d committed bytes before end-of-stream", got, total), params)
	}
	out.Count("c14.conc.runs", 1)
	out.Count("c14.conc.bytes", got)
	out.Count("c14.conc.wraps", got/size)
	out.Count("c14.conc.producer_blocks", atomic.LoadInt64(&pblocks))
	out.Count("c14.conc.consumer_blocks", atomic.LoadInt64(&cblocks))
	out.Count("c14.conc.peeks", atomic.LoadInt64(&peekTmp))
	out.Class(fmt.Sprintf("conc/%d/%s/rf%v/wt%v/y%v/p%d", size, dist, useReadFrom, useWriteTo, yields, runtime.GOMAXPROCS(0)))
	out.Sample("c14.conc", 2, map[string]interface{}{"params": params, "bytes": got, "producer_blocks": atomic.LoadInt64(&pblocks), "consumer_blocks": atomic.LoadInt64(&cblocks)})
}
