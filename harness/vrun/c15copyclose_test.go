package vrun

import (
	"fmt"
	"io"
	"runtime"
	"sync/atomic"
	"testing"
	"time"

	"verif/harness/out"
	"verif/harness/spec"
)

// TestC15CopyClose: Close (twice, from two goroutines) arriving while a call is in the middle
// of moving a large amount of bytes - a Read or a Write of several MiB, which is where the call
// spends its time between its critical sections. Close must return, the call in progress must
// return, and so must the later calls. The moment of the Close is spread over the copy by a seeded
// delay; a lock seen held (VerifLocksFree) only shortens the wait for the call to have started.
// Decided on goroutine state like the other C15 cells.
func c15CopyClose(op string, size, amount int64, delayUS int, seed uint64) string {
	detail := map[string]interface{}{"op": op, "size": size, "amount": amount, "close_after_us": delayUS}
	var b *ring
	if op == "Read" {
		b = prepRing(size, 100, amount, seed) // amount bytes waiting
	} else {
		b = prepRing(size, 100, 0, seed) // empty: room for the whole write
	}
	var oid, odone, c1, c2, c1done, c2done int64
	go func() {
		atomic.StoreInt64(&oid, int64(goid()))
		defer atomic.StoreInt64(&odone, 1)
		p := make([]byte, amount)
		switch op {
		case "Read":
			b.Read(p)
		case "Write":
			fillStream(p, seed, 100)
			b.Write(p)
		}
	}()
	for i := 0; i < 2000 && atomic.LoadInt64(&oid) == 0; i++ {
		runtime.Gosched()
	}
	for i := 0; i < 200 && atomic.LoadInt64(&odone) == 0; i++ {
		if pf, cf := b.VerifLocksFree(); !pf || !cf {
			break
		}
		runtime.Gosched()
	}
	if delayUS > 0 {
		time.Sleep(time.Duration(delayUS) * time.Microsecond)
	}
	inProgress := atomic.LoadInt64(&odone) == 0
	closer := func(id, done *int64) {
		atomic.StoreInt64(id, int64(goid()))
		defer atomic.StoreInt64(done, 1)
		b.Close()
	}
	go closer(&c1, &c1done)
	go closer(&c2, &c2done)
	ids := func() []int {
		return []int{int(atomic.LoadInt64(&oid)), int(atomic.LoadInt64(&c1)), int(atomic.LoadInt64(&c2))}
	}
	all := func() bool {
		return atomic.LoadInt64(&odone) != 0 && atomic.LoadInt64(&c1done) != 0 && atomic.LoadInt64(&c2done) != 0
	}
	stuck, inc := stuckVerdict(ids, all, 5*time.Second)
	if !all() {
		if stuck != nil && !inc {
			var tops []string
			for _, g := range stuck {
				tops = append(tops, g.libTop()+":"+g.state)
			}
			sortStrings(tops)
			out.Violation("c15:close-during-copy:"+op+":"+fmt.Sprint(tops), fmt.Sprintf("a %s of %d bytes was in progress on a ring of %d bytes when Close was called from two goroutines: none of them can get on any more (%v)", op, amount, size, tops), detail)
			return ""
		}
		out.Inconclusive("c15copyclose: neither finished nor provably stuck", detail)
		return ""
	}
	// later calls return, with end-of-stream where they could only wait
	var ldone int64
	var lid int64
	var lerr atomic.Value
	go func() {
		atomic.StoreInt64(&lid, int64(goid()))
		defer atomic.StoreInt64(&ldone, 1)
		if _, err := b.Write([]byte{1}); err != io.EOF {
			lerr.Store(fmt.Sprintf("Write after Close: %v", err))
		}
		buf := make([]byte, 1<<20)
		for i := 0; i < 64; i++ {
			if _, err := b.Read(buf); err != nil {
				break
			}
		}
		b.Close()
	}()
	stuck, inc = stuckVerdict(func() []int { return []int{int(atomic.LoadInt64(&lid))} }, func() bool { return atomic.LoadInt64(&ldone) != 0 }, 5*time.Second)
	if atomic.LoadInt64(&ldone) == 0 {
		if stuck != nil && !inc {
			out.Violation("c15:later-call-stuck:after-close-during-"+op, fmt.Sprintf("after a Close during a %s of %d bytes a later call (Write, Read, Close) does not return: %s", op, amount, stuck[0].libTop()), detail)
		} else {
			out.Inconclusive("c15copyclose: later calls neither finished nor provably stuck", detail)
		}
		return ""
	}
	if e := lerr.Load(); e != nil {
		out.Violation("c15:later-call-result:after-close-during-"+op, e.(string), detail)
		return ""
	}
	if inProgress {
		return "in-progress"
	}
	return "finished-before"
}

func TestC15CopyClose(t *testing.T) {
	i := 0
	for _, op := range []string{"Read", "Write"} {
		for rd := 0; rd < pick(40, 400); rd++ {
			i++
			id := fmt.Sprintf("c15/copyclose/%s/%d", op, rd)
			if !mine(i) || !out.Only(id) {
				continue
			}
			seed := caseSeed("c15cc", i)
			r := spec.NewRand(seed)
			size := int64(16 << 20)
			amount := int64(4<<20) + int64(r.Intn(8<<20))
			delay := r.Intn(1500)
			out.Begin(id, seed, nil)
			switch c15CopyClose(op, size, amount, delay, seed) {
			case "in-progress":
				out.Count("c15.copyclose_cells", 1)
				out.Count("c15.copyclose_in_progress", 1)
			case "finished-before":
				out.Count("c15.copyclose_cells", 1)
			}
			out.Class("copyclose/" + op)
			out.End()
		}
	}
}
