package vrun

import (
	"fmt"
	"testing"
	"time"

	"verif/harness/out"
	"verif/harness/rawclient"
	rc "verif/harness/refcodec"
	"verif/harness/spec"
)

var c19Patterns = []string{"silent", "traffic-then-silent", "ping", "publish-only", "trickle", "silent-mid-packet", "silent-after-header-byte", "uneven", "large-then-ping", "silent-receiving", "silent-successor", "silent-outbound-full", "silent-resumed"}
var c19Fractions = []float64{0.25, 0.5, 0.9, 0.99}

func c19Run(t *testing.T, K int, pattern string, frac float64, idx int) {
	params := map[string]interface{}{"K": K, "pattern": pattern, "fraction": frac}
	bubble(t, "c19", params, func(cl *cleanup) {
		w := newWorld(worldCfg{BufferSize: 16384})
		cl.add(w.shutdown)
		fail := func(sig, desc string) { out.Violation(sig, desc, params) }
		wit, ack := w.connectB("witness", connectOpts{Clean: true, KeepAlive: 60000})
		if ack == nil {
			fail("c19:connect", "no CONNACK for the witness")
			return
		}
		if sa, _ := wit.subscribeB([]string{"will/ka"}, []byte{1}); sa == nil {
			fail("c19:suback", "witness")
			return
		}
		willUID := uint64(4242)
		var policy rawclient.AckPolicy
		if pattern == "silent-outbound-full" {
			policy = rawclient.AckNone
		}
		origPattern := pattern
		stopBase := 0
		if pattern == "silent-resumed" {
			// the subject's client identifier has a stored session from an earlier connection that ended
			// with DISCONNECT; the connection under observation resumes it
			pc, pack := w.connectB("subject", connectOpts{Clean: false, KeepAlive: 6000})
			if pack == nil || pack.ReturnCode != 0 {
				fail("c19:connect", "no CONNACK for the subject's earlier connection")
				return
			}
			pc.subscribeB([]string{"ka/own"}, []byte{1})
			pc.SendPacket(&rc.Packet{Type: rc.DISCONNECT})
			pc.Flush()
			pc.Close()
			settle()
			if w.sink != nil {
				stopBase = w.sink.count("stop.done", "subject") // the earlier connection's teardown
			}
		}
		c, ack := w.connectB("subject", connectOpts{Clean: pattern != "silent-successor" && pattern != "silent-resumed", KeepAlive: uint16(K), Policy: policy,
			Will: &rc.Packet{Topic: []byte("will/ka"), QoS: 1, Payload: spec.MakePayload(willUID, 0, 40)}})
		if ack == nil || ack.ReturnCode != 0 {
			fail("c19:connect", "no CONNACK for the subject")
			return
		}
		if pattern == "silent-resumed" {
			if !ack.SessionPresent {
				fail("c19:connect", "the subject's stored session was not resumed")
				return
			}
			out.Count("c19.resumed_runs", 1)
			pattern = "silent" // from here on it is a client that says nothing
		}
		kd := time.Duration(K) * time.Second
		interval := time.Duration(float64(kd) * frac)
		lastByte := time.Now()
		sendSome := func(i int) {
			switch pattern {
			case "publish-only":
				c.SendPacket(&rc.Packet{Type: rc.PUBLISH, Topic: []byte("ka/data"), Payload: spec.MakePayload(uint64(i), 0, 30)})
			default:
				c.SendPacket(&rc.Packet{Type: rc.PINGREQ})
			}
			settle()
			lastByte = time.Now()
		}
		// ---- active phase
		rounds := 0
		switch pattern {
		case "ping", "publish-only", "uneven":
			rounds = 50
		case "traffic-then-silent":
			rounds = 8
		case "large-then-ping":
			// a small packet and, right behind it, one almost as large as the connection's ring (16 KiB),
			// in one write; then ordinary pings. The large one cannot be taken out of the ring before it
			// has arrived completely.
			rounds = 8
			pre := rc.Encode(&rc.Packet{Type: rc.PUBLISH, Topic: []byte("ka/data"), Payload: spec.MakePayload(1, 0, 3000)})
			pre = append(pre, rc.Encode(&rc.Packet{Type: rc.PUBLISH, Topic: []byte("ka/data"), Payload: spec.MakePayload(2, 0, 16384-500-int(frac*400))})...)
			c.Send(pre)
			settle()
			lastByte = time.Now()
		}
		pings := 0
		ur := spec.NewRand(uint64(K)*1000 + uint64(frac*1000))
		for i := 0; i < rounds; i++ {
			if pattern == "uneven" {
				// irregular pacing, every gap shorter than K: a short gap (frac x K) followed by a long one (0.8..0.99 K)
				if i%2 == 0 {
					interval = time.Duration(float64(kd) * frac)
				} else {
					interval = time.Duration(float64(kd) * (0.80 + 0.19*float64(ur.Intn(100))/100))
				}
			}
			time.Sleep(interval)
			if c.Closed() {
				fail("c19:active-dropped", fmt.Sprintf("client sending every %v (keep-alive %ds) was disconnected after %d intervals", interval, K, i))
				return
			}
			sendSome(i)
			if pattern != "publish-only" {
				pings++
			}
		}
		if pattern == "trickle" {
			// one long PUBLISH, a byte at a time, every 0.9 K: outcome recorded, not asserted
			pkt := rc.Encode(&rc.Packet{Type: rc.PUBLISH, Topic: []byte("ka/trickle"), Payload: spec.MakePayload(7, 0, 30)})
			for i := 0; i < len(pkt) && !c.Closed(); i++ {
				time.Sleep(interval)
				c.Send(pkt[i : i+1])
				settle()
				lastByte = time.Now()
			}
			out.Count("c19.trickle_runs", 1)
			if c.Closed() {
				out.Count("c19.trickle_dropped", 1)
			}
		}
		switch pattern {
		case "silent-mid-packet":
			// some traffic, then a PUBLISH that stops in the middle, then nothing
			sendSome(0)
			pings++
			pkt := rc.Encode(&rc.Packet{Type: rc.PUBLISH, Topic: []byte("ka/half"), Payload: spec.MakePayload(9, 0, 60)})
			c.Send(pkt[:len(pkt)/2])
			settle()
			lastByte = time.Now()
		case "silent-after-header-byte":
			c.Send([]byte{0x30})
			settle()
			lastByte = time.Now()
		}
		// "silent-outbound-full": the client has stopped reading and has sent requests until the answers
		// filled its connection's outgoing ring and the connection's processor is parked waiting for
		// room (decided on the handled-packet events); then it falls silent. Nothing is pending on the
		// wire towards the broker. It must be dropped on time like any silent client.
		gone := func() bool {
			return c.Closed() || (w.sink != nil && w.sink.count("stop.done", "subject") > stopBase)
		}
		if pattern == "silent-outbound-full" {
			if w.sink == nil {
				return
			}
			c.PauseReading()
			cl.add(func() { c.ResumeReading(); c.Close() })
			sent, stalled := 0, false
			for round := 0; round < 200 && !stalled; round++ {
				var burst []byte
				for i := 0; i < 64; i++ {
					sent++
					burst = append(burst, rc.Encode(&rc.Packet{Type: rc.PUBLISH, Topic: []byte("ka/data"), QoS: 1, ID: uint16(sent), Payload: []byte("p")})...)
				}
				c.Send(burst)
				settle()
				stalled = w.sink.countArg("proc.handled", int(rc.PUBLISH)) < sent
			}
			lastByte = time.Now()
			if !stalled {
				out.Inconclusive("c19: the subject's processor did not stall on its own outgoing ring", params)
				return
			}
			out.Count("c19.outbound_full_runs", 1)
		}
		if got := countType(c.fresh(), rc.PINGRESP); got != pings && pattern != "silent-outbound-full" {
			fail("c19:pingresp", fmt.Sprintf("%d PINGREQ sent, %d PINGRESP received", pings, got))
			return
		}
		if pattern == "ping" || pattern == "publish-only" || pattern == "uneven" || pattern == "large-then-ping" {
			if c.Closed() {
				fail("c19:active-dropped", "disconnected at the end of the active phase")
				return
			}
			if len(publishesIn(wit.fresh())) != 0 {
				fail("c19:will-while-active", "the witness received the will of a client that is still active")
				return
			}
		}
		// "silent-receiving": the subject holds a subscription and keeps RECEIVING publications from
		// another client at intervals shorter than K while it sends nothing itself: what the broker
		// writes to it must not count as activity of the client
		var feeder *bclient
		if pattern == "silent-receiving" {
			if sa, _ := c.subscribeB([]string{"ka/feed"}, []byte{0}); sa == nil {
				fail("c19:suback", "subject")
				return
			}
			lastByte = time.Now()
			var fa *rc.Packet
			feeder, fa = w.connectB("feeder", connectOpts{Clean: true, KeepAlive: 60000})
			if fa == nil {
				fail("c19:connect", "feeder")
				return
			}
		}
		// "silent-successor": the device has given the connection up without closing it and comes
		// back on a new connection (same client identifier, CleanSession=0, a will of its own or none)
		// half a keep-alive interval into the silence, and is active there. The silent connection is
		// still to be dropped on time as a failed one - its will, not the successor's - and the active
		// successor is not to be touched.
		var succ *bclient
		succUID := uint64(4343)
		succPings, succWill := 0, int(frac*100)%2 == 0
		// ---- silent phase: must be dropped after more than K and by 2K, as an abnormal end
		step := kd / 20
		var droppedAfter time.Duration = -1
		fed := 0
		for el := time.Duration(0); el <= 3*kd; el += step {
			if gone() {
				droppedAfter = time.Since(lastByte)
				break
			}
			if pattern == "silent-successor" && succ == nil && el >= kd/2 {
				o := connectOpts{ClientID: "subject", Clean: false, KeepAlive: uint16(K)}
				if succWill {
					o.Will = &rc.Packet{Topic: []byte("will/ka"), QoS: 1, Payload: spec.MakePayload(succUID, 0, 40)}
				}
				var sa *rc.Packet
				if succ, sa = w.connectB("successor", o); sa == nil || sa.ReturnCode != 0 {
					fail("c19:connect", "successor")
					return
				}
			}
			if succ != nil && el >= kd/2+time.Duration(succPings+1)*interval {
				if succ.Closed() {
					fail("c19:active-dropped", fmt.Sprintf("the successor connection, sending a PINGREQ every %v (keep-alive %ds), was disconnected", interval, K))
					return
				}
				succPings++
				succ.SendPacket(&rc.Packet{Type: rc.PINGREQ})
				settle()
			}
			if feeder != nil && el >= time.Duration(fed+1)*interval {
				fed++
				feeder.SendPacket(&rc.Packet{Type: rc.PUBLISH, Topic: []byte("ka/feed"), Payload: spec.MakePayload(uint64(1000+fed), 0, 30)})
				settle()
			}
			time.Sleep(step)
			settle()
		}
		if feeder != nil {
			out.Count("c19.fed_while_silent", int64(fed))
		}
		if gone() && droppedAfter < 0 {
			droppedAfter = time.Since(lastByte)
		}
		switch {
		case droppedAfter < 0:
			fail("c19:silent-not-dropped", fmt.Sprintf("keep-alive %ds: still connected %v after its last byte", K, time.Since(lastByte)))
			return
		case droppedAfter < kd:
			fail("c19:dropped-too-early", fmt.Sprintf("keep-alive %ds: disconnected only %v after its last byte", K, droppedAfter))
			return
		case droppedAfter > 2*kd+step:
			fail("c19:dropped-too-late", fmt.Sprintf("keep-alive %ds: disconnected %v after its last byte (more than 2K)", K, droppedAfter))
			return
		}
		settle()
		wills := 0
		for _, d := range publishesIn(wit.fresh()) {
			if d.uid == willUID && d.ok {
				wills++
			}
			if d.uid == succUID {
				fail("c19:will-while-active", "the witness received the will of the successor connection, which is active")
				return
			}
		}
		if succ != nil {
			if succ.Closed() {
				fail("c19:active-dropped", "the active successor connection was closed when the silent one was dropped")
				return
			}
			if got := countType(succ.fresh(), rc.PINGRESP); got != succPings {
				fail("c19:pingresp", fmt.Sprintf("successor: %d PINGREQ sent, %d PINGRESP received", succPings, got))
				return
			}
			out.Count("c19.successor_runs", 1)
		}
		if wills != 1 {
			fail("c19:will-on-expiry", fmt.Sprintf("keep-alive expiry is an abnormal end: the witness received the will %d times", wills))
			return
		}
		out.Count("c19.runs", 1)
		out.Count("c19.pings_answered", int64(pings))
		out.Class(fmt.Sprintf("K%d/%s/%.2f", K, origPattern, frac))
		if idx%7 == 0 {
			out.Sample("c19", 4, map[string]interface{}{"K": K, "pattern": pattern, "fraction": frac, "dropped_after_virtual_seconds": droppedAfter.Seconds()})
		}
	})
}

func TestC19(t *testing.T) {
	i := 0
	for _, K := range []int{1, 2, 3, 5, 10, 60} {
		for _, p := range c19Patterns {
			fr := c19Fractions
			if p == "silent" || p == "silent-resumed" || p == "silent-mid-packet" || p == "silent-after-header-byte" || p == "silent-outbound-full" {
				fr = []float64{0}
			}
			if p == "trickle" {
				fr = []float64{0.9}
			}
			if p == "uneven" {
				fr = []float64{0.05, 0.2, 0.35, 0.39, 0.5}
			}
			for _, f := range fr {
				i++
				id := fmt.Sprintf("c19/K%d/%s/%.2f", K, p, f)
				if !mine(i) || !out.Only(id) {
					continue
				}
				out.Begin(id, 0, nil)
				c19Run(t, K, p, f, i)
				out.End()
			}
		}
	}
}
