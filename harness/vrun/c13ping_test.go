package vrun

import (
	"fmt"
	"sync/atomic"
	"testing"
	"time"

	"github.com/mdzio/go-mqtt/message"
	"github.com/mdzio/go-mqtt/sessions"

	"verif/harness/out"
	"verif/harness/spec"
)

// TestC13PingConc: the ping queue under two goroutines, as in a client whose
// application calls Ping while the processor handles the PINGRESP of an earlier
// one. One goroutine registers numbered PINGREQs (at most 1..4 unanswered), the
// other feeds PINGRESPs and collects. PINGRESP carries no identifier: the n-th
// answer completes the n-th request. Every request must be handed back exactly
// once, in registration order, none may be lost. Also run under the race
// detector (C18).
func c13PingConc(idx int, seed uint64) {
	r := spec.NewRand(seed)
	total := pick(10000, 50000)
	window := int64(1 + r.Intn(4))
	params := map[string]interface{}{"case": idx, "pings": total, "max_unanswered": window}
	q := newQueue(qkind{get: func(s *sessions.Session) *sessions.Ackqueue { return s.Pingack }})
	var registered, answered int64
	var stop atomic.Bool
	done := make(chan struct{})
	go func() {
		defer close(done)
		for i := 0; i < total && !stop.Load(); i++ {
			for atomic.LoadInt64(&registered)-atomic.LoadInt64(&answered) >= window && !stop.Load() {
				time.Sleep(time.Microsecond)
			}
			if err := q.Wait(message.NewPingreqMessage(), i); err != nil {
				out.Violation("c13:wait-error:Pingack", err.Error(), params)
				stop.Store(true)
				return
			}
			atomic.AddInt64(&registered, 1)
		}
	}()
	next := 0
	deadline := time.Now().Add(120 * time.Second)
	for next < total && !stop.Load() {
		if time.Now().After(deadline) {
			out.Violation("c13:ping-lost", fmt.Sprintf("%d of %d registered PINGREQs handed back, %d PINGRESPs fed, nothing more comes", next, atomic.LoadInt64(&registered), atomic.LoadInt64(&answered)), params)
			stop.Store(true)
			break
		}
		if atomic.LoadInt64(&registered) > atomic.LoadInt64(&answered) {
			if err := q.Ack(message.NewPingrespMessage()); err != nil {
				out.Violation("c13:ack-error:Pingack", err.Error(), params)
				stop.Store(true)
				break
			}
			atomic.AddInt64(&answered, 1)
		}
		for _, a := range q.Acked() {
			tk, _ := a.OnComplete.(int)
			if tk != next {
				out.Violation("c13:ping-order", fmt.Sprintf("ping #%d handed back where #%d was due (registered %d, answered %d)", tk, next, atomic.LoadInt64(&registered), atomic.LoadInt64(&answered)), params)
				stop.Store(true)
				break
			}
			next++
		}
	}
	stop.Store(true)
	<-done
	if next == total {
		out.Count("c13.ping_conc_cases", 1)
		out.Count("c13.ping_conc_pings", int64(total))
		out.Class(fmt.Sprintf("pingconc/w%d", window))
	}
}

func TestC13PingConc(t *testing.T) {
	n := pick(8, 32)
	for g := 0; g < n; g++ {
		id := fmt.Sprintf("c13/pingconc/%d", g)
		if !mine(g) || !out.Only(id) {
			continue
		}
		seed := caseSeed("c13pc", g)
		out.Begin(id, seed, nil)
		c13PingConc(g, seed)
		out.End()
	}
}
