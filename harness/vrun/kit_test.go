package vrun

import (
	"fmt"
	"testing"
	"testing/synctest"

	"verif/harness/out"
	"verif/harness/rawclient"
	rc "verif/harness/refcodec"
	"verif/harness/spec"
)

// bubble runs f inside a synctest bubble (virtual time; synctest.Wait is the
// quiescence barrier). A panic inside is reported as a violation of the
// current case with the library frame as signature.
func bubble(t *testing.T, sigPrefix string, detail interface{}, f func(cl *cleanup)) {
	synctest.Test(t, func(t *testing.T) {
		cl := &cleanup{}
		defer cl.run()
		defer func() {
			if r := recover(); r != nil {
				site, class := panicSite(r)
				out.Violation(sigPrefix+":panic:"+site+":"+class, fmt.Sprint(r), detail)
			}
		}()
		f(cl)
	})
}

// cleanup collects what must be torn down before a bubble can end (every
// goroutine started inside has to exit).
type cleanup struct{ fs []func() }

func (c *cleanup) add(f func()) { c.fs = append(c.fs, f) }
func (c *cleanup) run() {
	for i := len(c.fs) - 1; i >= 0; i-- {
		func() {
			defer func() { recover() }()
			c.fs[i]()
		}()
	}
	c.fs = nil
}

// settle waits until every goroutine in the bubble is durably blocked.
func settle() { synctest.Wait() }

// bclient is a raw client plus the bookkeeping scenarios need.
type bclient struct {
	*rawclient.Client
	name string
	ids  idGen
	mark int             // receive-log index up to which packets were examined
	subs map[string]byte // model: filter -> granted QoS
	cid  string
	up   bool
}

// fresh returns the packets received since the last call.
func (c *bclient) fresh() []rawclient.Event {
	evs := c.Since(c.mark)
	c.mark += len(evs)
	return evs
}

// connectB dials, sends CONNECT, settles and returns the client and its CONNACK
// (nil if none arrived).
func (w *world) connectB(name string, o connectOpts) (*bclient, *rc.Packet) {
	if o.ClientID == "" {
		o.ClientID = name
	}
	c := &bclient{Client: w.dial(name, o), name: name, subs: map[string]byte{}, cid: o.ClientID}
	settle()
	evs := c.fresh()
	if len(evs) > 0 && evs[0].P.Type == rc.CONNACK {
		c.up = evs[0].P.ReturnCode == 0 && !c.Closed()
		return c, evs[0].P
	}
	return c, nil
}

// subscribeB sends a SUBSCRIBE and settles; it returns the SUBACK (nil if none)
// and the other packets that arrived.
func (c *bclient) subscribeB(filters []string, qoss []byte) (*rc.Packet, []rawclient.Event) {
	id := c.ids.next()
	p := &rc.Packet{Type: rc.SUBSCRIBE, ID: id, QoSs: qoss}
	for _, f := range filters {
		p.Filters = append(p.Filters, []byte(f))
	}
	c.SendPacket(p)
	settle()
	var ack *rc.Packet
	var rest []rawclient.Event
	for _, e := range c.fresh() {
		if e.P.Type == rc.SUBACK && e.P.ID == id && ack == nil {
			ack = e.P
		} else {
			rest = append(rest, e)
		}
	}
	return ack, rest
}

func (c *bclient) unsubscribeB(filters []string) (*rc.Packet, []rawclient.Event) {
	id := c.ids.next()
	p := &rc.Packet{Type: rc.UNSUBSCRIBE, ID: id}
	for _, f := range filters {
		p.Filters = append(p.Filters, []byte(f))
	}
	c.SendPacket(p)
	settle()
	var ack *rc.Packet
	var rest []rawclient.Event
	for _, e := range c.fresh() {
		if e.P.Type == rc.UNSUBACK && e.P.ID == id && ack == nil {
			ack = e.P
		} else {
			rest = append(rest, e)
		}
	}
	return ack, rest
}

// publishB sends a PUBLISH and settles (QoS flows are completed by the ack
// policy of the clients involved).
func (c *bclient) publishB(topic string, qos byte, retain bool, payload []byte) uint16 {
	p := &rc.Packet{Type: rc.PUBLISH, Topic: []byte(topic), QoS: qos, Retain: retain, Payload: payload}
	if qos > 0 {
		p.ID = c.ids.next()
		// every fifth acknowledged publish carries the DUP flag, as a client's first packets after a
		// reconnect do (it cannot know whether the broker saw the original)
		if p.ID%5 == 0 {
			p.Dup = true
			out.Count("kit.publishes_flagged_dup", 1)
		}
	}
	c.SendPacket(p)
	settle()
	return p.ID
}

// uidGen hands out unique message ids.
type uidGen struct{ n uint64 }

func (g *uidGen) next() uint64 { g.n++; return g.n }

// delivered is one received application message, decoded.
type delivered struct {
	uid    uint64
	seq    uint32
	qos    byte
	retain bool
	dup    bool
	topic  string
	ok     bool // payload self-check passed
	id     uint16
	n      int
}

func decodeDelivery(p *rc.Packet) delivered {
	d := delivered{qos: p.QoS, retain: p.Retain, dup: p.Dup, topic: string(p.Topic), id: p.ID, n: len(p.Payload)}
	d.uid, d.seq, d.ok = spec.ParsePayload(p.Payload)
	return d
}

// publishesIn extracts the PUBLISH packets from events.
func publishesIn(evs []rawclient.Event) []delivered {
	var ds []delivered
	for _, e := range evs {
		if e.P.Type == rc.PUBLISH {
			ds = append(ds, decodeDelivery(e.P))
		}
	}
	return ds
}

// submultiset reports whether every element of got can be matched to a
// distinct element of want (both small).
func submultiset(got, want []byte) bool {
	used := make([]bool, len(want))
outer:
	for _, g := range got {
		for i, w := range want {
			if !used[i] && w == g {
				used[i] = true
				continue outer
			}
		}
		return false
	}
	return true
}

func minQ(a, b byte) byte {
	if a < b {
		return a
	}
	return b
}
