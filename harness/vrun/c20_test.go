package vrun

import (
	"fmt"
	"sort"
	"strings"
	"sync"
	"testing"
	"time"

	"github.com/mdzio/go-mqtt/message"
	"github.com/mdzio/go-mqtt/service"

	"verif/harness/out"
	"verif/harness/rawclient"
	rc "verif/harness/refcodec"
	"verif/harness/spec"
)

type connackCase struct {
	desc   string
	answer []byte // nil: no answer
	close  bool   // close right after the answer (or instead of one)
	code   int    // expected: 0 = success, 1..5 = that ConnackCode, -1 = some error
}

func connackCases() []connackCase {
	var cs []connackCase
	for code := 0; code <= 5; code++ {
		for sp := 0; sp < 2; sp++ {
			want := code
			cs = append(cs, connackCase{desc: fmt.Sprintf("CONNACK code=%d sp=%d", code, sp), answer: []byte{0x20, 2, byte(sp), byte(code)}, code: want})
		}
	}
	cs = append(cs,
		connackCase{desc: "CONNACK code=6", answer: []byte{0x20, 2, 0, 6}, code: -1},
		connackCase{desc: "CONNACK code=255", answer: []byte{0x20, 2, 0, 255}, code: -1},
		connackCase{desc: "CONNACK reserved flag bits", answer: []byte{0x20, 2, 0x02, 0}, code: -1},
		connackCase{desc: "CONNACK fixed-header flags", answer: []byte{0x21, 2, 0, 0}, code: -1},
		connackCase{desc: "CONNACK remaining length 1", answer: []byte{0x20, 1, 0}, close: true, code: -1},
		connackCase{desc: "CONNACK remaining length 3", answer: []byte{0x20, 3, 0, 0, 0}, code: -1},
		connackCase{desc: "CONNACK remaining length 0", answer: []byte{0x20, 0}, close: true, code: -1},
		connackCase{desc: "CONNACK cut after 3 bytes", answer: []byte{0x20, 2, 0}, close: true, code: -1},
		connackCase{desc: "PINGRESP instead", answer: []byte{0xd0, 0}, code: -1},
		connackCase{desc: "SUBACK instead", answer: []byte{0x90, 3, 0, 1, 0}, code: -1},
		connackCase{desc: "garbage", answer: []byte{0xff, 0xff, 0xff, 0xff, 0xff, 0x7f, 1, 2, 3}, close: true, code: -1},
		connackCase{desc: "single byte then close", answer: []byte{0x20}, close: true, code: -1},
		connackCase{desc: "close without answer", close: true, code: -1},
		connackCase{desc: "no answer until the connect timeout", code: -1},
		connackCase{desc: "unterminated remaining length", answer: []byte{0x20, 0x80, 0x80, 0x80, 0x80, 0x80, 0x80}, close: true, code: -1},
	)
	return cs
}

func c20Connect(cc connackCase) {
	params := map[string]interface{}{"answer": cc.desc, "bytes": hex(cc.answer)}
	fail := func(sig, desc string) { out.Violation(sig, desc, params) }
	p, err := newPeer()
	if err != nil {
		out.Inconclusive("listen: "+err.Error(), nil)
		return
	}
	defer p.close()
	cid := uniqueCID("cc")
	cln := &service.Client{ConnectTimeout: 1}
	type res struct {
		err error
		pan interface{}
	}
	resc := make(chan res, 1)
	go func() {
		var r res
		defer func() {
			r.pan = recover()
			resc <- r
		}()
		r.err = p.connect(cln, clientConnectMsg(cid, 60))
	}()
	conn, err := p.acceptRaw(5 * time.Second)
	if err != nil {
		out.Inconclusive("accept: "+err.Error(), nil)
		return
	}
	srv := rawclient.New("peer", conn, rawclient.AckNone)
	defer srv.Close()
	if err := srv.WaitFor(func(l []rawclient.Event, closed bool) bool { return len(l) > 0 }, 5*time.Second); err != nil {
		fail("c20:no-connect", "the client did not send a CONNECT: "+err.Error())
		return
	}
	if cc.answer != nil {
		srv.Send(cc.answer)
		srv.Flush()
	}
	if cc.close {
		srv.Conn().Close()
	}
	var r res
	select {
	case r = <-resc:
	case <-time.After(15 * time.Second):
		fail("c20:connect-hangs", "Client.Connect did not return within 15 s (ConnectTimeout 1 s)")
		leakedByHang = true // its goroutine stays behind: later leak checks in this process would blame the wrong case
		return
	}
	if r.pan != nil {
		site, class := "unknown", "other"
		fail("c20:connect-panic:"+site+":"+class, fmt.Sprintf("Client.Connect panicked: %v", r.pan))
		return
	}
	switch {
	case cc.code == 0 && r.err != nil:
		fail("c20:connect-result", fmt.Sprintf("CONNACK 0 but Connect returned %v", r.err))
	case cc.code > 0:
		if code, ok := r.err.(message.ConnackCode); !ok || int(code) != cc.code {
			fail("c20:connect-result", fmt.Sprintf("CONNACK code %d but Connect returned %v (%T)", cc.code, r.err, r.err))
		}
	case cc.code < 0 && r.err == nil:
		fail("c20:connect-result", "Connect succeeded although the server did not answer CONNACK 0")
	}
	if r.err == nil {
		// a successful client is torn down by Disconnect
		func() {
			defer func() {
				if rr := recover(); rr != nil {
					fail("c20:disconnect-panic", fmt.Sprint(rr))
				}
			}()
			cln.Disconnect()
		}()
	} else {
		// the peer must see the socket closed
		if !cc.close {
			if err := srv.WaitFor(func(l []rawclient.Event, closed bool) bool { return closed }, 3*time.Second); err != nil && !srv.Closed() {
				fail("c20:socket-left-open", "after a failed Connect the client did not close the connection")
			}
		}
	}
	if left := noLibGoroutines(3 * time.Second); len(left) > 0 && !leakedByHang {
		var tops []string
		for _, g := range left {
			tops = append(tops, g.libTop()+":"+g.state)
		}
		sort.Strings(tops)
		params["stacks"] = left[0].stack
		fail("c20:goroutines-left:"+strings.Join(uniq(tops), "+"), fmt.Sprintf("%d library goroutine(s) remain after Connect returned %v", len(left), r.err))
	}
	out.Count("c20.connect_cases", 1)
	if p.tls {
		out.Class("connect-tls/" + cc.desc)
	} else {
		out.Class("connect/" + cc.desc)
	}
}

// ---------------------------------------------------------------------------

type cbLog struct {
	mu  sync.Mutex
	got map[int][]delivered // request index -> messages its callback received
}

func (l *cbLog) add(req int, m *message.PublishMessage) {
	d := delivered{qos: m.QoS(), topic: string(m.Topic()), n: len(m.Payload())}
	d.uid, d.seq, d.ok = spec.ParsePayload(m.Payload())
	l.mu.Lock()
	l.got[req] = append(l.got[req], d)
	l.mu.Unlock()
}

// addQ records the delivered QoS as well (hand-over checks).
func (l *cbLog) addQ(req int, m *message.PublishMessage) { l.add(req, m) }

func (l *cbLog) take() map[int][]delivered {
	l.mu.Lock()
	defer l.mu.Unlock()
	g := l.got
	l.got = map[int][]delivered{}
	return g
}

var c20Filters = []string{"a", "a/b", "a/+", "a/#", "+/b", "x/y", "x/+/z", "#", "q/r/s", "a/b/c", "q/$s"}
var c20Topics = []string{"a", "a/b", "a/c", "a/b/c", "x/y", "x/1/z", "q/r/s", "never/subscribed", "z", "q/b", "q/$s", "a/$t"}

func c20Dispatch(idx int, seed uint64) {
	r := spec.NewRand(seed)
	var ops []string
	params := map[string]interface{}{"session": idx}
	fail := func(sig, desc string) {
		o := ops
		if len(o) > 30 {
			o = o[len(o)-30:]
		}
		out.Violation(sig, desc, map[string]interface{}{"params": params, "last_ops": o})
	}
	s, err := openSession(nil, 0)
	if err != nil {
		out.Inconclusive("session: "+err.Error(), nil)
		return
	}
	defer s.closeAll()
	// Every third Subscribe / Unsubscribe is issued under a forced interleaving (delays only, at the
	// library's yield point right after the request was written): the calling goroutine is held there
	// until the client's processor has handled the acknowledgement. A caller preempted at that spot
	// is an ordinary schedule; the request completes all the same.
	var sink *eventSink
	if !raceEnabled {
		sink = newSink()
		defer curSink.Store(nil)
	}
	defer svcYield.Store(nil)
	// hold arms the yield point; the returned function waits for the acknowledgement to be handled
	// and lets the caller go on
	hold := func(point string, ackType byte) (armed bool, afterAck func() bool) {
		if sink == nil || r.Intn(3) != 0 {
			svcYield.Store(nil)
			return false, func() bool { return true }
		}
		parked, release := make(chan struct{}, 1), make(chan struct{})
		h := func(pt string) {
			if pt == point {
				select {
				case parked <- struct{}{}:
					<-release
				default:
				}
			}
		}
		svcYield.Store(&h)
		before := sink.countArg("proc.handled", int(ackType))
		return true, func() bool {
			defer close(release)
			select {
			case <-parked:
			case <-time.After(5 * time.Second):
				return false
			}
			for dl := time.Now().Add(5 * time.Second); time.Now().Before(dl); time.Sleep(200 * time.Microsecond) {
				if sink.countArg("proc.handled", int(ackType)) > before {
					out.Count("c20.ack_handled_before_call_returned", 1)
					return true
				}
			}
			return false
		}
	}
	log := &cbLog{got: map[int][]delivered{}}
	type reqT struct {
		filters []string
		active  map[string]bool // filters still subscribed through this request
	}
	var reqs []*reqT
	var uids uidGen
	var pid idGen
	pid.n = 100
	owner := map[string]int{} // filter -> request whose callback currently holds it (a later Subscribe of the same filter adds a second subscriber)
	_ = owner
	steps := 10 + r.Intn(25)
	for st := 0; st < steps; st++ {
		switch op := r.Intn(10); {
		case op < 3 || len(reqs) == 0: // Subscribe
			nf := 1 + r.Intn(3)
			var fs []string
			seen := map[string]bool{}
			for len(fs) < nf {
				f := c20Filters[r.Intn(len(c20Filters))]
				if !seen[f] {
					seen[f] = true
					fs = append(fs, f)
				}
			}
			// filters already held by an earlier request are avoided: the client keeps one tree per
			// connection, a second callback on the same filter is a separate (legal) subscriber and
			// Unsubscribe removes all of them; keep the oracle simple and exact
			ok := true
			for _, rq := range reqs {
				for _, f := range fs {
					if rq.active[f] {
						ok = false
					}
				}
			}
			if !ok {
				continue
			}
			ri := len(reqs)
			rq := &reqT{filters: fs, active: map[string]bool{}}
			reqs = append(reqs, rq)
			m := message.NewSubscribeMessage()
			for _, f := range fs {
				m.AddTopic([]byte(f), byte(r.Intn(3)))
			}
			done := make(chan error, 4)
			ops = append(ops, fmt.Sprintf("Subscribe#%d %q", ri, fs))
			armed, afterAck := hold("subscribe.afterwrite", rc.SUBACK)
			callErr := make(chan error, 1)
			go func() {
				callErr <- s.cln.Subscribe(m, func(msg, ack message.Message, err error) error { done <- err; return nil },
					func(pm *message.PublishMessage) error { log.add(ri, pm); return nil })
			}()
			if !armed {
				if err := <-callErr; err != nil {
					fail("c20:subscribe-call", err.Error())
					return
				}
				// the call has returned: the application goes on using its message object (prepares its
				// next request in it) while the SUBACK is still on its way
				if r.Bool() {
					m.RemoveTopic([]byte(fs[0]))
					m.AddTopic([]byte("c20/never/requested"), 0)
					out.Count("c20.request_objects_reused_before_ack", 1)
				}
			}
			// the peer answers
			var sub *rc.Packet
			if err := s.srv.WaitFor(func(l []rawclient.Event, closed bool) bool {
				for _, e := range l {
					if e.P.Type == rc.SUBSCRIBE && len(e.P.Filters) == len(fs) && string(e.P.Filters[0]) == fs[0] && !usedID(e.P.ID) {
						sub = e.P
						return true
					}
				}
				return false
			}, 5*time.Second); err != nil {
				fail("c20:subscribe-wire", "no SUBSCRIBE on the wire: "+err.Error())
				return
			}
			markID(sub.ID)
			codes := make([]byte, len(fs))
			for i := range codes {
				codes[i] = sub.QoSs[i]
				if r.Intn(8) == 0 {
					codes[i] = 0x80 // the server refuses this filter
				}
			}
			s.srv.SendPacket(&rc.Packet{Type: rc.SUBACK, ID: sub.ID, Codes: codes})
			how := ""
			if armed {
				how = " (the SUBACK was handled while the calling goroutine was still inside Subscribe, right after writing the request)"
				if !afterAck() {
					out.Inconclusive("c20: forced interleaving not reached", params)
					return
				}
				if err := <-callErr; err != nil {
					fail("c20:subscribe-call", err.Error())
					return
				}
			}
			select {
			case <-done:
			case <-time.After(5 * time.Second):
				fail("c20:subscribe-completion", "Subscribe completion callback did not fire after the SUBACK"+how)
				return
			}
			for i, f := range fs {
				if codes[i] != 0x80 {
					rq.active[f] = true
				}
			}
			out.Count("c20.subscribes", 1)
		case op < 5: // Unsubscribe
			var cand []string
			for _, rq := range reqs {
				for f := range rq.active {
					cand = append(cand, f)
				}
			}
			if len(cand) == 0 {
				continue
			}
			sort.Strings(cand)
			f := cand[r.Intn(len(cand))]
			m := message.NewUnsubscribeMessage()
			m.AddTopic([]byte(f))
			done := make(chan error, 4)
			ops = append(ops, fmt.Sprintf("Unsubscribe %q", f))
			armed, afterAck := hold("unsubscribe.afterwrite", rc.UNSUBACK)
			callErr := make(chan error, 1)
			go func() {
				callErr <- s.cln.Unsubscribe(m, func(msg, ack message.Message, err error) error { done <- err; return nil })
			}()
			if !armed {
				if err := <-callErr; err != nil {
					fail("c20:unsubscribe-call", err.Error())
					return
				}
				// the same for the UNSUBSCRIBE object: it now names another filter that is still subscribed
				if other := cand[r.Intn(len(cand))]; other != f && r.Bool() {
					m.RemoveTopic([]byte(f))
					m.AddTopic([]byte(other))
					out.Count("c20.request_objects_reused_before_ack", 1)
				}
			}
			var un *rc.Packet
			if err := s.srv.WaitFor(func(l []rawclient.Event, closed bool) bool {
				for _, e := range l {
					if e.P.Type == rc.UNSUBSCRIBE && !usedID(e.P.ID) {
						un = e.P
						return true
					}
				}
				return false
			}, 5*time.Second); err != nil {
				fail("c20:unsubscribe-wire", "no UNSUBSCRIBE on the wire")
				return
			}
			markID(un.ID)
			s.srv.SendPacket(&rc.Packet{Type: rc.UNSUBACK, ID: un.ID})
			how := ""
			if armed {
				how = " (the UNSUBACK was handled while the calling goroutine was still inside Unsubscribe, right after writing the request)"
				if !afterAck() {
					out.Inconclusive("c20: forced interleaving not reached", params)
					return
				}
				if err := <-callErr; err != nil {
					fail("c20:unsubscribe-call", err.Error())
					return
				}
			}
			select {
			case <-done:
			case <-time.After(5 * time.Second):
				fail("c20:unsubscribe-completion", "Unsubscribe completion callback did not fire after the UNSUBACK"+how)
				return
			}
			for _, rq := range reqs {
				delete(rq.active, f)
			}
			out.Count("c20.unsubscribes", 1)
		default: // inbound PUBLISH from the server
			topic := c20Topics[r.Intn(len(c20Topics))]
			q := byte(r.Intn(3))
			uid := uids.next()
			pl := spec.MakePayload(uid, uint32(st), 20+r.Intn(300))
			pk := &rc.Packet{Type: rc.PUBLISH, Topic: []byte(topic), QoS: q, Payload: pl}
			if q > 0 {
				// the server numbers from a small pool: an identifier is used again as soon as its previous
				// exchange is complete (every exchange is completed within its step)
				pk.ID = uint16(1 + r.Intn(3))
				_ = pid
			}
			ops = append(ops, fmt.Sprintf("inbound PUBLISH %q q%d id%d uid%d", topic, q, pk.ID, uid))
			s.srv.SendPacket(pk)
			if q == 2 {
				// duplicates and repeated releases
				if r.Bool() {
					d := *pk
					d.Dup = true
					s.srv.SendPacket(&d)
				}
				s.srv.SendPacket(&rc.Packet{Type: rc.PUBREL, ID: pk.ID})
				if r.Bool() {
					s.srv.SendPacket(&rc.Packet{Type: rc.PUBREL, ID: pk.ID})
				}
			}
			if !s.barrier(5 * time.Second) {
				fail("c20:barrier", "the client did not answer the peer's PINGREQ")
				return
			}
			got := log.take()
			for ri, rq := range reqs {
				want := 0
				for f := range rq.active {
					if spec.Match(f, topic) {
						want = 1
					}
				}
				n := 0
				for _, d := range got[ri] {
					if d.uid == uid && d.ok && d.topic == topic {
						n++
					} else {
						fail("c20:callback-content", fmt.Sprintf("callback of request #%d received %+v while uid %d on %q was delivered", ri, d, uid, topic))
						return
					}
				}
				if n != want {
					sig := "c20:callback-count"
					switch {
					case want == 0 && len(rq.active) == 0:
						sig = "c20:callback-after-unsubscribe"
					case want == 0:
						sig = "c20:callback-other-topic"
					case n == 0:
						sig = "c20:callback-missing"
					case n > 1:
						sig = "c20:callback-duplicate"
					}
					var act []string
					for f := range rq.active {
						act = append(act, f)
					}
					sort.Strings(act)
					fail(sig, fmt.Sprintf("server delivered one message on %q (QoS %d): callback of Subscribe#%d (active filters %q) was invoked %d time(s), expected %d", topic, q, ri, act, n, want))
					return
				}
				if want == 1 {
					out.Count("c20.callbacks_checked", 1)
				}
			}
			out.Count("c20.inbound", 1)
			out.Class(fmt.Sprintf("dispatch/%s/q%d/reqs%d", shape(topic), q, minI(len(reqs), 6)))
		}
	}
	// Disconnect leaves no goroutine behind
	s.closeAll()
	if left := noLibGoroutines(3 * time.Second); len(left) > 0 && !leakedByHang {
		var tops []string
		for _, g := range left {
			tops = append(tops, g.libTop()+":"+g.state)
		}
		sort.Strings(tops)
		fail("c20:goroutines-left:"+strings.Join(uniq(tops), "+"), fmt.Sprintf("%d library goroutine(s) remain after Disconnect", len(left)))
	}
	out.Count("c20.sessions", 1)
	if idx%40 == 0 {
		o := ops
		if len(o) > 12 {
			o = o[:12]
		}
		out.Sample("c20.dispatch", 3, map[string]interface{}{"ops": o})
	}
}

var leakedByHang bool

var usedIDs = map[uint16]bool{}

func usedID(id uint16) bool { return usedIDs[id] }
func markID(id uint16)      { usedIDs[id] = true }

func TestC20(t *testing.T) {
	for k, cc := range connackCases() {
		id := fmt.Sprintf("c20/connect/%d", k)
		if !mine(k) || !out.Only(id) {
			continue
		}
		out.Begin(id, 0, map[string]interface{}{"answer": cc.desc})
		c20Connect(cc)
		out.End()
		// the same answer over TLS, where the client goes through ConnectTLS
		id = fmt.Sprintf("c20/connect-tls/%d", k)
		if !out.Only(id) {
			continue
		}
		out.Begin(id, 0, map[string]interface{}{"answer": cc.desc, "transport": "tls"})
		peerTLS.Store(true)
		c20Connect(cc)
		peerTLS.Store(false)
		out.Count("c20.connect_cases_tls", 1)
		out.End()
	}
	n := pick(240, 6000)
	for g := 0; g < n; g++ {
		id := fmt.Sprintf("c20/dispatch/%d", g)
		if !mine(g) || !out.Only(id) {
			continue
		}
		seed := caseSeed("c20d", g)
		out.Begin(id, seed, nil)
		usedIDs = map[uint16]bool{}
		peerTLS.Store(g%4 == 3) // every fourth session over TLS / ConnectTLS
		if g%4 == 3 {
			out.Count("c20.dispatch_sessions_tls", 1)
		}
		c20Dispatch(g, seed)
		peerTLS.Store(false)
		out.End()
	}
}
