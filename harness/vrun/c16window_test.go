package vrun

import (
	"fmt"
	"sort"
	"strings"
	"sync"
	"sync/atomic"
	"testing"
	"time"

	"verif/harness/out"
	"verif/harness/rawclient"
	rc "verif/harness/refcodec"
	"verif/harness/spec"
)

// TestC16Window: teardown racing the check-to-Wait window of the connection's
// own ring buffers (real time, net.Pipe). The yield hook delays the goroutine
// that is about to Wait (it holds the condition's mutex: delay only) and tells
// the scenario, which ends the connection right then.
func TestC16Window(t *testing.T) {
	if raceEnabled {
		return
	}
	points := []string{"buf.readwait.prewait", "buf.peek.prewait", "buf.wspace.prewait"}
	causes := []string{"abrupt", "server-close", "disconnect", "keepalive"}
	reps := pick(3, 20)
	i := 0
	for rep := 0; rep < reps; rep++ {
		for _, pt := range points {
			for _, cause := range causes {
				i++
				id := fmt.Sprintf("c16/window/%s/%s/%d", pt, cause, rep)
				if !mine(i) || !out.Only(id) {
					continue
				}
				out.Begin(id, caseSeed("c16w", i), nil)
				c16Window(pt, cause, caseSeed("c16w", i), "c16")
				out.End()
			}
		}
	}
}

func c16Window(point, cause string, seed uint64, pfx string) {
	params := map[string]interface{}{"window": point, "cause": cause}
	fail := func(sig, desc string) { out.Violation(sig, desc, params) }
	w := newWorld(worldCfg{BufferSize: 16384})
	defer w.unregister()
	var conns []*rawclient.Client
	defer func() {
		for _, c := range conns {
			c.Close()
		}
		func() { defer func() { recover() }(); w.svr.Close() }()
		noLibGoroutines(3 * time.Second)
	}()
	connect := func(name string, o connectOpts) *rawclient.Client {
		c := w.dial(name, o)
		conns = append(conns, c)
		if c.WaitFor(func(l []rawclient.Event, closed bool) bool { return len(l) > 0 && l[0].P.Type == rc.CONNACK }, 10*time.Second) != nil {
			return nil
		}
		return c
	}
	wit := connect("W", connectOpts{Clean: true, KeepAlive: 600})
	if wit == nil {
		out.Inconclusive("witness", nil)
		return
	}
	wit.SendPacket(&rc.Packet{Type: rc.SUBSCRIBE, ID: 1, Filters: [][]byte{[]byte("will/#")}, QoSs: []byte{1}})
	wit.WaitFor(func(l []rawclient.Event, closed bool) bool { return countType(l, rc.SUBACK) == 1 }, 10*time.Second)
	ka := uint16(600)
	if cause == "keepalive" {
		ka = 1
	}
	V := connect("V", connectOpts{ClientID: "V", Clean: true, KeepAlive: ka, Will: &rc.Packet{Topic: []byte("will/V"), QoS: 1, Payload: spec.MakePayload(7001, 0, 30)}})
	if V == nil {
		out.Inconclusive("victim", nil)
		return
	}
	// make sure V is fully established (its service registered with the server) before anything is armed:
	// CONNACK is written before the service starts, PINGRESP only comes from its running processor
	for k := 1; k <= 2; k++ {
		V.SendPacket(&rc.Packet{Type: rc.PINGREQ})
		want := k
		V.WaitFor(func(l []rawclient.Event, closed bool) bool { return countType(l, rc.PINGRESP) >= want }, 10*time.Second)
	}
	time.Sleep(3 * time.Millisecond)
	var armed int32
	hit := make(chan struct{}, 1)
	var once sync.Once
	var heldObj atomic.Value
	closing := make(chan struct{})
	var closingOnce sync.Once
	h := func(pt string, obj interface{}) {
		if pt == "buf.close.afterdone" && cause == "keepalive" {
			if o := heldObj.Load(); o != nil && o == obj {
				closingOnce.Do(func() { close(closing) })
			}
			return
		}
		if pt == point && atomic.LoadInt32(&armed) == 1 {
			once.Do(func() {
				heldObj.Store(obj)
				hit <- struct{}{}
				if cause == "keepalive" {
					// nobody ends the connection: the keep-alive does. Stay in the window (the caller holds
					// the condition's mutex: delay only) until this very ring is being closed, however long
					// the expiry takes, then a little longer
					select {
					case <-closing:
					case <-time.After(8 * time.Second):
					}
				}
				time.Sleep(4 * time.Millisecond) // the caller holds the condition's mutex: delay only
			})
		}
	}
	yieldAnyBuf.Store(&h)
	defer yieldAnyBuf.Store(nil)
	var P *rawclient.Client
	pSent := 0 // PINGREQs sent by P (one may still be unanswered when the window is reached)
	switch point {
	case "buf.readwait.prewait", "buf.peek.prewait":
		// after this round trip V's processor goes back to wait for the next packet and its sender for data
		atomic.StoreInt32(&armed, 1)
		V.SendPacket(&rc.Packet{Type: rc.PINGREQ})
	case "buf.wspace.prewait":
		V.SendPacket(&rc.Packet{Type: rc.SUBSCRIBE, ID: 1, Filters: [][]byte{[]byte("to/v")}, QoSs: []byte{0}})
		V.WaitFor(func(l []rawclient.Event, closed bool) bool { return countType(l, rc.SUBACK) == 1 }, 10*time.Second)
		V.PauseReading()
		P = connect("P", connectOpts{Clean: true, KeepAlive: 600})
		if P == nil {
			out.Inconclusive("publisher", nil)
			return
		}
		// About 10 of these fill V's outgoing ring (plus what V's client took before it stopped reading),
		// then a delivery waits for space there. They are sent one by one, each behind a PINGREQ/PINGRESP
		// barrier, so P's own inbound ring never holds more than one of them: P's receiver never waits
		// for space and the only producer that can reach the armed point is P's processor on V's ring
		reached := false
		for k := 0; k < 60 && !reached; k++ {
			if k == 8 {
				atomic.StoreInt32(&armed, 1)
			}
			P.SendPacket(&rc.Packet{Type: rc.PUBLISH, Topic: []byte("to/v"), Payload: spec.MakePayload(uint64(k+1), 0, 1500)})
			P.SendPacket(&rc.Packet{Type: rc.PINGREQ})
			pSent++
			want := k + 1
			// either the barrier comes back (the delivery fitted) or the delivery is waiting for space in V's ring
			for w8 := 0; w8 < 400 && !reached; w8++ {
				if P.WaitFor(func(l []rawclient.Event, closed bool) bool { return countType(l, rc.PINGRESP) >= want }, 5*time.Millisecond) == nil {
					break
				}
				select {
				case <-hit:
					reached = true
					hit <- struct{}{}
				default:
				}
			}
		}
	}
	select {
	case <-hit:
	case <-time.After(5 * time.Second):
		out.Inconclusive("window not reached: "+point, params)
		return
	}
	// end the connection inside the window
	switch cause {
	case "abrupt":
		V.Close()
	case "disconnect":
		V.SendPacket(&rc.Packet{Type: rc.DISCONNECT})
		V.Flush()
		V.Close()
	case "server-close":
		go func() { defer func() { recover() }(); w.svr.Close() }()
	case "keepalive":
		// V stays silent from here on; the broker ends the connection after 1.5 K at the latest
	}
	// teardown must finish: one stop.done for V
	patience := 3 * time.Second
	if cause == "keepalive" {
		patience = 8 * time.Second
	}
	ok := w.sink.waitCount("stop.done", "V", 1, patience)
	if !ok {
		// decide by goroutine state
		ids := func() []int {
			var r []int
			for _, g := range libGoroutines() {
				r = append(r, g.id)
			}
			return r
		}
		stuck, inc := stuckVerdict(ids, func() bool { return w.sink.count("stop.done", "V") >= 1 }, 10*time.Second)
		if stuck != nil && !inc {
			var tops []string
			for _, g := range stuck {
				tops = append(tops, g.libTop()+":"+g.state)
			}
			sort.Strings(tops)
			d := map[string]interface{}{"window": point, "cause": cause, "stack": stuck[0].stack}
			out.Violation(pfx+":teardown-stuck:"+strings.Join(uniq(tops), "+"), fmt.Sprintf("connection ended (%s) while a goroutine was between its done-check and Cond.Wait at %s: teardown never finished; parked: %v", cause, point, uniq(tops)), d)
			return
		}
		if w.sink.count("stop.done", "V") < 1 {
			out.Inconclusive("teardown neither finished nor provably stuck", params)
			return
		}
	}
	if cause == "abrupt" || cause == "keepalive" {
		if err := wit.WaitFor(func(l []rawclient.Event, closed bool) bool { return len(publishesIn(l)) >= 1 }, 5*time.Second); err != nil {
			fail(pfx+":will", "the will of the abruptly closed connection did not reach the witness")
			return
		}
	}
	if P != nil && cause != "server-close" {
		// the publisher whose delivery was parked on V's ring must be released by V's teardown
		P.SendPacket(&rc.Packet{Type: rc.PINGREQ})
		pSent++
		if P.WaitFor(func(l []rawclient.Event, closed bool) bool { return countType(l, rc.PINGRESP) >= pSent }, 5*time.Second) != nil {
			var tops []string
			for _, g := range libGoroutines() {
				tops = append(tops, g.libTop()+":"+g.state)
			}
			sort.Strings(tops)
			if out.EnvStr("VERIF_DEBUG", "") != "" {
				for _, g := range libGoroutines() {
					fmt.Println("=== G", g.id, g.state)
					fmt.Println(g.stack)
				}
			}
			fail(pfx+":publisher-parked-on-dead-ring:"+strings.Join(uniq(tops), "+"), fmt.Sprintf("V's teardown finished, but the publisher whose delivery was waiting for space in V's outgoing ring does not answer a PINGREQ (closed=%v); library goroutines: %v", P.Closed(), uniq(tops)))
			return
		}
	}
	out.Count(pfx+".window_cells", 1)
	out.Class(fmt.Sprintf("window/%s/%s", point, cause))
}

// TestC19Window: the keep-alive expiry itself ends the connection while one of its
// goroutines is inside the check-to-Wait window (same scenario code as the C16
// window cells, cause "keepalive" only; signatures and counters under c19).
func TestC19Window(t *testing.T) {
	if raceEnabled {
		return
	}
	reps := pick(2, 12)
	i := 0
	for rep := 0; rep < reps; rep++ {
		for _, pt := range []string{"buf.readwait.prewait", "buf.peek.prewait", "buf.wspace.prewait"} {
			i++
			id := fmt.Sprintf("c19/window/%s/%d", pt, rep)
			if !mine(i) || !out.Only(id) {
				continue
			}
			out.Begin(id, caseSeed("c19w", i), nil)
			c16Window(pt, "keepalive", caseSeed("c19w", i), "c19")
			out.End()
		}
	}
}
