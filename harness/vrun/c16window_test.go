package vrun

import (
	"fmt"
	"sort"
	"strings"
	"sync"
	"sync/atomic"
	"testing"
	"time"

	"verif/harness/out"
	"verif/harness/rawclient"
	rc "verif/harness/refcodec"
	"verif/harness/spec"
)

// TestC16Window: teardown racing the check-to-Wait window of the connection's
// own ring buffers (real time, net.Pipe). The yield hook delays the goroutine
// that is about to Wait (it holds the condition's mutex: delay only) and tells
// the scenario, which ends the connection right then.
func TestC16Window(t *testing.T) {
	if raceEnabled {
		return
	}
	points := []string{"buf.readwait.prewait", "buf.peek.prewait", "buf.wspace.prewait"}
	causes := []string{"abrupt", "server-close", "disconnect"}
	reps := pick(3, 20)
	i := 0
	for rep := 0; rep < reps; rep++ {
		for _, pt := range points {
			for _, cause := range causes {
				i++
				id := fmt.Sprintf("c16/window/%s/%s/%d", pt, cause, rep)
				if !mine(i) || !out.Only(id) {
					continue
				}
				out.Begin(id, caseSeed("c16w", i), nil)
				c16Window(pt, cause, caseSeed("c16w", i))
				out.End()
			}
		}
	}
}

func c16Window(point, cause string, seed uint64) {
	params := map[string]interface{}{"window": point, "cause": cause}
	fail := func(sig, desc string) { out.Violation(sig, desc, params) }
	w := newWorld(worldCfg{BufferSize: 16384})
	defer w.unregister()
	var conns []*rawclient.Client
	defer func() {
		for _, c := range conns {
			c.Close()
		}
		func() { defer func() { recover() }(); w.svr.Close() }()
		noLibGoroutines(3 * time.Second)
	}()
	connect := func(name string, o connectOpts) *rawclient.Client {
		c := w.dial(name, o)
		conns = append(conns, c)
		if c.WaitFor(func(l []rawclient.Event, closed bool) bool { return len(l) > 0 && l[0].P.Type == rc.CONNACK }, 10*time.Second) != nil {
			return nil
		}
		return c
	}
	wit := connect("W", connectOpts{Clean: true, KeepAlive: 600})
	if wit == nil {
		out.Inconclusive("witness", nil)
		return
	}
	wit.SendPacket(&rc.Packet{Type: rc.SUBSCRIBE, ID: 1, Filters: [][]byte{[]byte("will/#")}, QoSs: []byte{1}})
	wit.WaitFor(func(l []rawclient.Event, closed bool) bool { return countType(l, rc.SUBACK) == 1 }, 10*time.Second)
	V := connect("V", connectOpts{ClientID: "V", Clean: true, KeepAlive: 600, Will: &rc.Packet{Topic: []byte("will/V"), QoS: 1, Payload: spec.MakePayload(7001, 0, 30)}})
	if V == nil {
		out.Inconclusive("victim", nil)
		return
	}
	// make sure V is fully established (its service registered with the server) before anything is armed:
	// CONNACK is written before the service starts, PINGRESP only comes from its running processor
	for k := 1; k <= 2; k++ {
		V.SendPacket(&rc.Packet{Type: rc.PINGREQ})
		want := k
		V.WaitFor(func(l []rawclient.Event, closed bool) bool { return countType(l, rc.PINGRESP) >= want }, 10*time.Second)
	}
	time.Sleep(3 * time.Millisecond)
	var armed int32
	hit := make(chan struct{}, 1)
	var once sync.Once
	h := func(pt string, obj interface{}) {
		if pt == point && atomic.LoadInt32(&armed) == 1 {
			once.Do(func() {
				hit <- struct{}{}
				time.Sleep(4 * time.Millisecond) // the caller holds the condition's mutex: delay only
			})
		}
	}
	yieldAnyBuf.Store(&h)
	defer yieldAnyBuf.Store(nil)
	var P *rawclient.Client
	switch point {
	case "buf.readwait.prewait", "buf.peek.prewait":
		// after this round trip V's processor goes back to wait for the next packet and its sender for data
		atomic.StoreInt32(&armed, 1)
		V.SendPacket(&rc.Packet{Type: rc.PINGREQ})
	case "buf.wspace.prewait":
		V.SendPacket(&rc.Packet{Type: rc.SUBSCRIBE, ID: 1, Filters: [][]byte{[]byte("to/v")}, QoSs: []byte{0}})
		V.WaitFor(func(l []rawclient.Event, closed bool) bool { return countType(l, rc.SUBACK) == 1 }, 10*time.Second)
		V.PauseReading()
		P = connect("P", connectOpts{Clean: true, KeepAlive: 600})
		if P == nil {
			out.Inconclusive("publisher", nil)
			return
		}
		atomic.StoreInt32(&armed, 1)
		for k := 0; k < 14; k++ {
			P.SendPacket(&rc.Packet{Type: rc.PUBLISH, Topic: []byte("to/v"), Payload: spec.MakePayload(uint64(k+1), 0, 3000)})
		}
	}
	select {
	case <-hit:
	case <-time.After(5 * time.Second):
		out.Inconclusive("window not reached: "+point, params)
		return
	}
	// end the connection inside the window
	switch cause {
	case "abrupt":
		V.Close()
	case "disconnect":
		V.SendPacket(&rc.Packet{Type: rc.DISCONNECT})
		V.Flush()
		V.Close()
	case "server-close":
		go func() { defer func() { recover() }(); w.svr.Close() }()
	}
	// teardown must finish: one stop.done for V
	ok := w.sink.waitCount("stop.done", "V", 1, 3*time.Second)
	if !ok {
		// decide by goroutine state
		ids := func() []int {
			var r []int
			for _, g := range libGoroutines() {
				r = append(r, g.id)
			}
			return r
		}
		stuck, inc := stuckVerdict(ids, func() bool { return w.sink.count("stop.done", "V") >= 1 }, 10*time.Second)
		if stuck != nil && !inc {
			var tops []string
			for _, g := range stuck {
				tops = append(tops, g.libTop()+":"+g.state)
			}
			sort.Strings(tops)
			d := map[string]interface{}{"window": point, "cause": cause, "stack": stuck[0].stack}
			out.Violation("c16:teardown-stuck:"+strings.Join(uniq(tops), "+"), fmt.Sprintf("connection ended (%s) while a goroutine was between its done-check and Cond.Wait at %s: teardown never finished; parked: %v", cause, point, uniq(tops)), d)
			return
		}
		if w.sink.count("stop.done", "V") < 1 {
			out.Inconclusive("teardown neither finished nor provably stuck", params)
			return
		}
	}
	if cause == "abrupt" {
		if err := wit.WaitFor(func(l []rawclient.Event, closed bool) bool { return len(publishesIn(l)) >= 1 }, 5*time.Second); err != nil {
			fail("c16:will", "the will of the abruptly closed connection did not reach the witness")
			return
		}
	}
	out.Count("c16.window_cells", 1)
	out.Class(fmt.Sprintf("window/%s/%s", point, cause))
}
