package vrun

import (
	"fmt"
	"testing"

	"verif/harness/out"
	rc "verif/harness/refcodec"
	"verif/harness/spec"
)

// TestC07SharedUnsub (synctest): a client has two connections open for a while (it reconnected with
// CleanSession=0 before the broker noticed that the first one is gone). A filter is subscribed on one
// of them and unsubscribed on the other; the UNSUBACK is sent. Once both connections have ended and
// the client resumes its session on a third one, the filter applies to nothing the broker accepts,
// and the filter that was not unsubscribed still does.
func c07Shared(t *testing.T, idx int, seed uint64) {
	r := spec.NewRand(seed)
	subOnA := r.Bool()
	q := byte(r.Intn(3))
	params := map[string]interface{}{"case": idx, "subscribed_on_older": subOnA, "qos": q}
	bubble(t, "c07", params, func(cl *cleanup) {
		fail := func(sig, desc string) { out.Violation(sig, desc, params) }
		w := newWorld(worldCfg{BufferSize: 16384})
		cl.add(w.shutdown)
		id := fmt.Sprintf("shared-%d", idx)
		A, aa := w.connectB("older", connectOpts{ClientID: id, Clean: false, KeepAlive: 6000})
		B, ab := w.connectB("newer", connectOpts{ClientID: id, Clean: false, KeepAlive: 6000})
		P, ap := w.connectB("publisher", connectOpts{Clean: true, KeepAlive: 6000})
		if aa == nil || ab == nil || ap == nil || aa.ReturnCode != 0 || ab.ReturnCode != 0 {
			fail("c07:connect", "no CONNACK 0")
			return
		}
		if A.Closed() {
			return // the broker ended the older connection at the take-over: nothing shared to examine
		}
		filter, keep := "sh/x/+", "sh/keep"
		subC, unsubC := B, A
		if subOnA {
			subC, unsubC = A, B
		}
		if sa, _ := subC.subscribeB([]string{filter, keep}, []byte{q, q}); sa == nil || len(sa.Codes) != 2 || sa.Codes[0] > 2 {
			fail("c07:suback", fmt.Sprintf("SUBACK %v", sa))
			return
		}
		if ua, _ := unsubC.unsubscribeB([]string{filter}); ua == nil {
			fail("c07:unsuback-missing", "an UNSUBSCRIBE on the other connection of the same client was not acknowledged")
			return
		}
		probe := func(where string, cs ...*bclient) bool {
			for _, c := range cs {
				c.fresh()
			}
			uid := uint64(100 + len(where))
			P.publishB("sh/x/1", 1, false, spec.MakePayload(uid, 0, 40))
			P.publishB(keep, 1, false, spec.MakePayload(uid+1, 0, 40))
			settle()
			gotKeep := false
			for _, c := range cs {
				for _, d := range publishesIn(c.fresh()) {
					if d.topic == "sh/x/1" {
						fail("c07:unsubscribe-ineffective:shared-session", fmt.Sprintf("%s: filter %q was subscribed on one of two connections of a client and unsubscribed (UNSUBACK sent) on the other; a message the broker accepted afterwards was delivered to connection %q", where, filter, c.name))
						return false
					}
					if d.topic == keep {
						gotKeep = true
					}
				}
			}
			if !gotKeep {
				fail("c07:subscription-lost:shared-session", fmt.Sprintf("%s: the filter %q that was not unsubscribed no longer receives", where, keep))
				return false
			}
			return true
		}
		// While both connections are open the one that subscribed still has its entry in the tree (the
		// broker does not end the older connection when the identifier is taken over, DESIGN 5a: outside
		// the properties): what it receives meanwhile is counted, not judged.
		P.publishB("sh/x/1", 1, false, spec.MakePayload(50, 0, 40))
		settle()
		for _, c := range []*bclient{A, B} {
			for _, d := range publishesIn(c.fresh()) {
				if d.topic == "sh/x/1" {
					out.Count("c07.shared_unsub_delivered_while_both_open", 1)
				}
			}
		}
		for _, c := range []*bclient{A, B} {
			c.SendPacket(&rc.Packet{Type: rc.DISCONNECT})
			settle()
			c.Close()
			settle()
		}
		C, ac := w.connectB("resumed", connectOpts{ClientID: id, Clean: false, KeepAlive: 6000})
		if ac == nil || ac.ReturnCode != 0 || !ac.SessionPresent {
			fail("c07:connect", fmt.Sprintf("the session was not resumed (%v)", ac))
			return
		}
		C.SendPacket(&rc.Packet{Type: rc.PINGREQ})
		settle()
		if !probe("after both ended and the session was resumed", C) {
			return
		}
		out.Count("c07.shared_unsub_cases", 1)
		out.Class(fmt.Sprintf("shared-unsub/subOnOlder%v", subOnA))
	})
}

func TestC07SharedUnsub(t *testing.T) {
	n := pick(24, 200)
	for g := 0; g < n; g++ {
		id := fmt.Sprintf("c07/shared/%d", g)
		if !mine(g) || !out.Only(id) {
			continue
		}
		seed := caseSeed("c07sh", g)
		out.Begin(id, seed, nil)
		c07Shared(t, g, seed)
		out.End()
	}
}
