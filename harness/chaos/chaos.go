// Package chaos wraps the broker side of a connection with seeded read
// fragmentation and injected read/write errors (fault sequences).
package chaos

import (
	"errors"
	"net"
	"sync"
	"time"
)

// ErrInjected is the error returned by an injected fault.
var ErrInjected = errors.New("chaos: injected I/O error")

// Conn is a fault-injecting net.Conn.
type Conn struct {
	net.Conn
	mu sync.Mutex
	// MaxRead limits the bytes handed out per Read (0 = unlimited); if Frag is
	// set it is called for every Read to choose the limit.
	MaxRead int
	Frag    func() int
	// FailReadAfter makes Read fail once that many bytes were delivered (<0: never).
	FailReadAfter int64
	// FailWriteAfter makes Write fail once that many bytes were accepted (<0: never).
	FailWriteAfter int64
	// CloseOnFail closes the underlying connection when a fault fires.
	CloseOnFail bool

	rd, wr int64
	failed bool
}

// Wrap returns a Conn without faults.
func Wrap(c net.Conn) *Conn {
	return &Conn{Conn: c, FailReadAfter: -1, FailWriteAfter: -1}
}

func (c *Conn) Read(p []byte) (int, error) {
	c.mu.Lock()
	lim := c.MaxRead
	if c.Frag != nil {
		lim = c.Frag()
	}
	fr := c.FailReadAfter
	rd := c.rd
	c.mu.Unlock()
	if fr >= 0 && rd >= fr {
		c.fail()
		return 0, ErrInjected
	}
	if lim > 0 && len(p) > lim {
		p = p[:lim]
	}
	if fr >= 0 && int64(len(p)) > fr-rd {
		p = p[:fr-rd]
		if len(p) == 0 {
			c.fail()
			return 0, ErrInjected
		}
	}
	n, err := c.Conn.Read(p)
	c.mu.Lock()
	c.rd += int64(n)
	c.mu.Unlock()
	return n, err
}

func (c *Conn) Write(p []byte) (int, error) {
	c.mu.Lock()
	fw := c.FailWriteAfter
	wr := c.wr
	c.mu.Unlock()
	if fw >= 0 && wr >= fw {
		c.fail()
		return 0, ErrInjected
	}
	short := false
	if fw >= 0 && int64(len(p)) > fw-wr {
		p = p[:fw-wr]
		short = true
	}
	n, err := c.Conn.Write(p)
	c.mu.Lock()
	c.wr += int64(n)
	c.mu.Unlock()
	if err == nil && short {
		c.fail()
		return n, ErrInjected
	}
	return n, err
}

func (c *Conn) fail() {
	c.mu.Lock()
	first := !c.failed
	c.failed = true
	cl := c.CloseOnFail
	c.mu.Unlock()
	if first && cl {
		c.Conn.Close()
	}
}

// SetReadDeadline passes through.
func (c *Conn) SetReadDeadline(t time.Time) error { return c.Conn.SetReadDeadline(t) }

// EOFConn makes the transport behave like crypto/tls (TLS <= 1.2) or any
// io.Reader that uses the contract's liberty to return the final bytes together
// with the end-of-stream error: Read returns (n > 0, io.EOF) when the peer has
// closed and the remaining data fits the caller's buffer.
type EOFConn struct {
	net.Conn
	mu   sync.Mutex
	cond *sync.Cond
	buf  []byte
	err  error
	hold bool // while set, Read blocks even if data is there (lets the test line up data + close)
}

// NewEOFConn starts pumping c.
func NewEOFConn(c net.Conn) *EOFConn {
	e := &EOFConn{Conn: c}
	e.cond = sync.NewCond(&e.mu)
	go func() {
		tmp := make([]byte, 4096)
		for {
			n, err := c.Read(tmp)
			e.mu.Lock()
			e.buf = append(e.buf, tmp[:n]...)
			if err != nil {
				e.err = err
			}
			e.cond.Broadcast()
			e.mu.Unlock()
			if err != nil {
				return
			}
		}
	}()
	return e
}

// Hold makes Read block until Release, whatever has arrived.
func (e *EOFConn) Hold() { e.mu.Lock(); e.hold = true; e.mu.Unlock() }

// Release ends Hold.
func (e *EOFConn) Release() { e.mu.Lock(); e.hold = false; e.cond.Broadcast(); e.mu.Unlock() }

func (e *EOFConn) Read(p []byte) (int, error) {
	e.mu.Lock()
	defer e.mu.Unlock()
	for e.hold || (len(e.buf) == 0 && e.err == nil) {
		e.cond.Wait()
	}
	n := copy(p, e.buf)
	e.buf = e.buf[n:]
	if len(e.buf) == 0 && e.err != nil {
		return n, e.err // the last bytes together with the error
	}
	return n, nil
}

// SetReadDeadline is not forwarded (the pump owns the underlying reads); the
// broker's keep-alive does not matter for these short scenarios.
func (e *EOFConn) SetReadDeadline(t time.Time) error { return nil }
