// Package chaos wraps the broker side of a connection with seeded read
// fragmentation and injected read/write errors (fault sequences).
package chaos

import (
	"errors"
	"net"
	"sync"
	"time"
)

// ErrInjected is the error returned by an injected fault.
var ErrInjected = errors.New("chaos: injected I/O error")

// Conn is a fault-injecting net.Conn.
type Conn struct {
	net.Conn
	mu sync.Mutex
	// MaxRead limits the bytes handed out per Read (0 = unlimited); if Frag is
	// set it is called for every Read to choose the limit.
	MaxRead int
	Frag    func() int
	// FailReadAfter makes Read fail once that many bytes were delivered (<0: never).
	FailReadAfter int64
	// FailWriteAfter makes Write fail once that many bytes were accepted (<0: never).
	FailWriteAfter int64
	// CloseOnFail closes the underlying connection when a fault fires.
	CloseOnFail bool

	rd, wr int64
	failed bool
}

// Wrap returns a Conn without faults.
func Wrap(c net.Conn) *Conn {
	return &Conn{Conn: c, FailReadAfter: -1, FailWriteAfter: -1}
}

func (c *Conn) Read(p []byte) (int, error) {
	c.mu.Lock()
	lim := c.MaxRead
	if c.Frag != nil {
		lim = c.Frag()
	}
	fr := c.FailReadAfter
	rd := c.rd
	c.mu.Unlock()
	if fr >= 0 && rd >= fr {
		c.fail()
		return 0, ErrInjected
	}
	if lim > 0 && len(p) > lim {
		p = p[:lim]
	}
	if fr >= 0 && int64(len(p)) > fr-rd {
		p = p[:fr-rd]
		if len(p) == 0 {
			c.fail()
			return 0, ErrInjected
		}
	}
	n, err := c.Conn.Read(p)
	c.mu.Lock()
	c.rd += int64(n)
	c.mu.Unlock()
	return n, err
}

func (c *Conn) Write(p []byte) (int, error) {
	c.mu.Lock()
	fw := c.FailWriteAfter
	wr := c.wr
	c.mu.Unlock()
	if fw >= 0 && wr >= fw {
		c.fail()
		return 0, ErrInjected
	}
	short := false
	if fw >= 0 && int64(len(p)) > fw-wr {
		p = p[:fw-wr]
		short = true
	}
	n, err := c.Conn.Write(p)
	c.mu.Lock()
	c.wr += int64(n)
	c.mu.Unlock()
	if err == nil && short {
		c.fail()
		return n, ErrInjected
	}
	return n, err
}

func (c *Conn) fail() {
	c.mu.Lock()
	first := !c.failed
	c.failed = true
	cl := c.CloseOnFail
	c.mu.Unlock()
	if first && cl {
		c.Conn.Close()
	}
}

// SetReadDeadline passes through.
func (c *Conn) SetReadDeadline(t time.Time) error { return c.Conn.SetReadDeadline(t) }
