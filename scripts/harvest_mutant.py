#!/usr/bin/env python3
"""harvest_mutant.py <Cxx> [<name>] [--race] : takes mutant.patch and demo_mutant/ from the
scratch worktree /tmp/wt-<Cxx>, confirms in a fresh validation worktree (outside /repo and
/verif) that the change applies to /repo's HEAD, compiles, keeps the pinned suite green and
that the demonstration fails with it and passes without it, stores everything under
/verif/seeded/<name>/ and finally runs the registered checks against /repo with the patch
applied (always restoring /repo)."""
import json, os, shutil, subprocess, sys, time

ENV = dict(os.environ, GOFLAGS="-mod=mod", GOPROXY="off", GOSUMDB="off", GOTOOLCHAIN="local")


def sh(cmd, cwd=None, timeout=2400):
    p = subprocess.run(cmd, shell=True, cwd=cwd, env=ENV, capture_output=True, text=True, timeout=timeout)
    return p.returncode, (p.stdout + p.stderr)


def main():
    args = [a for a in sys.argv[1:] if not a.startswith("--")]
    race = "--race" in sys.argv
    pid = args[0]
    name = args[1] if len(args) > 1 else pid + "-m1"
    props = args[2].split(",") if len(args) > 2 else [pid]
    wt = "/tmp/wt-" + pid if not os.environ.get("WT") else os.environ["WT"]
    dst = "/verif/seeded/" + name
    if not os.path.exists(wt + "/mutant.patch"):
        print("no mutant.patch in", wt)
        return 2
    os.makedirs(dst, exist_ok=True)
    shutil.copy(wt + "/mutant.patch", dst + "/patch.diff")
    if os.path.isdir(dst + "/demo"):
        shutil.rmtree(dst + "/demo")
    shutil.copytree(wt + "/demo_mutant", dst + "/demo")
    meta = {"property": pid, "name": name, "source": "independent sub-agent working from the property text only", "ran": []}
    # ---- validation worktree
    val = "/tmp/val-" + name
    sh("git -C /repo worktree remove --force %s" % val)
    rc, o = sh("git -C /repo worktree add -q %s HEAD" % val)
    try:
        rc, o = sh("git apply --check %s/patch.diff" % dst, cwd=val)
        meta["applies_to_head"] = rc == 0
        if rc != 0:
            print("patch does not apply to HEAD:", o[:500])
            meta["ran"].append("git apply --check: FAILED")
            json.dump(meta, open(dst + "/meta.json", "w"), indent=1)
            return 1
        sh("git apply %s/patch.diff" % dst, cwd=val)
        shutil.copytree(dst + "/demo", val + "/demo_mutant")
        rc1, o1 = sh("go build ./... && go build -tags verif ./...", cwd=val)
        meta["compiles"] = rc1 == 0
        rcb, ob = sh("REPO_DIR=%s python3 /verif/scripts/baseline_check.py" % val)
        if rcb != 0:  # the suite is flaky on the original tree: retry once
            rcb, ob = sh("REPO_DIR=%s python3 /verif/scripts/baseline_check.py" % val)
        meta["pinned_suite_with_change"] = ob.strip().splitlines()[0] if ob.strip() else ""
        meta["pinned_suite_ok"] = rcb == 0
        demo_cmd = "go test -vet=off -count=1 -tags verif %s ./demo_mutant/..." % ("-race" if race else "")
        rcd, od = sh(demo_cmd, cwd=val, timeout=1200)
        meta["demo_cmd"] = demo_cmd
        meta["demo_fails_with_change"] = rcd != 0
        meta["demo_output_with_change"] = od[-1500:]
        sh("git checkout -- . ", cwd=val)
        oks = 0
        for i in range(3):
            rcn, on = sh(demo_cmd, cwd=val, timeout=1200)
            oks += rcn == 0
        meta["demo_passes_without_change"] = "%d/3" % oks
        meta["ran"] += ["go build ./... && go build -tags verif ./...", "scripts/baseline_check.py (pinned suite, guard off)", demo_cmd + " (with and without the change)"]
    finally:
        sh("git -C /repo worktree remove --force %s" % val)
    # ---- our checks against the change
    res = {}
    for p in props:
        rc, o = sh("/verif/scripts/try_mutant.sh %s/patch.diff %s" % (dst, p), timeout=3600)
        lines = [l for l in o.splitlines() if l.startswith(("== ", "VIOLATION", "INCONCLUSIVE", "vcheck:", "patch", "/repo"))]
        res[p] = lines[:8]
        meta["ran"].append("git -C /repo apply patch.diff; ./bin/vcheck run %s --tier quick; git -C /repo checkout -- ." % p)
    meta["checks"] = res
    meta["detected_by"] = [p for p, l in res.items() if any(x.startswith("VIOLATION") for x in l)]
    json.dump(meta, open(dst + "/meta.json", "w"), indent=1)
    print(json.dumps({k: v for k, v in meta.items() if k not in ("demo_output_with_change",)}, indent=1))
    return 0


if __name__ == "__main__":
    sys.exit(main())
