#!/usr/bin/env python3
"""Re-runs the registered quick checks against every seeded change under /verif/seeded and
refreshes detected_by / checks in its meta.json (always restoring /repo)."""
import json, os, subprocess, sys, glob
EXTRA = {"C05-m1": ["C05", "C15", "C16"], "C12-m1": ["C12", "C13"], "C16-m1": ["C16", "C15"], "C18-m1": ["C18", "C17", "C08"], "C19-m1": ["C19", "C15"],
         "C13-m1": ["C13", "C12"], "C14-m1": ["C14", "C17"], "C17-m1": ["C17", "C01"], "C09-m1": ["C09"], "C01-m1": ["C01", "C08"], "C08-m1": ["C08"],
         "C07-m1": ["C07", "C06", "C01"], "C06-m1": ["C06", "C01"], "C10-m1": ["C10"], "C11-m1": ["C11"], "C20-m1": ["C20"], "C02-m1": ["C02"], "C03-m1": ["C03"], "C04-m1": ["C04", "C05"], "C15-m1": ["C15", "C14"],
         "C01-m2": ["C01", "C17", "C18"], "C18-m2": ["C18", "C17", "C01"], "C05-m2": ["C05", "C01", "C17"], "C14-m2": ["C14", "C15"], "C17-m2": ["C17", "C14"], "C09-m2": ["C09", "C14"],
         "C16-m2": ["C16"], "C12-m2": ["C12"], "C12-m2b": ["C12"],
         "C03-m2": ["C03"], "C04-m2": ["C04"], "C06-m2": ["C06", "C18", "C01"], "C11-m2": ["C11", "C20"], "C13-m2": ["C13"], "C15-m2": ["C15", "C16"], "C20-m2": ["C20", "C11"],
         "C01-m3": ["C01", "C17"], "C02-m3": ["C02", "C17"], "C05-m3": ["C05", "C18"], "C07-m3": ["C07", "C18"], "C17-m3": ["C17", "C02"], "C19-m3": ["C19", "C15", "C16"], "C03-m3": ["C03", "C08"], "C11-m3": ["C11", "C03"], "R-b5ad4f5": ["C09", "C18"], "R-4c29119": ["C16", "C19"], "R-d3199f5": ["C10"], "R-03da578": ["C16"], "C09-m3": ["C09", "C11"], "C16-m4": ["C16", "C05"], "C17-m4": ["C17", "C13"], "C20-m4": ["C20", "C13"], "C12-m4": ["C12", "C20"], "C15-m4": ["C15", "C16"], "C14-m4": ["C14", "C17"], "C09-m4": ["C09"], "C18-m4": ["C18", "C12"],
         "C01-m5": ["C01", "C07"], "C04-m5": ["C04", "C03"], "C07-m5": ["C07", "C05"], "C13-m5": ["C13", "C18"], "C18-m5": ["C18", "C13"], "C16-m5": ["C16", "C05"], "C19-m5": ["C19", "C09"], "C20-m5": ["C20", "C12"], "C17-m5": ["C17"], "C05-m5": ["C05", "C04"], "R-2af96c1": ["C05", "C16"], "R-6318dcd": ["C04"], "R-a5afad0": ["C19", "C16"], "R-3c3d42b": ["C08", "C05"], "R-28862b1": ["C12"], "C09-m6": ["C09", "C16"], "C11-m6": ["C11"], "C12-m6": ["C12", "C03"], "C14-m6": ["C14"], "C19-m6": ["C19", "C16"], "C03-m6": ["C03", "C01"], "C06-m6": ["C06", "C01"], "C05-m6": ["C05", "C01", "C06"], "C20-m6": ["C20", "C06"], "C01-m6": ["C01", "C06"], "C17-m6": ["C17", "C08", "C18"], "C18-m6": ["C18", "C17"], "C02-m6": ["C02", "C17"], "C13-m6": ["C13", "C02"], "C16-m6": ["C16"], "C07-m6": ["C07"], "C08-m6": ["C08", "C06"], "C10-m6": ["C10"], "C04-m6": ["C04", "C03"], "C15-m6": ["C15", "C14"], "R-0238794": ["C18"], "R-b419a80": ["C20"], "R-d3dd660": ["C03", "C04"], "R-5b0eaa4": ["C17", "C01", "C08"], "C14-m8": ["C14", "C17", "C18"], "C05-m8": ["C05", "C16"], "C11-m8": ["C11", "C10"], "C13-m8": ["C13", "C18"], "C15-m8": ["C15", "C16"], "C17-m8": ["C17"], "C20-m8": ["C20", "C02"], "C01-m8": ["C01", "C02"], "C02-m8": ["C02"], "C03-m8": ["C03", "C17"], "C04-m8": ["C04"], "C06-m8": ["C06", "C08"], "C07-m8": ["C07"], "C08-m8": ["C08"], "C09-m8": ["C09", "C19"], "C10-m8": ["C10"], "C12-m8": ["C12", "C13"], "C16-m8": ["C16", "C19"], "C18-m8": ["C18", "C17"], "C19-m8": ["C19", "C16"], "R-0f83c64": ["C18"], "R-0602507": ["C16"], "R-4ad748c": ["C18", "C16"], "C05-m7": ["C05", "C11", "C10", "C09"], "C09-m7": ["C09", "C04", "C07"], "C01-m7": ["C01", "C10"], "C03-m7": ["C03"], "C06-m7": ["C06", "C07"], "C07-m7": ["C07", "C03"], "C11-m7": ["C11", "C05", "C04"], "C13-m7": ["C13", "C03"], "C20-m7": ["C20"], "C02-m7": ["C02", "C13"], "C08-m7": ["C08"], "C18-m7": ["C18", "C01"], "C19-m7": ["C19", "C09"], "C14-m7": ["C14"], "C17-m7": ["C17", "C14"], "C16-m7": ["C16", "C09"], "C15-m7": ["C15", "C16"], "C12-m7": ["C12", "C13"], "C10-m7": ["C10"], "C04-m7": ["C04", "C20"], "R-8e6d1aa": ["C02", "C13"], "R-aac8a97": ["C06", "C01"], "R-12db06c": ["C04"], "C02-m9": ["C02", "C13"], "C13-m9": ["C13"], "C05-m9": ["C05", "C18"], "C04-m9": ["C04", "C03"], "C17-m9": ["C17"], "C10-m9": ["C10"], "C01-m9": ["C01", "C17"], "C19-m9": ["C19", "C16"], "C16-m9": ["C16", "C15"], "C11-m10": ["C11", "C16"], "C02-m10": ["C02", "C13"], "C05-m10": ["C05", "C16"], "C16-m10": ["C16", "C19"], "C10-m10": ["C10", "C07"], "R-cb6b3d8": ["C10"], "C19-m10": ["C19", "C09"], "R-258e905": ["C04"], "C15-m10": ["C15"], "C02-m11": ["C02"], "C10-m11": ["C10"], "C12-m11": ["C12", "C02"], "C05-m11": ["C05", "C08"], "C16-m11": ["C16", "C05"], "C09-m11": ["C09"], "C18-m11": ["C18"], "C20-m11": ["C20", "C19"], "C01-m11": ["C01", "C03"], "C03-m11": ["C04", "C03"], "C07-m11": ["C07", "C10"], "C17-m11": ["C17", "C03"]}
only = sys.argv[1:]
for d in sorted(glob.glob("/verif/seeded/*")):
    name = os.path.basename(d)
    if only and name not in only:
        continue
    mf = d + "/meta.json"
    meta = json.load(open(mf)) if os.path.exists(mf) else {"property": name[:3], "name": name}
    props = EXTRA.get(name, [meta["property"]])
    res = {}
    for p in props:
        o = subprocess.run(["/verif/scripts/try_mutant.sh", d + "/patch.diff", p], capture_output=True, text=True, timeout=3600,
                           env=dict(os.environ, VERIF_MAX_CHILD_SECONDS=os.environ.get("VERIF_MAX_CHILD_SECONDS", "240")))
        lines = [l for l in (o.stdout + o.stderr).splitlines() if l.startswith(("== ", "VIOLATION", "INCONCLUSIVE", "vcheck:", "patch", "/repo"))]
        res[p] = [l[:300] for l in lines[:6]]
    meta["checks"] = res
    meta["detected_by"] = [p for p, l in res.items() if any(x.startswith("VIOLATION") for x in l)]
    meta["not_detected_by"] = [p for p, l in res.items() if not any(x.startswith("VIOLATION") for x in l)]
    json.dump(meta, open(mf, "w"), indent=1)
    print(name, "detected_by", meta["detected_by"], "not", meta["not_detected_by"])
