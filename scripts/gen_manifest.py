#!/usr/bin/env python3
"""Generates /verif/MANIFEST.json from the table below (kept in one place so the
manifest stays valid while checks are being added)."""
import json, subprocess

LEVEL = {}
CHECKS = {
 "C03": dict(cat="exploration", tech="reference-model oracle (independent codec) over generated field records and accepted byte strings; counter-history monitor",
   text="Every generated message is encoded by the library and by an independent reference codec and compared byte for byte, decoded back and compared field by field; every byte string a decoder accepts must re-encode verbatim; >400000 consecutive automatic ids are strict-parsed. Boundary cross product is enumerated, the rest is seeded random sampling: held on the cases run, not proved. Also 2..16 goroutines drawing automatic identifiers at once through more than a thousand wraps per run. Decoded packets are also changed through single setters (on fresh and on reused message objects) and must encode to the reference encoding of the fields they then report. The accepted-bytes check also runs over the C04 mutation corpus; built messages are changed through a setter after their first Encode and encoded again.",
   note="trusted: harness/refcodec (written from the OASIS text); raw flag setters without their value are outside 'built through the API'", ref="3/C03"),
 "C04": dict(cat="exploration", tech="runtime monitor (recover + address-range + reference-decoder oracle) over systematic mutations of valid packets and random bytes, cap==len inputs",
   text="All 14 decoders run on >1.3M (quick) hostile inputs derived systematically from valid packets (all prefixes, all single-bit flips, length/flag rewrites) and random bytes, each in a slice with cap==len so any over-read is a bounds panic; oracle checks no panic, byte count, field address ranges and acceptance of strict-valid packets. Every input is decoded a second time into a long-lived, much-used message object of the type: same verdict, count and fields, nothing outside the input. Accepted packets are also decoded from a buffer with bytes behind them and changed through the setters: those bytes must stay untouched.",
   note="no unsafe/cgo in the library, so Go bounds checks make over-reads observable; reference decoder defines 'well-formed'", ref="3/C04"),
 "C06": dict(cat="exploration", tech="reference-model oracle (MQTT 4.7 matcher + map model) over an exhaustive small scope and random API histories of topics.NewMemProvider()",
   text="All 779 filters of <=4 levels over {a,b,empty,+,#} x all names of <=4 levels over {a,b,empty} x 3 QoS are decided against the specification matcher on the real topic store (Subscribers and Retained), and thousands of random subscribe/unsubscribe/retain histories are compared with a map model after every operation. Exhaustive for that scope only; histories are sampled. Concurrent histories (one subscriber per goroutine, untouched bystanders, union of the models at quiescence) are checked as well. Result slices are reused across lookups as the service does; every history ends by draining the store. A second exhaustive scope (three levels) has a literal that begins with '$'.",
   note="trusted: spec.Match (20 lines from section 4.7); known finding F-C06-1 (empty levels) is recognised by a classifier predicate, anything else is reported", ref="3/C06"),
 "C13": dict(cat="exploration", tech="list-model oracle over exhaustively enumerated operation sequences and random histories; porcupine linearizability check of concurrent histories",
   text="Every register/ack/collect sequence up to depth 6 (ids {1,2}) and 5 (ids {1,2,3}) is executed on a fresh real queue and compared with a FIFO list model incl. byte-identity of the copies; long random histories exercise growth and wrap; concurrent histories are checked with porcupine. Bounded exhaustive + sampling. Growth of a full, wrapped queue while an acknowledgement is in progress is enumerated separately (ack message with a dwelling Encode). Lists handed back by Acked are kept and must stay unchanged by later calls. Requests sized at the boundaries of the remaining-length field must be handed back byte-identical. An identifier whose entry is finished but not yet collected is free for a new registration; acknowledgements of one kind vary in length.",
   note="trusted: the 60-line list model; porcupine v1.3.0", ref="3/C13"),
 "C14": dict(cat="exploration", tech="stream-position oracle on the real ring (every obtained byte verified at its committed offset), enumerated op x offset x chunk matrix, concurrent SPSC stress incl. Go race detector",
   text="All producer-op x consumer-op x wrap-position x chunk-size cells are executed single-threaded, then hundreds of MiB are moved between a producer and a consumer goroutine with seeded op mixes at three GOMAXPROCS values, with peeked slices re-verified before commit; the same workload runs under -race. Held on the executions run. Close cells: a producer parked for space is ended by Close and the consumer drains or holds a peeked slice. Rings are also asked for with sizes that are not powers of two.",
   note="SPSC use as in the service; blocks/wraps/peek counts are reported from the pre-Wait hooks", ref="3/C14"),
 "C15": dict(cat="fault_enumeration", tech="enumerated state x operation x event x timing matrix on the real ring with yield-hook steering; stuck calls decided from goroutine state snapshots; later-calls probe",
   text="583 applicable cells of the blocking matrix are executed; yield hooks place Close / commits exactly in the check-to-Wait window and before the Lock; afterwards every exported method is probed. A parked call with no enabled waker (two identical all-parked snapshots) is the witness. Close arriving inside the copy phase of a multi-MiB Read or Write.",
   note="liveness restated as absence of stuck states on the enumerated matrix; deadlines are only watchdogs", ref="3/C15"),
 "C01": dict(cat="exploration", tech="reference-model monitor over wire histories of a real broker (net.Pipe) at synctest quiescence points; payloads carry unique id + CRC",
   text="Thousands of generated sequential histories are executed step by step against the real broker; after every publish, at true quiescence, each subscriber's received copies are compared with what a small subscription model and the MQTT 4.7 matcher allow (1..k copies, QoS multiset, nobody else). Sampling of histories, not exhaustive. Multi-filter UNSUBSCRIBEs also list filters the client does not hold. Half of the clients keep their session across reconnects. Payload sizes put the delivered packets on the edges of the remaining-length encoding.",
   note="trusted: synctest quiescence, spec.Match, the subscription model; known finding F-C01-1 (empty levels) recognised by classifier", ref="3/C01"),
 "C07": dict(cat="exploration", tech="wire-level monitor: SUBACK/UNSUBACK obligations and probe-publish effect check at synctest quiescence",
   text="Generated SUBSCRIBE/UNSUBSCRIBE packets incl. invalid filters and out-of-range QoS are sent to the real broker; silence on an open connection, a wrong code, order or count is a violation, and probes after the ack verify that exactly the granted filters are effective. Also: 4..13 connections subscribing / unsubscribing at the same moment on one tree node, with PINGREQ/PINGRESP barriers (real time). A subject subscribed behind a short-lived neighbour must receive a whole numbered stream while the neighbour's connection is cut inside it. Requests with up to 300 filters. An unsubscribe issued on another connection of the same session must hold when the session is resumed.",
   note="trusted: reference encoder for malformed requests, synctest quiescence", ref="3/C07"),
 "C08": dict(cat="exploration", tech="last-writer-wins model monitor over wire histories at synctest quiescence; CRC payloads",
   text="Retained/plain/clearing publishes, filler traffic beyond two ring sizes and new subscriptions are interleaved; at every new subscription the exact multiset of retained deliveries (flag, QoS, payload identity) is compared with the model. Retained messages that fit must all reach a new subscription even when retained wills larger than the rings sit on sibling topics.",
   note="sequential histories only in this check; concurrent retained updates are exercised by C18's workload", ref="3/C08"),
 "C09": dict(cat="fault_enumeration", tech="fault-sequence monitor: endings x will parameters x session histories, witness client at synctest quiescence, virtual-time keep-alive, chaos conn read faults",
   text="Every way a connection can end in the harness (7 endings incl. injected read errors and virtual-time keep-alive expiry) is crossed with will parameters and CleanSession histories; the witness must see this connection's will exactly once, or never after DISCONNECT. Also: final bytes delivered together with io.EOF by the transport, and refused CONNECTs naming the victim client id under an authenticator. Also: the connection's processor parked on its own full outgoing ring when the connection ends. One of two connections that share a session subscribes before the other ends.",
   note="trusted: synctest virtual time; teardown-finished hook events counted per connection", ref="3/C09"),
 "C10": dict(cat="exploration", tech="session-model monitor over wire histories at synctest quiescence (CONNACK flag + probe publishes)",
   text="Generated connect/subscribe/unsubscribe/end histories over three client ids; SessionPresent and the set of active subscriptions after every (re)connect are compared with a model of the state kept by CleanSession=0 connections, using probe publishes and the C01 delivery oracle. Also: sessions of 1000..40000 filters probed the instant the first PINGRESP is read (real time), and resume attempts over a transport whose CONNACK write fails. Every third CONNECT carries a will. A steered race: a second CONNECT of a brand-new identifier arriving between the creation and the initialisation of the first one's session.",
   note="trusted: synctest quiescence, the 20-line session model", ref="3/C10"),
 "C11": dict(cat="exploration", tech="first-packet product monitor at synctest quiescence with witness subscriber, retained-store and session probes; virtual-time connect timeout",
   text="About 1600 first packets (all types, CONNECT field/flag product, malformed variants) under three authenticators, each followed by a tail of effective packets; answers and absence of any effect are checked at quiescence. Every first packet is also sent in two pieces and byte by byte / in three pieces, and with 5 KiB / 64 KiB wills. Groups of acceptable CONNECTs sent at the same moment (same new client id or different ids) must all be answered with CONNACK 0. Connections without an accepted CONNECT must not delay a new client's CONNACK (broker process behind a real listener). Refusals are also sent through the TCP/TLS accept loops and the websocket proxy with the client silent afterwards: its connection must end.",
   note="refusal code set derived from the applicable reasons; policy-dependent ids may go either way", ref="3/C11"),
 "C19": dict(cat="exploration", tech="virtual-time monitor (testing/synctest) of keep-alive expiry and PINGREQ/PINGRESP with a will witness",
   text="All 84 combinations of K and activity pattern run in virtual time; drop time after the last byte is measured exactly (observed 1.2 K), active clients survive 50 intervals, expiry publishes the will once. Now 138 pattern runs (mid-packet silence, uneven pacing just inside K, pings behind a near-ring-size packet) plus real-time window cells in which the expiry meets a goroutine held in its check-to-Wait window. A successor connection with the same client id that is active must survive the silent one's expiry, and the will published is the silent connection's. A client that stopped reading and filled its own outgoing ring before falling silent must be dropped like any other. A silent connection that resumed a stored session.",
   note="virtual clock for the pattern runs; the window cells run in real time with hook events, not deadlines, deciding", ref="3/C19"),
 "C02": dict(cat="exploration", tech="per-packet wire oracle over enumerated and sampled QoS 1/2 scripts at synctest quiescence (acks on the publisher's wire, hand-overs on a QoS 2 subscriber's wire)",
   text="All scripts up to length 5 over a 6-token alphabet and thousands of longer sampled ones; after every packet the exact acks and hand-overs are compared with the QoS 2 receiver state machine, incl. DUPs with different content and ring-wrapping filler. Plus burst scripts (17..48 exchanges open at once, both roles), sender reconnects, and pipelined bursts of more than three ring sizes written while the subscriber is stalled (acknowledgements and hand-overs compared with the packet order at quiescence). A PUBLISH after the PUBREL of its identifier counts as a new exchange (out-of-order releases included); a quarter of the exchanges start with a copy flagged DUP. PUBRELs that reach the processor after the sender's connection has gone must still release their messages.",
   note="broker role; client role via scripted peer (see DESIGN)", ref="3/C02"),
 "C12": dict(cat="exploration", tech="event-log oracle over client-API completions vs a scripted TCP peer (global sequence stamps), yield-hook forced ack-before-register interleaving, wire-id monitor on a raw subscriber",
   text="Completion callbacks and peer acks are stamped from one counter; exactly-once, not-before-ack and completed-by-barrier are checked for generated ack orders; the adverse interleaving is forced deterministically through the verif yield point and the proc.handled event; forwarded packet identifiers in flight are checked on the subscriber's wire. Also: 2..4 clients used by 4..8 goroutines each with all acknowledgements withheld (identifiers in flight distinct, completions exactly once), and identifier wrap-around caused by another client in the process. A quarter of the scripted requests carry no completion function. Requests larger than the client's buffer must return, never complete, and not hold up the others. A PUBREC repeated after its exchange is over is still answered with a PUBREL.",
   note="real TCP/real time with a protocol barrier; one session at a time per child process", ref="3/C12"),
 "C20": dict(cat="exploration", tech="scripted-peer monitor of Client.Connect results and callback dispatch; goroutine-snapshot leak check",
   text="27 CONNACK answers and hundreds of generated subscribe/unsubscribe/inbound-publish sessions; per-request callback invocation counts are compared with the MQTT matcher after a protocol barrier; goroutine snapshots show no library frame after failed Connect / Disconnect. Also: a burst of deliveries followed at once by the end of the stream (callbacks counted at the teardown-finished event). A third of the Subscribe/Unsubscribe calls are held right after writing the request until the acknowledgement was handled. Several Clients of one process sharing a client identifier towards different servers. The CONNACK cases and every fourth dispatch session also run over TLS through ConnectTLS. A server that is silent for longer than the connect timeout right after CONNACK 0 must not lose the client.",
   note="real TCP on 127.0.0.1; leak check by stack frames under the library import path", ref="3/C20"),
 "C16": dict(cat="fault_enumeration", tech="enumerated teardown matrix at synctest quiescence; teardown-finished hook events, witness client, goroutine-snapshot leak check, process-wide deadlock watchdog",
   text="All 160 cause x buffer-condition x order x will x CleanSession cells are executed against the real broker with really full rings (clients that stop reading); completion of teardown is decided from hook events and goroutine state at quiescence. Since extended to 232 cells (an incomplete near-ring-size message in the inbound ring as a fifth condition), 32 pipelined cells (ending packet behind a held-up delivery) and 36 real-time window cells where the yield hook holds a goroutine between its done-check and Cond.Wait while the connection ends, keep-alive expiry included. A third of the cells have refused ('$') publishes in their history; wills larger than the rings must not keep a teardown from finishing. Condition own-out-full: the connection's own processor parked on its own full outgoing ring; keep-alive expiry must tear it down before anybody closes anything. The fronts workload (TCP/TLS accept loops, websocket proxy) ends with Server.Close and a no-goroutine-left check. A packet larger than the ring is a sixth cause of teardown.",
   note="bounded time = quiescence reached with all goroutines gone; watchdog expiry without an all-parked snapshot is inconclusive", ref="3/C16"),
 "C17": dict(cat="exploration", tech="strict reference-parser monitor on every subscriber stream + per-(subscriber,publisher,topic,QoS) sequence monitor under concurrent stress, also with the Go race detector",
   text="Dozens of concurrent runs with up to 12 publishers, slow/bursty subscribers, in-process publishers, retained updates and churning clients; every received byte is strict-parsed, every payload CRC-checked, sequence numbers per publisher/topic/QoS must increase. Held on the executed schedules. A stored session is resumed dozens of times while 9..30 KiB messages pour into its subscription: CONNACK first, whole packets only. The same workload also runs through the library's TCP accept loop, TLS accept loop (1.3 and 1.2) and websocket proxy, each publisher ending with a message right before it closes.",
   note="real time over net.Pipe; quiescence by protocol barriers", ref="3/C17"),
 "C18": dict(cat="exploration", tech="Go race detector (-race, reports parsed from GORACE logs) over concurrent broker, ring and ack-queue workloads with measured overlap counters",
   text="The race detector observes workloads W1-W7; any report with a library frame is a violation keyed by the pair of innermost library functions; overlap counters (e.g. thousands of deliveries entering writeMessage during the target's teardown) are measured in the same processes and must exceed floors. Workload W8 lets two connections of one stored session work off acknowledgements at the same time. Workload W9: several library Clients of one process connecting and disconnecting at once. The retained workloads also clear retained messages.",
   note="absence of reports on executed schedules only; W7 (same client id reconnecting during teardown) was open finding F-C18-1 until repair b5ad4f5", ref="3/C18"),
 "C05": dict(cat="fault_enumeration", tech="out-of-process broker under enumerated hostile connections with a witness publisher/subscriber pair and an idle observer as monitors; exit status/stderr capture",
   text="More than a thousand attack connections per quick run (truncations at every offset, field corruptions, mutated packets of all types, oversized packets, forbidden packets, cuts and teardown racing deliveries) against real broker processes over TCP; after each, process liveness, bystander connections and the exact witness sequence are checked. Also in-process: several publishers delivering to a stalled subscriber at the moment it is cut must all survive and keep working. Also: well-framed short CONNECTs, mutated CONNECTs as first packet, and wills larger than the configured rings (a CONNECT bypasses the ring) whose delivery must neither wedge a subscriber nor the teardown. Includes same-identifier churn against a 2000-filter session. A retained publish in the window between a subscriber's sudden disconnect and the end of its teardown must be kept for later subscribers.",
   note="the broker is a child process so a crash is observable and contained; every case is logged before it is sent", ref="3/C05"),
}
PENDING = {}
ALL = ["C%02d" % i for i in range(1, 21)]

def main():
    checks = []
    for pid in ALL:
        if pid not in CHECKS:
            continue
        c = CHECKS[pid]
        checks.append({
            "property_id": pid,
            "quick_cmd": "./bin/vcheck run %s --tier quick" % pid,
            "thorough_cmd": "./bin/vcheck run %s --tier thorough" % pid,
            "evidence_file": "/verif/evidence/%s.json" % pid,
            "replay_cmd_template": "./bin/vcheck replay {path}",
            "engine": "vcheck",
            "level_claimed": {"category": c["cat"], "text": c["text"], "design_ref": "DESIGN.md section " + c["ref"]},
            "level_note": c["note"],
            "technique": c["tech"],
        })
    na = [{"property_id": p, "reason": PENDING.get(p, "check not built yet (work in progress); the design in DESIGN.md section 3 applies runtime monitoring to it")} for p in ALL if p not in CHECKS]
    hooks = subprocess.run(["git", "-C", "/repo", "log", "--format=%H", "--grep=^verif:"], capture_output=True, text=True).stdout.split()
    man = {
        "version": 1,
        "setup_cmd": "cd /verif/harness && GOFLAGS=-mod=mod GOPROXY=off GOSUMDB=off GOTOOLCHAIN=local go1.26.8 build -o /verif/bin/vcheck ./cmd/vcheck && /verif/bin/vcheck build",
        "hooks": {
            "guard": "verif",
            "enable": "go test -c -tags verif (Go build tag; hook bodies in service/verif_on.go, empty stubs in service/verif_off.go)",
            "baseline_off_cmd": "cd /repo && GOFLAGS=-mod=mod GOPROXY=off GOSUMDB=off GOTOOLCHAIN=local go test -json -vet=off -count=1 -timeout 25m ./...",
            "source_commits": hooks,
            "add_only": True,
        },
        "engines": [{"name": "vcheck", "path": "/verif/harness", "serves_properties": [c["property_id"] for c in checks],
                     "kind_free_text": "Go driver (cmd/vcheck) fanning out child processes of a 'go test -c -tags verif' binary (package vrun) whose monitors observe the real library: reference-model oracles, wire-level history checkers, porcupine, goroutine-state deadlock detection, Go race detector"}],
        "checks": checks,
        "not_applicable": na,
        "notes": "All checks rebuild package vrun from /repo's working tree with -tags verif on every invocation. Exit 0 held / 1 VIOLATION / 2 INCONCLUSIVE (coverage floor missed, watchdog, build failure).",
    }
    if not na:
        del man["not_applicable"]
    json.dump(man, open("/verif/MANIFEST.json", "w"), indent=1)
    print("checks:", [c["property_id"] for c in checks], "pending:", len(na))

if __name__ == "__main__":
    main()
