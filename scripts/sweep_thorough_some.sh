#!/bin/bash
# sweep_thorough_some.sh <props...> : thorough tier of the given checks from the tree this script lives in (for vp run --with-repo)
cd "$(dirname "$0")/.." || exit 2
export GOFLAGS=-mod=mod GOPROXY=off GOSUMDB=off GOTOOLCHAIN=local
if [ -n "$VP_RUN_REPO" ]; then export VERIF_REPO="$VP_RUN_REPO"; fi
(cd harness && go1.26.8 build -o ../bin/vcheck ./cmd/vcheck) || exit 2
for p in "$@"; do
  out=$(./bin/vcheck run $p --tier thorough 2>&1); code=$?
  echo "thorough $p exit=$code $(echo "$out" | grep -E '^(VIOLATION|INCONCLUSIVE)' | head -3 | cut -c1-300 | tr '\n' ' ')"
  echo "$out" | grep -E "^vcheck: " | head -4 | cut -c1-300
done
