#!/bin/bash
# sweep.sh <tier> <seeds...> : runs every registered check at the given seeds from the
# tree this script lives in (works inside a `vp run` snapshot), prints one line per run.
cd "$(dirname "$0")/.." || exit 2
export GOFLAGS=-mod=mod GOPROXY=off GOSUMDB=off GOTOOLCHAIN=local
# inside `vp run --with-repo` the checks build against the snapshot of /repo's HEAD, so that
# /repo itself can be worked on meanwhile (seeded changes are applied to it temporarily)
if [ -n "$VP_RUN_REPO" ]; then export VERIF_REPO="$VP_RUN_REPO"; echo "using repository snapshot $VERIF_REPO"; fi
(cd harness && go1.26.8 build -o ../bin/vcheck ./cmd/vcheck) || exit 2
tier="$1"; shift
for seed in "$@"; do
  for p in C01 C02 C03 C04 C05 C06 C07 C08 C09 C10 C11 C12 C13 C14 C15 C16 C17 C18 C19 C20; do
    t0=$(date +%s)
    out=$(VERIF_SEED=$seed ./bin/vcheck run $p --tier $tier 2>&1); code=$?
    t1=$(date +%s)
    echo "seed=$seed $p exit=$code wall=$((t1-t0))s $(echo "$out" | grep -E '^(VIOLATION|INCONCLUSIVE)' | head -3 | cut -c1-300 | tr '\n' ' ')"
    if [ $code -ne 0 ]; then echo "$out" | grep -E "^vcheck: " | head -5 | cut -c1-400; fi
  done
done
