#!/bin/bash
# usage: try_mutant.sh <patch> <property>... : applies a patch to /repo, runs the
# quick checks of the given properties, and ALWAYS restores /repo afterwards.
set -u
patch="$1"; shift
cd /repo || exit 2
if [ -n "$(git status --porcelain)" ]; then echo "/repo not clean"; exit 2; fi
if ! git apply --check "$patch" 2>/dev/null; then echo "patch does not apply"; exit 2; fi
git apply "$patch"
# the evidence files under /verif/evidence describe the unchanged tree: keep them out of the way
save=$(mktemp -d /verif/.work/evidence-save.XXXXXX)
cp -a /verif/evidence/. "$save"/
trap 'cd /repo && git checkout -- . && git clean -fdq; cp -a "$save"/. /verif/evidence/; rm -rf "$save"' EXIT
cd /verif
for p in "$@"; do
  out=$(./bin/vcheck run "$p" --tier "${TIER:-quick}" 2>&1)
  code=$?
  echo "== $p exit=$code"
  echo "$out" | grep -E "^(VIOLATION|INCONCLUSIVE|KNOWN-FINDING|vcheck:)" | cut -c1-400 | head -12
done
