#!/usr/bin/env python3
"""Run the repository's pinned suite with the verif guard OFF (default go, no
tags) and compare test by test with /root/.vp/BASELINE.json stable_pass."""
import json, os, subprocess, sys
env = dict(os.environ, GOFLAGS="-mod=mod", GOPROXY="off", GOSUMDB="off", GOTOOLCHAIN="local")
p = subprocess.run(["go", "test", "-json", "-vet=off", "-count=1", "-timeout", os.environ.get("BASELINE_TIMEOUT", "25m"), "./..."],
                   cwd=os.environ.get("REPO_DIR","/repo"), env=env, capture_output=True, text=True)
res = {}
for l in p.stdout.splitlines():
    try:
        e = json.loads(l)
    except Exception:
        continue
    if e.get("Test") and e.get("Action") in ("pass", "fail", "skip"):
        res[e["Package"] + "::" + e["Test"]] = e["Action"]
base = json.load(open("/root/.vp/BASELINE.json"))
bad = [t for t in base["stable_pass"] if res.get(t) != "pass"]
print("stable_pass=%d passing_now=%d regressions=%d" % (len(base["stable_pass"]), len(base["stable_pass"]) - len(bad), len(bad)))
for t in bad:
    print("REGRESSION", t, res.get(t))
sys.exit(1 if bad else 0)
