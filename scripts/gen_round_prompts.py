#!/usr/bin/env python3
"""gen_round_prompts.py <round> <m1,m2,...>: writes /tmp/prompt<round>-Cxx.txt (property text + task, nothing from /verif) and creates the scratch worktrees /tmp/w<round>-Cxx for a round of independent sub-agents."""
import json,subprocess,sys
R=sys.argv[1]  # round number, e.g. 9
MS=sys.argv[2].split(',')  # earlier change names to list, e.g. m1,m2,m3,m4,m5
props={}
for l in open('/verif/properties.jsonl'):
    d=json.loads(l); props[d['id']]=d
head='''You are working in a scratch git worktree of the Go library mdzio/go-mqtt (an in-memory MQTT 3.1.1 broker and client library: packages message, topics, sessions, service, auth) at the directory /tmp/w8-PID. Work ONLY inside that directory; do not read or touch anything outside it (in particular never look at /verif or /repo).

Environment for every shell call (there is no network): export GOFLAGS=-mod=mod GOPROXY=off GOSUMDB=off GOTOOLCHAIN=local

The library is supposed to satisfy this property:

'''
tail='''YOUR TASK: produce ONE realistic change to the library's non-test Go source in the worktree (the kind of bug a maintainer could plausibly introduce: a refactoring slip, wrong condition or comparison, dropped or misplaced lock/unlock, reordered statements, off-by-one, a missing copy, a lost broadcast, a wrong variable) that BREAKS this property, such that:
 (a) it still compiles: `go build ./...` and `go build -tags verif ./...`;
 (b) every test of the existing suite that passes BEFORE your change still passes AFTER it. Run `go test -vet=off -count=1 ./... 2>&1 | grep -E "^(---|ok|FAIL|panic)"` before and after. NOTE: several tests fail before any change (TestFan, TestMesh, TestConnectMessageFields, TestMemTopicsSubscription and most tests of package service, which need a broker the tests configure wrongly) - that is expected and they are flaky in how many of them get to run; what matters is that no test that passed before fails now (check in particular packages message, topics, sessions, auth, and service tests TestBuffer*, TestReadMessage*, TestWriteMessage*, TestServiceConnectAuthError and client/example tests);
 (c) the breakage needs something SPECIFIC to manifest - a particular interleaving of goroutines, a fault or disconnect at a particular point, a multi-step sequence of operations, an unusual input or size, or two cooperating sites that each look fine alone - NOT something that the very first ordinary use would expose.
Do not modify test files and do not modify service/verif_on.go or service/verif_off.go (they are build-tag guarded test hooks; with `-tags verif` they give you e.g. `(*service.Server).VerifServe(net.Conn)` which serves one connection exactly like the accept loop does, `service.VerifNewBuffer(size)` returning the ring buffer, `service.VerifEventHook` / `service.VerifYieldHook` function variables; you may use them in your demonstration).

Also write a DEMONSTRATION: a Go test (or small program) that FAILS with your change and PASSES without it. Put it under /tmp/w8-PID/demo_mutant/ (its own directory/package inside the module, e.g. package demo_mutant with a _test.go file importing github.com/mdzio/go-mqtt/...; use `-tags verif` if you need the hooks; it may use net.Pipe or loopback TCP on 127.0.0.1; the library logs via github.com/mdzio/go-logging, `logging.SetLevel(logging.OffLevel)` silences it). Verify both directions yourself: run it with the change (must fail); then remove the change with `git diff -- . ':(exclude)demo_mutant' ':(exclude)mutant.patch' > mutant.patch && git apply -R mutant.patch`, run the demo again (must pass reliably, at least 5 times), then restore it with `git apply mutant.patch`. NEVER use `git stash` (it is shared with other worktrees of this repository).

DELIVERABLES in the worktree when you finish:
 - the source change applied (uncommitted) in the working tree;
 - /tmp/w8-PID/mutant.patch = output of `git diff -- . ':(exclude)demo_mutant' ':(exclude)mutant.patch'` (the source change only);
 - /tmp/w8-PID/demo_mutant/ with the demonstration and a README.md stating the exact command to run it and what is needed for the bug to manifest.
In your final answer report concisely: which file/function you changed and how, why it breaks the property, what is needed to manifest, and the commands you ran with their outcomes (suite before/after, demo with/without the change). If, while reading the code, you notice something in the UNCHANGED library that already looks wrong with respect to this property, mention it in one or two sentences at the end.


'''
for pid in sorted(props):
    d=props[pid]
    prev=[]
    for n in [pid+'-'+x for x in MS]:
        prev.append(json.load(open('/verif/seeded/%s/meta.json'%n)).get('change',''))
    body="%s: %s\n\nStatement: %s\n\nQuantification: %s\n\n\n"%(pid,d['title'],d['statement'],d['quantifier']['text'])
    cons="ADDITIONAL CONSTRAINT: earlier attempts already used these changes:\n"+"\n".join(' - "%s"'%c for c in prev)+"\nAlso already used elsewhere: moving ReadCommit before processIncoming in the processor; dropping the mutexes around the broadcasts in buffer.Close; reading the first packet with a single Read; RLock instead of Lock in topics Subscribe/Unsubscribe; copy-offset slips in Ackqueue.grow; an early EOF in buffer.ReadWait on a closed ring; restoring stored subscriptions after the goroutines started; returning from the fan-out loop at the first failing subscriber; leaking the topic tree's read lock on an error path; publishing the session's will instead of the connection's; reusing the slice Ackqueue.Acked returned; writing a request before registering it in the ack queue; not resetting a field when a message object is decoded into a second time; waiting for more ring space than the ring has; pruning slips in snode.sremove; a ring size that is not a power of two; the 65536th request of a connection; a serial accept loop; a result slice that is not reset; bytes kept by Encode and not refreshed after an in-place setter; parallel slices or two map iterations getting out of step; a clamp applied after the value was stored; a length computed before the remaining length was set; reserved header bits checked before they are read; a buffer recycled while a message still points into it; the caller's message object used where the registered copy should be; authentication moved behind the session lookup; an ack-queue slot cleared before its identifier is read; a QoS 1 message handed on before its PUBACK is built; a decoded packet's byte slice sized by the canonical header length; WriteTo (or the receiver) no longer closing the ring when the transport fails; a retained-tree walk that stops at a node holding a message; repeated filters merged by a decoder; the retain flag cleared on one forwarding path only; a read time-out treated as an ordinary end; a store entry deleted under a still-empty client identifier; Session.Update keeping the shorter buffer of an earlier CONNECT; the PINGREQ slot of the ack queue touched without its mutex; ring space reserved before the write mutex is taken; a broadcast skipped when a TryLock fails; Client.Disconnect writing straight to the socket.\nYours must be clearly different from all of them: a different function (preferably a different file), a different mechanism, and a different way of manifesting. Prefer a change whose effect depends on timing, on a fault/disconnect at a particular moment, on ordering between two connections (including two connections that use the same client identifier for a while), on several goroutines using one object, on a slow or fragmenting transport, on a multi-step history, on reuse of an object, or on an unusual but legal configuration, value or size, over a slip the first ordinary use would show.\n"
    s=(head+body+tail+cons).replace('/tmp/w8-','/tmp/w'+R+'-').replace('PID',pid)
    open('/tmp/prompt'+R+'-%s.txt'%pid,'w').write(s)
    subprocess.run("git -C /repo worktree add -q --detach /tmp/w"+R+"-%s HEAD"%pid,shell=True)
